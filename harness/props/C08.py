"""C08 — propagation and iteration contract; independence from call history."""
import ast
import os
import random

from harness import core
from harness.core import Outcome

ID = "C08"
LEAN_TARGETS = ["BeyondVerif.Props.C08", "BeyondVerif.Witness.C08"]
THEOREMS = [
    "BeyondVerif.C08.date_range_forward",
    "BeyondVerif.C08.date_range_backward",
    "BeyondVerif.C08.iter_dates_forward",
    "BeyondVerif.C08.iter_dates_backward",
    "BeyondVerif.C08.grid_within_forward",
    "BeyondVerif.C08.grid_within_backward",
    "BeyondVerif.C08.grid_increasing",
    "BeyondVerif.C08.grid_decreasing",
    "BeyondVerif.C08.iter_no_stop",
    "BeyondVerif.C08.iter_incoherent",
    "BeyondVerif.C08.iter_zero_step",
    "BeyondVerif.C08.iter_dates_list",
    "BeyondVerif.C08.ephem_iter_dates_forward",
    "BeyondVerif.C08.ephem_iter_dates_backward",
    "BeyondVerif.C08.ephem_iter_own",
    "BeyondVerif.C08.ephem_iter_own_backward",
    "BeyondVerif.C08.ephem_iter_dates_list",
    "BeyondVerif.C08.ephem_iter_own_sorted",
    "BeyondVerif.C08.ephem_iter_own_backward_sorted",
    "BeyondVerif.C08.ephem_iter_strict_start_refused",
    "BeyondVerif.C08.ephem_iter_strict_stop_refused",
    "BeyondVerif.C08.ephem_iter_strict_backward_refused",
    "BeyondVerif.C08.ephem_iter_clamped_forward",
    "BeyondVerif.C08.ephem_iter_clamped_backward",
    "BeyondVerif.C08.rangeRun_inclusive_forward",
    "BeyondVerif.C08.rangeRun_inclusive_backward",
    "BeyondVerif.C08.rangeRun_exclusive_forward",
    "BeyondVerif.C08.iter_dates_range",
    "BeyondVerif.C08.ephem_iter_dates_range",
    "BeyondVerif.C08.numerical_iter_dates_range_forward",
    "BeyondVerif.C08.numerical_iter_dates_range_backward",
    "BeyondVerif.C08.numIter_eq_numCore",
    "BeyondVerif.C08.numerical_iter_dates_forward",
    "BeyondVerif.C08.numerical_iter_dates_forward_default_partial",
    "BeyondVerif.C08.numerical_iter_dates_backward",
    "BeyondVerif.C08.numerical_iter_dates_list",
    "BeyondVerif.C08.boundVal_bind",
    "BeyondVerif.C08.exec_inv",
    "BeyondVerif.C08.call_result_pure",
    "BeyondVerif.C08.faithful_of_beq",
    "BeyondVerif.C08.propagate_pure",
    "BeyondVerif.C08.propagate_pure_not_sgp4",
    "BeyondVerif.C08.propagate_pure_sgp4",
    "BeyondVerif.C08.iter_eq_map_propagate",
    "BeyondVerif.C08.istep_inv",
    "BeyondVerif.C08.interleave_pure",
    "BeyondVerif.C08.num_points_own_propagator_matches",
    "BeyondVerif.C08.date_range_iter_fresh_matches",
    "BeyondVerif.C08.cw_points_own_propagator_matches",
    "BeyondVerif.C08W.cw_sibling_points_interleaved",
    "BeyondVerif.C08W.interleaved_shared_propagator_retargeted",
    "BeyondVerif.C08.src_walk_items",
    "BeyondVerif.C08.src_walk_once_exhausts",
    "BeyondVerif.C08.src_walkN_again",
    "BeyondVerif.C08.src_walkN_once_lost",
    "BeyondVerif.C08.dates_walks_match",
    "BeyondVerif.C08.iter_dates_source",
    "BeyondVerif.C08.ephem_iter_dates_source",
    "BeyondVerif.C08.numerical_iter_dates_source",
    "BeyondVerif.C08W.second_walk_loses_single_use_dates",
    "BeyondVerif.C08.ephem_cursor_shared_matches",
    "BeyondVerif.C08W.ephem_own_points_shared_cursor",
    "BeyondVerif.C08.ident_table_matches",
    "BeyondVerif.C08.order_matches",
    "BeyondVerif.C08.step_test_matches",
    "BeyondVerif.C08W.numerical_default_step_raw_points",
    "BeyondVerif.C08W.numerical_value_test_raw_points",
    "BeyondVerif.C08W.numerical_nothing_beyond_stop",
    "BeyondVerif.C08W.numerical_nothing_beyond_stop_step",
    "BeyondVerif.C08W.numerical_short_span_resampled",
    "BeyondVerif.C08W.numerical_short_span_listening",
    "BeyondVerif.C08W.numerical_backward",
    "BeyondVerif.C08W.numerical_backward_nostep",
    "BeyondVerif.C08W.numerical_backward_negstep",
    "BeyondVerif.C08W.numerical_dates_list",
    "BeyondVerif.C08W.numerical_dates_list_unordered",
    "BeyondVerif.C08W.numerical_dates_list_empty",
    "BeyondVerif.C08W.ephem_backward",
    "BeyondVerif.C08W.ephem_backward_posstep",
    "BeyondVerif.C08W.ephem_empty_list_yields_nothing",
    "BeyondVerif.C08W.analytical_empty_list_yields_nothing",
    "BeyondVerif.C08W.sgp4_follows_modify",
    "BeyondVerif.C08W.sgp4_follows_drag_change",
    "BeyondVerif.C08W.stale_when_not_faithful",
    "BeyondVerif.C08W.sgp4_follows_both_changes",
    "BeyondVerif.C08W.kepler_follows_modify",
]
LEVEL_TEXT = ("Lean theorems over an integer-microsecond model of Date.range, AnalyticalPropagator.iter, NumericalPropagator.iter + KeplerNum._iter, "
              "Ephem.iter / _iter_backward and of the binding / listener / Sgp4-record state. For all three families (analytical: SGP4, Kepler, J2, None, CW; "
              "numerical: KeplerNum; ephemeris), for all epochs, starts, stops (date or timedelta), steps of either sign (dividing the span or not; absent = "
              "integration step for KeplerNum), with or without listeners: the iterator yields exactly start + k*step, k = 0..floor(|stop-start|/|step|), in order, "
              "none beyond stop, forward (step > 0) and backward (step flipped or negative) - iter_dates_forward/backward, numerical_iter_dates_forward/backward "
              "(EVERY integration method: the lengths of the integration steps are a universally quantified parameter, so euler, rk4 and the adaptive rkf54, dopri54 "
              "are covered; any span however short, stop on or off the integration grid; an explicit step of ANY value, the propagator's own included - the test "
              "`step is self.step` is read from the AST as an identity test, step_test_matches; the DEFAULT step forward only for the fixed-step methods, "
              "numerical_iter_dates_forward_default_partial: for the adaptive ones the code yields the raw integration points, kernel-decided counter-witness, open finding), ephem_iter_dates_forward/backward (start, stop inside the tabulated span; outside it: "
              "refused when strict, ephem_iter_strict_*_refused, clamped to the span otherwise, ephem_iter_clamped_forward/backward; without step: exactly the tabulated "
              "dates within the range for sorted points, ephem_iter_own_sorted / _backward_sorted), by "
              "induction over the loops; explicit lists are yielded as given, the empty list yields nothing (iter_dates_list, numerical_iter_dates_list, "
              "ephem_iter_dates_list), a DateRange object passed as dates= yields exactly the dates of the object in all three families, both directions, inclusive or "
              "not (iter_dates_range, ephem_iter_dates_range, numerical_iter_dates_range_forward/backward, rangeRun_*); the object passed as dates= is modelled as a SOURCE (Src: walked again and again - list, tuple, array, deque, any class with __iter__ or the sequence protocol - or single-use - generator expression, iter(list), reversed, map, filter, chain, the library's own Ephem.dates): the iteration sites walk it exactly once (Generated.datesWalks, counted from the AST of AnalyticalPropagator._iter, Ephem.iter, KeplerNum._iter on every run, dates_walks_match), so for EVERY kind of source the iterator yields exactly the dates the object hands out (iter_dates_source, ephem_iter_dates_source, numerical_iter_dates_source) and leaves a single-use one exhausted; a second walk would find a single-use source empty (src_walkN_once_lost, Witness second_walk_loses_single_use_dates); error kinds of the argument handling; for EVERY history of propagate/iter calls and in-place modifications of the orbits on "
              "shared propagator and listener objects (their coordinates; for Sgp4 also their drag terms), every propagator kind, the result of the next call equals "
              "that on fresh objects holding the current orbit values (propagate_pure, by an invariant over histories; propagate_pure_not_sgp4 without any hypothesis; "
              "for Sgp4 the model's orbit value must be what Sgp4._state compares - coordinates, date, form, frame, bstar, ndot, ndotdot since 3d341d9 - "
              "faithful_of_beq / propagate_pure_sgp4 for the world the correspondence runs). INTERLEAVED generators (created by Orbit.iter, advanced partly, any "
              "other create / advance / propagate in between) are first-class state of a second history model: when no two orbit objects involved hold the same propagator "
              "OBJECT, advancing any generator after ANY such sequence returns the next dates of a fresh uninterrupted iteration of its receiver, on the receiver's "
              "trajectory (interleave_pure, by an invariant over operation sequences); that every point yielded by KeplerNum and every state returned by ClohessyWiltshire owns a "
              "propagator copy and that a DateRange hands every consumer a cursor of its own is read from the AST (num_points_own_propagator_matches, cw_points_own_propagator_matches, date_range_iter_fresh_matches). Kernel-decided regression witnesses "
              "on the inputs of the 10 repaired findings. Model tied to the code by an exact differential correspondence (dates, error kinds, binding trace, whose trajectory, events, "
              "Listener.prev) on every run and by constants / setter kinds regenerated from the source.")
LEVEL_NOTE = ("model hand-written (control flow), tied by exact correspondence; dates are exact integers in the model while Date carries float seconds "
              "(inputs on a 0.125 s grid where the float arithmetic is exact; date arithmetic itself is C03's); yielded STATES are abstract in the model "
              "(f(orbit value, date)) and compared on the real API by the oracle only; the numerical theorems take as a parameter any number m of integration steps "
              "that reach stop and fill the interpolation order and assume fuel > m (fuel bounds the model's loops only; the code has no bound); 10 findings fixed in "
              "/repo are kept as regression families and kernel-decided regression witnesses; 1 clause is false of the current code (adaptive KeplerNum, default step, forward: open finding C08-num-adaptive-default-step, proposed_fixes/C08-i-keplernum-adaptive-default-step.diff - not applied: the maintainer keeps the `step is self.step` special case); "
              "Lean kernel + propext/Classical.choice/Quot.sound")
TECHNIQUE = "Lean 4 proof by induction over the iteration loops and over call histories + kernel decide regression witnesses; exact model/implementation correspondence"
TRUSTED = [
    "harness/props/C08.py extract: reads Ephem.DEFAULT_ORDER and, per propagator class, whether the `orbit` setter stores the object or a copy (AST) -> Generated/IterConst.lean",
    "correspondence: real Orbit / propagator / Ephem / Listener objects vs the compiled Lean model on identical keyword arguments and call histories; exact comparison of yielded dates, end kind (done / ValueError / AttributeError / cap), bound orbit, number of re-bindings, whose trajectory the states lie on, number of events, Listener.prev",
    "CPython generator semantics (a generator body does not run before the first next()) are modelled by the `consume = 0` case",
    "harness/props/C08.py dates_walks: counts in the AST of the three iteration sites the walks of the caller's `dates` object (for-loops, comprehensions, consuming builtins, hand-overs; up to `dates = list(dates)`) -> Generated.datesWalks; an unknown use of the name is an extraction error",
    "CPython iterator protocol: iter(x) of a list / tuple / array / deque / DateRange / class with __iter__ is a fresh cursor, iter(g) of a generator or iterator object is g itself (Model Src.again / Src.once)",
]
ASSUMPTIONS = [
    "Model/Iter.lean is hand-written; it is tied to base.py, keplernum.py, sgp4.py, ephem.py, orbit.py, date.py, listeners.py by the exact correspondence run only",
    "dates are exact integers (microseconds) in the model; the implementation adds float seconds - exact on the generated 0.125 s grid, not in general (C03)",
    "KeplerNum: the integration itself is not modelled; the LENGTHS of the integration steps of the main loop are a parameter `rs` of the model (theorems: for all rs; correspondence: the lengths the real propagator took, recorded by a wrapper around KeplerNum._make_step, are handed to the model - all equal to self.step for euler / rk4, shortened by the step-size control for rkf54 / dopri54); self.step > 0; `real_steps=True` is not modelled",
    "Ephem(points) sorts by date: modelled as the reversal of the (descending) list a backward integration produces",
    "the positioning of KeplerNum at `start` (extrapolation / retropolation from the epoch padded to DEFAULT_ORDER points, one interpolation) always succeeds and only its date enters the model",
    "Sgp4 compares (tobytes, date, form, frame, bstar, ndot, ndotdot) of the bound orbit with what its record was computed from: modelled as a relation World.sameState on abstract orbit values (in the correspondence: equality of (object, number of element changes, number of drag-term changes))",
    "Faithful (hypothesis of propagate_pure, needed for Sgp4 only): the other entries of an orbit (name, norad_id, cospar_id, element_nb, revolutions, tle, type, user attributes) reach only the labels of the TLE text built by Tle.from_orbit, not the trajectory the sgp4 package computes from the record - a statement about Tle.from_orbit / twoline2rv, not proved; exercised on the real API by the oracle (in-place changes of name / norad_id / revolutions / element_nb between calls, family sgp4-history-dependent-*-after-inplace-label-change)",
    "two history models: (1) atomic calls with in-place modifications of the orbits between them (exec / runHist: a generator is consumed or dropped within its call); (2) suspended generators interleaved with other calls (istep / irun), orbit values fixed. In-place modification of an orbit WHILE one of its generators is suspended is in neither",
    "interleaved model: a generator computes its dates at its first next() from the orbit bound then; analytical propagators read the bound orbit again at every date, KeplerNum integrates everything at the first next(); listeners are not shared between interleaved generators",
]
NOT_COVERED = [
    "receiver_unchanged: in the model calls have no write access to the orbit store (a modelling decision, not a theorem); on the real code it is checked by the oracle's before/after snapshots (array bytes, date, form, frame, maneuvers, propagator identity) only",
    "equality of each yielded state with a direct propagation is by construction in the model (states are f(value, date)); on the real code: oracle, bitwise for analytical propagators and Ephem, 1 m / 1 mm/s for KeplerNum (two different RK4 paths)",
    "UNSAFE interleaving in the current code, by design of the binding (modelled, in the correspondence, kernel-decided witness interleaved_shared_propagator_retargeted; not counted as a failure by the oracle): generators of two DIFFERENT orbit objects that hold the SAME propagator object - a propagator the user assigned to two orbits (`b.propagator = a.propagator`) - follow the orbit bound LAST (Orbit.iter binds when called, the generator reads propagator.orbit at its first next(), analytical propagators at every date): `ga = a.iter(..); gb = b.iter(..); next(ga)` returns b's state. Every orbit the library itself hands out owns its propagator (Orbit.copy, the points of Kepler / J2 / None / KeplerNum, and since 31423a7 those of ClohessyWiltshire). Sequential (atomic) use of a shared propagator is covered by propagate_pure",
    "listeners shared between two interleaved generators (each clear_listeners / Listener.prev belongs to one iteration at a time) and in-place modification of an orbit while one of its generators is suspended: not modelled, not in the oracle",
    "a failing Sgp4 binding (Tle.from_orbit raises): since c604b3e the setter binds only after success; binding failures are not in the model",
    "inputs outside the quantifier, modelled and in the correspondence but without theorem: a forward range with a negative step (analytical: ValueError at once, iter_incoherent; Ephem and KeplerNum: dates until the span is left, then ValueError); step = 0 (analytical: ValueError; Ephem / KeplerNum forward: never terminates, both sides stop at the cap; KeplerNum backward: ValueError); KeplerNum.iter(start=None): AttributeError",
    "'the objects handed out do not alias what the receiver is made of' (mutating a yielded / returned state in place must not change the orbit, the points of an ephemeris, or what the same call returns next) has no counterpart in the model (states are abstract values): oracle only, over every branch of Ephem.iter (dates on / between nodes, DateRange both directions, step forward / backward on and off nodes, own points forward / backward / all), Ephem.propagate / interpolate on and between nodes, and iter / propagate of every propagator incl. KeplerNum with each method (families <kind>-alias-<branch>-*)",
    "laziness of the walk (how many dates have been pulled from a single-use source when the consumer stops early; an unbounded generator as dates=) and one single-use source shared by two iterations are not in the model and not in the oracle: KeplerNum needs min / max of the dates and takes list(dates) at once, the other sites pull one date per state",
    "event search (_bisect) is C10's; listeners enter here only through clear_listeners / Listener.prev / the number of events found per call",
]
OPEN = ["interleave_pure assumes that no two orbit objects involved hold the same propagator object; false only for orbits the user made share a propagator (NOT_COVERED); the interleaved model has no theorem for Ephem generators: those that interpolate (step or dates given) and the backward ones share nothing; those over the OWN points (no step, `for orb in self`) and plain loops over the ephemeris share the one cursor Ephem.__iter__ keeps on the object (Generated.ephemIterSharesCursor, ephem_cursor_shared_matches; Model curRun) and disturb each other - a genuine failure of the current code: Witness ephem_own_points_shared_cursor, open finding C08-ephem-own-points-shared-cursor, proposed_fixes/C08-j-ephem-iter-shared-cursor.diff; oracle scenarios *own-points*",
        "numerical_iter_dates_forward_default_partial: with the DEFAULT step (absent / None / propagator.step itself) the forward contract is proved for fixed-step methods only (all rs = h). The excluded case - adaptive rkf54 / dopri54 - is a genuine failure of the current code (Witness numerical_default_step_raw_points, known finding C08-num-adaptive-default-step, proposed_fixes/C08-i-keplernum-adaptive-default-step.diff)",
        "Ephem.iter with start and/or stop ABSENT (defaults: the ends of the tabulated span) has no theorem of its own (modelled, in the correspondence); the clamping theorems (strict=False) are stated for a stop given as a date, not as a timedelta (which the code resolves from the unclamped start)",
        "an exclusive BACKWARD DateRange is covered by iter_dates_range / ephem_iter_dates_range / numerical_iter_dates_range_backward (the iterator yields exactly what the object yields, rangeRun) but rangeRun itself is characterised as a grid only for inclusive ranges and exclusive forward ranges"]
RULE = ("correspondence: per propagator kind (sgp4, kepler, j2, none, num, cw, ephem) random keyword combinations of iter (start absent/None/before/at/after epoch, "
        "stop date/timedelta/absent, step absent/None/positive/negative/zero, dates list (empty, unordered, repeated) carried by every kind of iterable (list, tuple, ndarray, deque, class with __iter__, sequence class; single-use: generator expression, iter(list), reversed, map, filter, chain, Ephem.dates of another ephemeris) / DateRange (both directions), strict, backward "
        "ranges inside and outside an ephemeris span) and random histories of <= 8 propagate/iter calls on two "
        "orbits (every element different) sharing one propagator and two listeners that fire on a date pattern (full, partial, zero consumption; start/stop/step, explicit "
        "dates and DateRange forms; in-place modifications of the orbits between calls: their elements, for Sgp4 also their drag term B* and - oracle only - their name / catalogue number / counters), the trace compared being dates, end kind, bound orbit, number of re-bindings, "
        "number of events, Listener.prev and WHOSE trajectory (orbit object, number of modifications seen) the returned state lies on; non-trivial = >= 2 dates yielded "
        "resp. >= 2 calls; distinct = distinct request line. "
        "numerical propagator: every method (euler, rk4, rkf54, dopri54), step absent / None / propagator.step itself / an equal-valued object / smaller / larger / incommensurate. "
        "interleaved generators: random sequences of create / advance k / propagate on three orbit objects (two sharing one propagator object, one owning its own; or three sibling points of one iteration), "
        "dates, end kind and whose trajectory compared per operation. "
        "oracle: generators consumed side by side on real objects vs alone on fresh ones (zip of sibling points, of orbits owning their propagators, two iterators of one orbit, calls between creation and consumption, "
        "zip(range, iteration over the range), two iterations over one DateRange object, nested loop over the range, resume after list(range)), every kind, both directions; "
        "the contract list start + k*step on the real API for all 7 kinds both directions (KeplerNum: every method and step form, directed cases on every seed), aliasing of the returned objects, yielded state == direct propagate from fresh objects, "
        "explicit dates in all 13 iterable forms through Orbit/Ephem .iter, .ephemeris and .ephem on all 7 kinds (directed on every seed + random), histories vs fresh objects (bitwise), receiver snapshots; first of all, on every seed, the directed histories of the findings this property "
        "has had (propagate / modify / propagate, two orbits on one propagator, listeners re-used over explicit dates)")
U = 125_000            # grid of the generated dates, in microseconds (0.125 s: exact in the float seconds of Date)
FLIP = 700_000_000     # the correspondence's test listener changes sign every FLIP microseconds (Drv/C08.lean: flipPeriod)
FLIP_OFFSET = 31_250   # ... at dates k*FLIP + FLIP_OFFSET, never on the 0.125 s grid of the generated dates (Drv/C08.lean: flipOffset)
CAP = 400              # at most this many items are consumed from one iterator (model fuel)

TLE = """ISS (ZARYA)
1 25544U 98067A   18124.50000000  .00001524  00000-0  30197-4 0  999{c1}
2 25544  51.6421 236.2139 0003381  47.8509  47.6767 15.5419822911173{c2}"""

# a second satellite (every element differs), same whole-second epoch
TLE2 = """OTHER
1 40000U 14001A   18124.50000000  .00000210  00000-0  15000-4 0  999{c1}
2 40000  97.4021 101.5523 0012345 210.4401 130.1277 14.8123456712345{c2}"""

KINDS = ["sgp4", "kepler", "j2", "none", "num", "cw", "ephem"]
ANALYTICAL = ["sgp4", "kepler", "j2", "none", "cw"]


# ---------------------------------------------------------------- real objects

def _tle_text(text=None):
    from beyond.io.tle import Tle
    l = (text or TLE).split("\n")
    l1 = l[1].replace("{c1}", "")
    l2 = l[2].replace("{c2}", "")
    return "\n".join([l[0], l1 + str(Tle._checksum(l1 + "0")), l2 + str(Tle._checksum(l2 + "0"))])


def epoch():
    from beyond.dates import Date
    return Date(2018, 5, 4, 12, 0, 0)


def td(us):
    from datetime import timedelta
    return timedelta(microseconds=int(us))


def us_of(date, e):
    return round((date - e).total_seconds() * 1e6)


# what the caller may pass as `dates=`: objects every iter() of which is a fresh cursor ...
AGAIN_FORMS = ["list", "tuple", "ndarray", "deque", "iterable-class", "sequence-class"]
# ... and single-use iterators (iter(x) is x): a second walk of the object finds nothing
ONCE_FORMS = ["genexpr", "iter", "reversed", "map", "filter", "chain", "ephem-dates"]
DATE_FORMS = AGAIN_FORMS + ONCE_FORMS


def make_dates(ds, form):
    """the list of Date objects `ds` as an iterable of the given form (ephem-dates: the `dates` property of an ephemeris
    tabulated at those dates - an Ephem sorts its points, so `ds` has to be sorted)"""
    ds = list(ds)
    if form == "list":
        return ds
    if form == "tuple":
        return tuple(ds)
    if form == "ndarray":
        import numpy as np
        arr = np.empty(len(ds), dtype=object)
        for i, d in enumerate(ds):
            arr[i] = d
        return arr
    if form == "deque":
        import collections
        return collections.deque(ds)
    if form == "iterable-class":
        class Schedule:
            def __iter__(self):
                return iter(list(ds))
        return Schedule()
    if form == "sequence-class":
        class Seq:
            def __len__(self):
                return len(ds)

            def __getitem__(self, i):
                return ds[i]
        return Seq()
    if form == "genexpr":
        return (d for d in ds)
    if form == "iter":
        return iter(ds)
    if form == "reversed":
        return reversed(ds[::-1])
    if form == "map":
        return map(lambda d: d, ds)
    if form == "filter":
        return filter(lambda d: True, ds)
    if form == "chain":
        import itertools
        return itertools.chain(ds[:len(ds) // 2], ds[len(ds) // 2:])
    if form == "ephem-dates":
        from beyond.orbits import Orbit, Ephem
        if ds != sorted(ds):
            raise ValueError("ephem-dates: the dates of an ephemeris are sorted")
        return Ephem([Orbit([7.0e6, 0.01, 0.9, 1.0, 2.0, 3.0], d, "keplerian", "EME2000", None) for d in ds]).dates
    raise ValueError(form)


class World:
    """the objects one case works on: orbits (sharing ONE propagator object), or one Ephem; two listeners"""

    def __init__(self, kind, h=60 * 8 * U, npts=12, elems=None, order=None, silent_listeners=False, method="rk4"):
        from beyond.orbits import Orbit
        from beyond.propagators.listeners import NodeListener, ApsideListener, Listener
        self.kind = kind
        self.h = h
        self.method = method
        self.steps = []          # numerical propagator: (date, real step) of every integration step taken, in microseconds
        self.e = epoch()
        el = list(elems or [7.0e6, 0.01, 0.9, 1.0, 2.0, 3.0])
        # the second orbit differs from the first in EVERY element (a stale quantity derived from any of them shows)
        el2 = [el[0] * 1.06, el[1] + 0.013, el[2] + 0.21, el[3] + 0.4, el[4] + 0.3, el[5] + 0.7]
        self.listeners = [NodeListener(), ApsideListener()]
        if silent_listeners:
            # test listeners for the correspondence: the watched quantity is a function of the DATE alone, it changes sign
            # every FLIP microseconds (so the model knows between which consecutive dates an event is found)
            from beyond.propagators.listeners import Event
            e0 = self.e
            flip = True

            class Flip(Listener):
                def info(self, orb):
                    return Event(self, "flip")

                def __call__(self, orb):
                    if not flip:
                        return 1.0
                    return 1.0 if ((round((orb.date - e0).total_seconds() * 1e6) - FLIP_OFFSET) // FLIP) % 2 == 0 else -1.0
            self.listeners = [Flip(), Flip()]
        self.eph = None
        if kind == "sgp4":
            from beyond.io.tle import Tle
            a = Tle(_tle_text()).orbit()
            if us_of(a.date, self.e) != 0:
                raise RuntimeError("TLE epoch is not the whole-second epoch the generator assumes")
            b = Tle(_tle_text(TLE2)).orbit()
            if us_of(b.date, self.e) != 0:
                raise RuntimeError("TLE2 epoch is not the whole-second epoch the generator assumes")
            b.propagator = a.propagator
            self.orbits = [a, b]
        elif kind in ("kepler", "j2", "none", "num"):
            from beyond.propagators.kepler import Kepler
            from beyond.propagators.j2 import J2
            from beyond.propagators.none import NonePropagator
            if kind == "num":
                from beyond.propagators.keplernum import KeplerNum
                from beyond.env.solarsystem import get_body
                p = KeplerNum(td(h), get_body("Earth"), method=method)
                inner, e0_, log = p._make_step, self.e, self.steps

                def logged(orb, step):
                    r = inner(orb, step)
                    log.append((us_of(orb.date, e0_), round(r[0].total_seconds() * 1e6)))
                    return r
                p._make_step = logged
            else:
                p = {"kepler": Kepler, "j2": J2, "none": NonePropagator}[kind]()
            form = "keplerian" if kind in ("num", "none") else "keplerian_mean"
            self.orbits = [Orbit(el, self.e, form, "EME2000", p), Orbit(el2, self.e, form, "EME2000", p)]
        elif kind == "cw":
            from beyond.propagators.cw import ClohessyWiltshire
            from beyond.frames.frames import HillFrame
            p = ClohessyWiltshire(7.0e6, frame=HillFrame(orientation="QSW"))
            self.orbits = [Orbit([100.0, -200.0, 30.0, 0.1, -0.2, 0.05], self.e, "cartesian", "Hill", p),
                           Orbit([-50.0, 20.0, 3.0, 0.0, 0.1, -0.05], self.e, "cartesian", "Hill", p)]
        elif kind == "ephem":
            from beyond.propagators.kepler import Kepler
            src = Orbit(el, self.e, "keplerian_mean", "EME2000", Kepler())
            self.eph = src.ephem(start=self.e, stop=self.e + td(h * (npts - 1)), step=td(h))
            if order is not None:
                self.eph.order = order
            self.orbits = [self.eph]
        else:
            raise ValueError(kind)
        self.prop = None if kind == "ephem" else self.orbits[0].propagator

    def date(self, us):
        return self.e + td(us)

    def modify(self, idx, meta=False):
        """the user changes elements of an orbit object in place (size and phase of the orbit); meta: the drag term B*
        (an attribute of the orbit next to its six coordinates; only Sgp4 uses it)"""
        o = self.orbits[idx]
        if meta == "ids":
            # attributes of the orbit that reach only the labels of the TLE text Sgp4 builds its record from (oracle only)
            if self.kind != "sgp4":
                raise ValueError("labels are modified for Sgp4 orbits only in this harness")
            o.name = (o.name or "") + "X"
            o.norad_id = (int(o.norad_id) + 1) % 100000
            o.revolutions = (int(o.revolutions) + 1) % 100000
            o.element_nb = (int(o.element_nb) + 1) % 1000
        elif meta == "reform":
            # the user changes the REPRESENTATION of the orbit in place (same physical state): to cartesian, or back to the form it was created in
            if self.kind not in ("num", "kepler", "j2", "none"):
                raise ValueError("the form is changed in place for EME2000 element orbits only in this harness")
            home = "keplerian" if self.kind in ("num", "none") else "keplerian_mean"
            o.form = home if o.form.name == "cartesian" else "cartesian"
        elif meta:
            if self.kind != "sgp4":
                raise ValueError("drag terms are modified for Sgp4 orbits only in this harness")
            o.bstar = o.bstar * 1.5 + 2e-5
        elif self.kind == "sgp4":        # TLE form: (i, Omega, e, omega, M, n)
            o[5] *= 1.0007
            o[4] += 0.25
        elif self.kind == "cw":
            o[0] += 10.0
            o[4] += 0.01
        elif self.kind == "ephem":
            raise ValueError("no in-place modification of an ephemeris in this harness")
        else:                            # keplerian / keplerian_mean: (a, e, i, Omega, omega, anomaly)
            o[0] *= 1.001
            o[5] += 0.25

    def kwargs(self, a):
        """a: dict with optional start/stop/stopdelta/step/dates (microseconds relative to the epoch) -> iter kwargs"""
        from beyond.dates import Date
        kw = {}
        if "start" in a:
            kw["start"] = None if a["start"] is None else self.date(a["start"])
        if "stop" in a:
            kw["stop"] = None if a["stop"] is None else self.date(a["stop"])
        if "stopdelta" in a:
            kw["stop"] = td(a["stopdelta"])
        if "step" in a:
            kw["step"] = None if a["step"] is None else td(a["step"])     # an object of the caller's own, whatever its value
            if a.get("stepobj") == "same":
                kw["step"] = self.prop.step                                # the propagator's own step object
        if "dates" in a:
            kw["dates"] = make_dates([self.date(x) for x in a["dates"]], a.get("dform", "list"))
        if "range" in a:
            s0, s1, st, incl = a["range"]
            kw["dates"] = Date.range(self.date(s0), self.date(s1), td(st), inclusive=bool(incl))
        if a.get("strict") is False:
            kw["strict"] = False
        if a.get("listeners"):
            kw["listeners"] = [self.listeners[i] for i in a["listeners"]]
        return kw

    def run_iter(self, idx, a, limit=CAP, events=False, via="iter"):
        """-> (list of yielded items, terminator) ; item = date in microseconds (events are skipped unless events=True);
        via: the public entry point - iter / ephemeris (generators) or ephem (the points of the Ephem it returns)"""
        items = []
        orbs = []
        self.n_events = 0
        try:
            if via == "ephem":
                it = iter(list(self.orbits[idx].ephem(**self.kwargs(a))))
            else:
                it = getattr(self.orbits[idx], via)(**self.kwargs(a))
            n = 0
            while True:
                if n >= limit:
                    if hasattr(it, "close"):
                        it.close()
                    return items, "fuel", orbs
                o = next(it)
                ev = getattr(o, "event", None)
                if ev is not None and not events:
                    self.n_events += 1
                    continue
                n += 1
                items.append(us_of(o.date, self.e))
                orbs.append(o)
        except StopIteration:
            return items, "done", orbs
        except Exception as ex:  # noqa: BLE001 — the error kind is the observation
            return items, err_kind(ex), orbs

    def snapshot(self):
        out = []
        objs = self.orbits if self.eph is None else list(self.eph._orbits)
        for o in objs:
            out.append((o.tobytes(), o.date._mjd, str(o.form), str(o.frame), len(getattr(o, "maneuvers", []) or []),
                        id(o._data.get("propagator")) if "propagator" in o._data else None))
        return out


def err_kind(ex):
    return {ValueError: "value-error", AttributeError: "attribute-error", TypeError: "type-error"}.get(type(ex), "error-" + type(ex).__name__)


# ---------------------------------------------------------------- the contract, as a reference list

def expected_dates(start, stop, step):
    """start + k*|step| towards stop, k = 0 .. floor(|stop-start| / |step|)"""
    s = abs(step)
    span = stop - start
    sg = 1 if span >= 0 else -1
    return [start + sg * k * s for k in range(abs(span) // s + 1)]


def order_of_source():
    """Ephem.DEFAULT_ORDER read from the source text (also written to Generated/IterConst.lean)"""
    src = open(os.path.join(core.REPO, "beyond", "orbits", "ephem.py")).read()
    for node in ast.walk(ast.parse(src)):
        if isinstance(node, ast.ClassDef) and node.name == "Ephem":
            for st in node.body:
                if isinstance(st, ast.Assign) and getattr(st.targets[0], "id", None) == "DEFAULT_ORDER":
                    return int(ast.literal_eval(st.value))
    raise RuntimeError("Ephem.DEFAULT_ORDER not found in beyond/orbits/ephem.py")


# ---------------------------------------------------------------- regeneration from the source

SETTERS = [("sgp4", "sgp4.py", "Sgp4"), ("kepler", "kepler.py", "Kepler"), ("j2", "j2.py", "J2"), ("none", "none.py", "NonePropagator"),
           ("num", "keplernum.py", "KeplerNum"), ("cw", "cw.py", "ClohessyWiltshire")]


def setter_keeps_object(fn, cls):
    """True when `propagator.orbit = orb` stores the very object (no setter at all, or `self._orbit = <parameter>`),
    False when the setter stores `<parameter>.copy(...)`; anything else is an error (the model has no such case)"""
    src = open(os.path.join(core.REPO, "beyond", "propagators", fn)).read()
    for node in ast.walk(ast.parse(src)):
        if isinstance(node, ast.ClassDef) and node.name == cls:
            for st in node.body:
                if isinstance(st, ast.FunctionDef) and st.name == "orbit" and any(
                        isinstance(d, ast.Attribute) and d.attr == "setter" for d in st.decorator_list):
                    param = st.args.args[1].arg
                    for x in ast.walk(st):
                        if isinstance(x, ast.Assign) and isinstance(x.targets[0], ast.Attribute) and x.targets[0].attr == "_orbit":
                            v = x.value
                            if isinstance(v, ast.Name) and v.id == param:
                                return True
                            if (isinstance(v, ast.Call) and isinstance(v.func, ast.Attribute) and v.func.attr == "copy"
                                    and isinstance(v.func.value, ast.Name) and v.func.value.id == param):
                                return False
                            raise RuntimeError(f"{cls}.orbit setter stores something the model does not know: {ast.dump(v)[:80]}")
                    raise RuntimeError(f"{cls}.orbit setter does not assign self._orbit")
            return True
    raise RuntimeError(f"class {cls} not found in {fn}")


def step_test_is_identity():
    """how `KeplerNum._iter` recognises that the caller asked for no sampling of its own: the statement
    `if step <op> self.step: step = None` - True for `is`, False for `==`; anything else is an error"""
    src = open(os.path.join(core.REPO, "beyond", "propagators", "keplernum.py")).read()
    found = []
    for node in ast.walk(ast.parse(src)):
        if isinstance(node, ast.FunctionDef) and node.name == "_iter":
            for st in ast.walk(node):
                if (isinstance(st, ast.If) and isinstance(st.test, ast.Compare) and len(st.test.ops) == 1
                        and isinstance(st.test.left, ast.Name) and st.test.left.id == "step"
                        and isinstance(st.test.comparators[0], ast.Attribute) and st.test.comparators[0].attr == "step"
                        and isinstance(st.test.comparators[0].value, ast.Name) and st.test.comparators[0].value.id == "self"
                        and len(st.body) == 1 and isinstance(st.body[0], ast.Assign) and getattr(st.body[0].targets[0], "id", None) == "step"
                        and isinstance(st.body[0].value, ast.Constant) and st.body[0].value.value is None and not st.orelse):
                    found.append(type(st.test.ops[0]))
    if found == [ast.Is]:
        return True
    if found == [ast.Eq]:
        return False
    raise RuntimeError(f"KeplerNum._iter: the test `if step is self.step: step = None` was not found in the shape the model knows ({found})")


def num_points_own_propagator():
    """KeplerNum._iter ends in `for orb in ...: yield orb.as_orbit(self.copy())`: True when the `self.copy()` call is evaluated
    INSIDE the loop (every yielded point gets a propagator of its own), False when the points are given one object made outside"""
    src = open(os.path.join(core.REPO, "beyond", "propagators", "keplernum.py")).read()
    for node in ast.walk(ast.parse(src)):
        if isinstance(node, ast.FunctionDef) and node.name == "_iter":
            loops = [st for st in node.body if isinstance(st, ast.For)]
            if not loops:
                break
            last = loops[-1]
            ys = [y for y in ast.walk(last) if isinstance(y, ast.Yield)]
            if len(ys) != 1 or not (isinstance(ys[0].value, ast.Call) and getattr(ys[0].value.func, "attr", None) == "as_orbit"):
                break
            arg = ys[0].value.args[0] if ys[0].value.args else None
            if (isinstance(arg, ast.Call) and isinstance(arg.func, ast.Attribute) and arg.func.attr == "copy"
                    and isinstance(arg.func.value, ast.Name) and arg.func.value.id == "self"):
                return True
            if isinstance(arg, ast.Name):
                return False
            break
    raise RuntimeError("KeplerNum._iter: the final loop `yield orb.as_orbit(self.copy())` was not found in the shape the model knows")


def cw_points_own_propagator():
    """ClohessyWiltshire._propagate gives the state it returns a propagator of its own: `new.propagator = self.copy()`"""
    src = open(os.path.join(core.REPO, "beyond", "propagators", "cw.py")).read()
    for node in ast.walk(ast.parse(src)):
        if isinstance(node, ast.FunctionDef) and node.name == "_propagate":
            ret = [st for st in node.body if isinstance(st, ast.Return)]
            name = ret[-1].value.id if ret and isinstance(ret[-1].value, ast.Name) else None
            for st in node.body:
                if (isinstance(st, ast.Assign) and isinstance(st.targets[0], ast.Attribute) and st.targets[0].attr == "propagator"
                        and isinstance(st.targets[0].value, ast.Name) and st.targets[0].value.id == name
                        and isinstance(st.value, ast.Call) and isinstance(st.value.func, ast.Attribute) and st.value.func.attr == "copy"
                        and isinstance(st.value.func.value, ast.Name) and st.value.func.value.id == "self"):
                    return True
            return False
    raise RuntimeError("ClohessyWiltshire._propagate not found in beyond/propagators/cw.py")


def date_range_iter_is_fresh_generator():
    """DateRange.__iter__ is a generator function (contains `yield`) and DateRange defines no __next__: each iter(range) is an
    independent cursor"""
    src = open(os.path.join(core.REPO, "beyond", "dates", "date.py")).read()
    for node in ast.walk(ast.parse(src)):
        if isinstance(node, ast.ClassDef) and node.name == "DateRange":
            meths = {st.name: st for st in node.body if isinstance(st, ast.FunctionDef)}
            if "__iter__" not in meths:
                raise RuntimeError("DateRange.__iter__ not found")
            gen = any(isinstance(x, (ast.Yield, ast.YieldFrom)) for x in ast.walk(meths["__iter__"]))
            return gen and "__next__" not in meths
    raise RuntimeError("class DateRange not found in beyond/dates/date.py")


WALK_SITES = [("analytical", ("propagators", "base.py"), "AnalyticalPropagator", "_iter"), ("ephem", ("orbits", "ephem.py"), "Ephem", "iter"),
              ("num", ("propagators", "keplernum.py"), "KeplerNum", "_iter")]
WALKERS = {"list", "tuple", "sorted", "min", "max", "set", "frozenset", "sum", "any", "all", "enumerate", "zip", "iter", "next", "reversed",
           "map", "filter", "deque", "array", "asarray", "chain"}


def dates_walks(path, cls, fn):
    """how many times the function walks the object the CALLER passed as `dates`: every `for ... in dates` (statement or
    comprehension), every call of a consuming builtin on it (`list(dates)`, `min(dates)` ...) and every hand-over of the object to
    another call (`x.iter(dates=dates)`: the callee walks it), counted up to the statement `dates = list(dates)` / `tuple(...)` /
    `sorted(...)` after which the name is a list of the function's own. Tests (`is None`, `not dates`, `hasattr`) and attribute
    reads do not walk. Any other use is an error (the model has no such case)."""
    src = open(os.path.join(core.REPO, "beyond", *path)).read()
    for node in ast.walk(ast.parse(src)):
        if isinstance(node, ast.ClassDef) and node.name == cls:
            for f in node.body:
                if isinstance(f, ast.FunctionDef) and f.name == fn:
                    parent = {}
                    for x in ast.walk(f):
                        for c in ast.iter_child_nodes(x):
                            parent[c] = x
                    uses, own_from = [], None
                    for x in ast.walk(f):
                        if not (isinstance(x, ast.Name) and x.id == "dates" and isinstance(x.ctx, ast.Load)):
                            continue
                        p = parent[x]
                        if isinstance(p, (ast.For, ast.comprehension)) and p.iter is x:
                            uses.append((x.lineno, "walk"))
                        elif isinstance(p, ast.Call) and x in p.args and isinstance(p.func, (ast.Name, ast.Attribute)) and \
                                (p.func.id if isinstance(p.func, ast.Name) else p.func.attr) in WALKERS:
                            uses.append((x.lineno, "walk"))
                            g = parent.get(p)
                            if (isinstance(g, ast.Assign) and len(g.targets) == 1 and getattr(g.targets[0], "id", None) == "dates"
                                    and isinstance(p.func, ast.Name) and p.func.id in ("list", "tuple", "sorted")):
                                own_from = x.lineno if own_from is None else min(own_from, x.lineno)
                        elif isinstance(p, ast.Call) and isinstance(p.func, ast.Name) and p.func.id in ("hasattr", "isinstance", "getattr"):
                            pass
                        elif isinstance(p, (ast.Compare, ast.Attribute)) or (isinstance(p, ast.UnaryOp) and isinstance(p.op, ast.Not)):
                            pass
                        elif isinstance(p, ast.keyword) or (isinstance(p, ast.Call) and x in p.args):
                            uses.append((x.lineno, "handed-over"))
                        elif isinstance(p, (ast.If, ast.While, ast.BoolOp, ast.IfExp)):
                            pass                                   # truth test
                        else:
                            raise RuntimeError(f"{cls}.{fn}: a use of `dates` the model does not know (line {x.lineno}: {type(p).__name__})")
                    return sum(1 for ln, _ in uses if own_from is None or ln <= own_from)
    raise RuntimeError(f"{cls}.{fn} not found in beyond/{'/'.join(path)}")


def ephem_iter_shares_cursor():
    """Ephem.__iter__ returns the ephemeris itself (`return self`, the position kept in an attribute of the object: True) or
    a cursor of the consumer's own (a generator function, or `return iter(...)`: False); anything else is an error"""
    src = open(os.path.join(core.REPO, "beyond", "orbits", "ephem.py")).read()
    for node in ast.walk(ast.parse(src)):
        if isinstance(node, ast.ClassDef) and node.name == "Ephem":
            meths = {st.name: st for st in node.body if isinstance(st, ast.FunctionDef)}
            it = meths.get("__iter__")
            if it is None:
                raise RuntimeError("Ephem.__iter__ not found")
            if any(isinstance(x, (ast.Yield, ast.YieldFrom)) for x in ast.walk(it)):
                return False
            rets = [x.value for x in ast.walk(it) if isinstance(x, ast.Return)]
            if len(rets) == 1 and isinstance(rets[0], ast.Name) and rets[0].id == "self" and "__next__" in meths:
                return True
            if len(rets) == 1 and isinstance(rets[0], ast.Call) and getattr(rets[0].func, "id", None) == "iter":
                return False
            raise RuntimeError("Ephem.__iter__ has a shape the model does not know")
    raise RuntimeError("class Ephem not found in beyond/orbits/ephem.py")


def extract(ctx):
    order = order_of_source()
    walks = [(site, dates_walks(path, cls, fn)) for site, path, cls, fn in WALK_SITES]
    ident = step_test_is_identity()
    own = num_points_own_propagator()
    fresh = date_range_iter_is_fresh_generator()
    cw_own = cw_points_own_propagator()
    rows = [(k, setter_keeps_object(fn, cls)) for k, fn, cls in SETTERS] + [("ephem", False)]
    txt = ("/- GENERATED by harness/props/C08.py from beyond/orbits/ephem.py and beyond/propagators/*.py on every run -/\n"
           "namespace BeyondVerif.Generated\n"
           f"/-- `Ephem.DEFAULT_ORDER` -/\ndef ephemDefaultOrder : Nat := {order}\n"
           "/-- does the `orbit` setter of the propagator keep the very object it is given (true) or a converted copy (false) -/\n"
           "def orbitSetterKeepsObject : List (String × Bool) := [" + ", ".join(f'("{k}", {"true" if v else "false"})' for k, v in rows) + "]\n"
           "/-- `KeplerNum._iter`: `if step is self.step: step = None` tests identity (true) rather than equality of values (false) -/\n"
           f"def numStepTestIsIdentity : Bool := {'true' if ident else 'false'}\n"
           "/-- `KeplerNum._iter`: `yield orb.as_orbit(self.copy())` - the copy is made inside the loop, one per yielded point -/\n"
           f"def numPointsOwnPropagator : Bool := {'true' if own else 'false'}\n"
           "/-- `ClohessyWiltshire._propagate`: `new.propagator = self.copy()` - every returned state gets a propagator of its own -/\n"
           f"def cwPointsOwnPropagator : Bool := {'true' if cw_own else 'false'}\n"
           "/-- `DateRange.__iter__` is a generator function and the class has no `__next__` -/\n"
           f"def dateRangeIterIsFreshGenerator : Bool := {'true' if fresh else 'false'}\n"
           "/-- `Ephem.__iter__` returns the ephemeris itself: one cursor (`self._i`) on the object for all its consumers -/\n"
           f"def ephemIterSharesCursor : Bool := {'true' if ephem_iter_shares_cursor() else 'false'}\n"
           "/-- how many times the iteration site walks the object the caller passed as `dates=` (a single-use iterator survives one) -/\n"
           "def datesWalks : List (String × Nat) := [" + ", ".join(f'("{k}", {v})' for k, v in walks) + "]\n"
           "end BeyondVerif.Generated\n")
    ch = core.write_if_changed(os.path.join(core.LEAN, "BeyondVerif", "Generated", "IterConst.lean"), txt)
    return ["Generated/IterConst.lean"] if ch else []


# ---------------------------------------------------------------- correspondence (model vs code)

def enc_args(a):
    def oo(k):
        if k not in a:
            return "-"
        return "N" if a[k] is None else str(a[k])
    if a.get("stop") is not None:
        stop = f"a:{a['stop']}"
    elif "stopdelta" in a:
        stop = f"d:{a['stopdelta']}"
    else:
        stop = "-"
    if "dates" in a:
        dates = ("G:" if a.get("dform", "list") in ONCE_FORMS else "L:") + ",".join(str(x) for x in a["dates"])
    elif "range" in a:
        dates = "R:" + ",".join(str(int(x)) for x in a["range"])
    else:
        dates = "-"
    step = "S" if a.get("stepobj") == "same" else oo("step")
    return f"start={oo('start')};stop={stop};step={step};dates={dates};strict={0 if a.get('strict') is False else 1}"


def gen_form(rng, a, p=0.6):
    """what kind of object carries the explicit dates of `a` (an ephemeris has its dates sorted)"""
    if rng.random() < p:
        a["dform"] = rng.choice(DATE_FORMS if rng.random() < 0.3 else ONCE_FORMS)
        if a["dform"] == "ephem-dates":
            a["dates"] = sorted(a["dates"])
    return a


def gen_args(rng, kind, h, npts):
    """keyword combinations of iter, valid and invalid"""
    a = {}
    r = rng.random()
    total = h * (npts - 1)
    if r < 0.12:
        n = rng.choice([0, 1, 2, 4])
        lo, hi = (0, total // U) if kind == "ephem" and rng.random() < 0.8 else (-total // U, 2 * total // U)
        a["dates"] = [rng.randrange(lo, hi + 1) * U for _ in range(n)]
        gen_form(rng, a)
        return a
    if r < 0.22:
        s0 = rng.randrange(-3 * h // U, 6 * h // U) * U if kind != "ephem" else rng.randrange(0, total // U + 1) * U
        st = rng.choice([h, h // 2, 3 * h // 4, 2 * h]) * rng.choice([1, 1, -1])
        st -= st % U
        k = rng.choice([0, 0, 1, 3, 7, 8, 12])
        s1 = s0 + k * st + (rng.choice([0, 0, U, 3 * U]) if st > 0 else -rng.choice([0, 0, U, 3 * U]))
        if kind == "ephem" and not (0 <= s1 <= total) and rng.random() < 0.8:
            s1 = min(max(s1, 0), total)
            if (s1 - s0 >= 0) != (st >= 0):
                st = -st
        if (s1 - s0 >= 0) != (st >= 0):
            st = -st                     # a DateRange the caller can construct (signs coherent)
        a["range"] = [s0, s1, st, rng.random() < 0.5]
        return a
    start, stop, step = gen_range(rng, kind, h, npts)
    q = rng.random()
    if q < 0.1:
        step = -step
    elif q < 0.14:
        step = 0
    sa = rng.random()
    if kind == "ephem":
        if sa < 0.8:
            a["start"] = start
        elif sa < 0.9:
            a["start"] = None
        if rng.random() < 0.15:
            a["start"] = start - rng.randrange(1, 4 * h // U) * U
            a["strict"] = rng.random() < 0.5
    else:
        if sa < 0.6 or start != 0:
            a["start"] = start
        elif sa < 0.75:
            a["start"] = None
    base = a.get("start") or 0
    so = rng.random()
    if so < 0.55:
        a["stop"] = stop
    elif so < 0.9:
        a["stopdelta"] = stop - start
    elif so < 0.95:
        a["stop"] = None
    if kind == "ephem" and rng.random() < 0.15 and "stop" in a and a["stop"] is not None:
        a["stop"] = total + rng.randrange(1, 4 * h // U) * U
        a["strict"] = rng.random() < 0.5
    if kind == "ephem" and rng.random() < 0.12:
        # backward range reaching out of the tabulated span on either side (Ephem._iter_backward: strict / clamped)
        a.pop("stopdelta", None)
        a["start"] = rng.choice([total + rng.randrange(1, 4 * h // U) * U, rng.randrange(0, total // U + 1) * U, -rng.randrange(1, 4 * h // U) * U])
        a["stop"] = rng.choice([a["start"] - rng.randrange(1, 2 * total // U + 2) * U, -rng.randrange(1, 4 * h // U) * U])
        a["strict"] = rng.random() < 0.5
    st = rng.random()
    if st < (0.7 if kind in ("num", "ephem") else 0.92):
        a["step"] = step
    elif st < 0.8:
        a["step"] = None
    if step == 0 and kind in ("num", "ephem") and "step" in a:
        pass      # never terminates in the code: both sides stop after CAP items
    return a


def main_steps(log, a, order):
    """lengths of the integration steps of the MAIN loop of KeplerNum._iter, out of the log of all the steps it took: the first
    ones position the state at `start` (from the epoch until start is passed, then padded to `order` points), which the model
    does not describe (only the date `start` they end in)"""
    if "dates" in a:
        start = min(a["dates"]) if a["dates"] else 0
    elif "range" in a:
        start = a["range"][0]
    else:
        start = a.get("start") or 0
    i = 0
    if start != 0 and log:
        date, n = 0, 1
        while i < len(log) and ((date < start) if start > 0 else (date > start)):
            date += log[i][1]
            i += 1
            n += 1
        i += max(0, order - n)
    return [abs(x[1]) for x in log[i:]]


def real_iter_line(kind, h, npts, a, order):
    """-> (dates and end kind, lengths of the integration steps of the main loop)"""
    w = World(kind, h=h, npts=npts, method=a.get("_method", "rk4"))
    got, fin, _ = w.run_iter(0, a, limit=CAP)
    return ",".join(str(x) for x in got) + " " + fin, main_steps(w.steps, a, order)


def enc_call(c):
    if c["op"] == "modify":
        return f"{'B' if c.get('meta') else 'M'}/{c['orb']}"
    if c["op"] == "propagate":
        return f"P/{c['orb']}/{c['date']}"
    ls = c["args"].get("listeners") or []
    return f"I/{c['orb']}/{c['consume']}/" + (".".join(str(x) for x in ls) if ls else "-") + "/" + enc_args(c["args"])


def real_trace(kind, h, npts, calls):
    import numpy as np
    w = World(kind, h=h, npts=npts, silent_listeners=True)
    seen = []           # every object the propagator was bound to (kept alive: identities stay unique)
    outs = []

    def observe():
        if w.prop is None:
            return "N", 0
        o = w.prop.orbit
        if o is None:
            return "N", 0
        if not seen or seen[-1] is not o:
            seen.append(o)
        for i, x in enumerate(w.orbits):
            if o is x:
                return str(i), len(seen)
        for i, vs in enumerate(vers):       # a converted copy of some value the orbit object has had
            for x in vs:
                if np.array_equal(np.array(o), np.array(x.copy(form=o.form, frame=o.frame))):
                    return str(i), len(seen)
        return "?", len(seen)

    # every value each orbit object has had (frozen copies with a propagator of their own), to tell whose trajectory a
    # returned state lies on: token v<orbit>.<number of in-place modifications seen>
    vers = [[o.copy()] for o in w.orbits] if kind != "ephem" else []
    memo = {}

    def whose(state):
        """every (orbit object, version) whose trajectory the state lies on (several when they coincide at that date)"""
        if kind == "ephem" or state is None:
            return "-"
        d = us_of(state.date, w.e)
        sc = np.array(state.copy(form="cartesian")) if kind != "cw" else np.array(state)
        hits = []
        for j, vs in enumerate(vers):
            for k, v in enumerate(vs):
                if (j, k, d) not in memo:
                    r0 = v.propagate(w.date(d))
                    memo[(j, k, d)] = np.array(r0.copy(form="cartesian")) if kind != "cw" else np.array(r0)
                ref = memo[(j, k, d)]
                if kind == "num":
                    same = float(np.max(np.abs(sc[:3] - ref[:3]))) <= 1.0 and float(np.max(np.abs(sc[3:] - ref[3:]))) <= 1e-3
                else:
                    same = np.array_equal(sc, ref)
                if same:
                    hits.append(f"{j}.{k}")
        return "/".join(hits) if hits else "?"

    for c in calls:
        first = None
        w.n_events = 0
        if c["op"] == "modify":
            w.modify(c["orb"], meta=c.get("meta", False))
            vers[c["orb"]].append(w.orbits[c["orb"]].copy())
            run = " done"
        elif c["op"] == "propagate":
            try:
                r = w.orbits[c["orb"]].propagate(w.date(c["date"]))
                run = f"{us_of(r.date, w.e)} done"
                first = r
            except Exception as ex:  # noqa: BLE001
                run = " " + err_kind(ex)
        else:
            if c["consume"] == 0:
                try:
                    it = w.orbits[c["orb"]].iter(**w.kwargs(c["args"]))   # created, never started
                    run = " fuel"
                    del it
                except Exception as ex:  # noqa: BLE001
                    run = " " + err_kind(ex)
            else:
                got, fin, orbs = w.run_iter(c["orb"], c["args"], limit=c["consume"])
                run = ",".join(str(x) for x in got) + " " + fin
                first = orbs[0] if orbs else None
        b, r = observe()
        prev = ",".join("N" if L.prev is None else str(us_of(L.prev.date, w.e)) for L in w.listeners)
        outs.append(f"{run} b{b} r{r} v{whose(first)} e{w.n_events} p{prev}")
    return " | ".join(outs)


# ---- interleaved generators

POINT_KINDS = ["kepler", "j2", "none", "num", "cw"]     # propagators whose yielded points carry a propagator (can be iterated themselves)


def inter_objects(kind, scenario, h):
    """the orbit objects an interleaved scenario works on -> (objects, epochs in microseconds, index of the propagator OBJECT each holds)
    'world': A, B (two different orbits made to share ONE propagator object) and C (the value of B, a propagator of its own);
    'siblings': points yielded by one iteration of A (whether they share a propagator object is what the library decides)"""
    w1 = World(kind, h=h)
    if scenario == "world":
        w2 = World(kind, h=h)
        objs = [w1.orbits[0], w1.orbits[1], w2.orbits[1]]
    else:
        pts = w1.run_iter(0, {"stopdelta": 6 * h, "step": h})[2]
        objs = [pts[1], pts[4], pts[2]]
    ids = []
    for o in objs:
        i = id(o.propagator)
        if i not in ids:
            ids.append(i)
    return w1, objs, [us_of(o.date, w1.e) for o in objs], [ids.index(id(o.propagator)) for o in objs]


def gen_inter_ops(rng, kind, h, n_obj):
    ops, n_it = [], 0
    for _ in range(rng.randint(2, 8)):
        r = rng.random()
        if n_it == 0 or r < 0.35:
            if rng.random() < 0.75:
                a = {"stopdelta": rng.choice([1, 1, -1]) * rng.choice([2 * h, 3 * h + U, 5 * h]), "step": rng.choice([h, h // 2 + U, 2 * h])}
            else:
                a = gen_form(rng, {"dates": [rng.randrange(-4 * h // U, 4 * h // U) * U for _ in range(rng.choice([1, 2, 4]))]})
            ops.append({"op": "create", "orb": rng.randrange(n_obj), "args": a})
            n_it += 1
        elif r < 0.85:
            ops.append({"op": "advance", "it": rng.randrange(n_it), "k": rng.choice([1, 1, 2, 3, CAP])})
        else:
            ops.append({"op": "propagate", "orb": rng.randrange(n_obj), "date": rng.randrange(-4 * h // U, 4 * h // U) * U})
    return ops


def enc_iop(c):
    if c["op"] == "create":
        return f"C/{c['orb']}/{enc_args(c['args'])}"
    if c["op"] == "advance":
        return f"A/{c['it']}/{c['k']}"
    return f"P/{c['orb']}/{c['date']}"


def real_inter(kind, scenario, h, ops):
    """-> (trace, epochs, propOf) of the scenario on real objects; per operation `dates candidates end`, candidates = the objects
    whose trajectory the first returned state lies on (`*` for sibling points: they lie on one trajectory, the dates tell them apart)"""
    import numpy as np
    w, objs, epochs, prop_of = inter_objects(kind, scenario, h)
    fresh = [o.copy() for o in objs]        # copies own their propagators
    memo = {}

    def cands(state):
        if scenario != "world":
            return "*"
        d = us_of(state.date, w.e)
        sc = np.array(state.copy(form="cartesian")) if kind != "cw" else np.array(state)
        hits = []
        for j, f in enumerate(fresh):
            if (j, d) not in memo:
                r0 = f.propagate(w.date(d))
                memo[(j, d)] = np.array(r0.copy(form="cartesian")) if kind != "cw" else np.array(r0)
            ref = memo[(j, d)]
            if (float(np.max(np.abs(sc[:3] - ref[:3]))) <= 1.0 and float(np.max(np.abs(sc[3:] - ref[3:]))) <= 1e-3) if kind == "num" else np.array_equal(sc, ref):
                hits.append(str(j))
        return "/".join(hits) if hits else "?"
    gens, outs = [], []
    for c in ops:
        if c["op"] == "create":
            try:
                kw = {k: v for k, v in w.kwargs(c["args"]).items()}
                gens.append(objs[c["orb"]].iter(**kw))
                outs.append(" - fuel")
            except Exception as ex:  # noqa: BLE001
                gens.append(None)
                outs.append(" - " + err_kind(ex))
        elif c["op"] == "propagate":
            r = objs[c["orb"]].propagate(w.date(c["date"]))
            outs.append(f"{us_of(r.date, w.e)} {cands(r)} done")
        else:
            g, got, fin = gens[c["it"]], [], "fuel"
            try:
                for _ in range(c["k"]):
                    got.append(next(g))
            except StopIteration:
                fin = "done"
            except Exception as ex:  # noqa: BLE001
                fin = err_kind(ex)
            outs.append(",".join(str(us_of(o.date, w.e)) for o in got) + " " + (cands(got[0]) if got else "-") + " " + fin)
    return " | ".join(outs), epochs, prop_of


def same_inter(real, model):
    rc, mc = real.split(" | "), model.split(" | ")
    if len(rc) != len(mc):
        return False
    for r, m in zip(rc, mc):
        rt, mt = r.split(" "), m.split(" ")
        if len(rt) != 3 or len(mt) != 3 or rt[0] != mt[0] or rt[2] != mt[2]:
            return False
        if not (rt[1] == mt[1] or rt[1] == "*" or mt[1] in rt[1].split("/")):
            return False
    return True


def same_trace(real, model):
    """exact equality of the two traces, except that the implementation side names EVERY orbit version whose trajectory the
    first returned state lies on (token v<obj>.<n>/<obj>.<n>/...) and the model names one: it has to be among them"""
    if real == model:
        return True
    rc, mc = real.split(" | "), model.split(" | ")
    if len(rc) != len(mc):
        return False
    for r, m in zip(rc, mc):
        rt, mt = r.split(" "), m.split(" ")
        if len(rt) != len(mt):
            return False
        for a, b in zip(rt, mt):
            if a == b:
                continue
            if a.startswith("v") and b.startswith("v") and "/" in a and b[1:] in a[1:].split("/"):
                continue
            return False
    return True


def correspondence(ctx):
    out = Outcome()
    rng = ctx.rng
    order = order_of_source()
    cases = []
    for kind in KINDS:
        # the histories of the findings this property has had, on every seed
        for calls in directed_histories(kind, 60 * 8 * U, 12):
            cases.append(("hist", kind, 60 * 8 * U, 12, calls, f"c08hist {kind} {CAP} {order} {60 * 8 * U} 12 2 " + " ".join(enc_call(c) for c in calls), None))
        for _ in range(ctx.n(250, 6000)):
            h = rng.choice([60, 60, 30, 10]) * 8 * U
            npts = rng.choice([1, 3, 7, 8, 9, 12, 20]) if kind == "ephem" else 12
            a = gen_args(rng, kind, h, npts)
            rs = "-"
            real = None
            if kind == "num":
                # every integration method (the adaptive ones shorten their steps on the fly: the lengths of the steps the real
                # propagator took are given to the model), the default step in its three forms, an explicit step of the same value
                a["_method"] = rng.choice(["rk4", "euler", "rkf54", "rkf54", "dopri54", "dopri54"])
                if "dates" not in a and "range" not in a:
                    q = rng.random()
                    if q < 0.15:
                        a["step"], a["stepobj"] = h, "same"
                    elif q < 0.35:
                        a["step"] = h
                    elif q < 0.45:
                        a["step"] = rng.choice([2 * h, h // 2, 3 * h // 2 + U])
                real, steps = real_iter_line(kind, h, npts, a, order)
                rs = ",".join(str(x) for x in steps) if steps else "-"
            cases.append(("iter", kind, h, npts, a, f"c08iter {kind} {CAP} {order} {h} {npts} {enc_args(a)} {rs}", real))
        for _ in range(ctx.n(60, 2500)):
            h = 60 * 8 * U
            npts = rng.choice([9, 12])
            n_orb = 1 if kind == "ephem" else 2
            calls = []
            for _ in range(rng.randint(1, 8)):
                if rng.random() < 0.25:
                    c = {"op": "iter", "orb": rng.randrange(n_orb), "args": gen_args(rng, kind, h, npts), "consume": rng.choice([CAP, 0, 2])}
                    c["args"]["listeners"] = rng.choice([[], [0], [1], [0, 1]])
                else:
                    c = gen_call(rng, kind, h, npts, n_orb)
                calls.append(c)
            cases.append(("hist", kind, h, npts, calls, f"c08hist {kind} {CAP} {order} {h} {npts} 2 " + " ".join(enc_call(c) for c in calls), None))
    # interleaved generators: created, advanced partly, other calls in between; on orbits sharing / not sharing a propagator object
    # and on sibling points of one iteration
    for kind in ["sgp4", "kepler", "j2", "none", "num", "cw"]:
        for _ in range(ctx.n(24, 600)):
            scenario = "siblings" if kind in POINT_KINDS and rng.random() < 0.5 else "world"
            h = 60 * 8 * U
            ops = gen_inter_ops(rng, kind, h, 3)
            real, epochs, prop_of = real_inter(kind, scenario, h, ops)
            line = (f"c08inter {kind} {CAP} {order} {h} " + ".".join(str(x) for x in prop_of) + " " + ".".join(str(x) for x in epochs)
                    + " " + " ".join(enc_iop(c) for c in ops))
            cases.append(("inter", kind, h, scenario, ops, line, real))
    model = core.Driver(ID).run([c[5] for c in cases])
    for (what, kind, h, npts, x, line, real), m in zip(cases, model):
        if what == "iter":
            if real is None:
                real = real_iter_line(kind, h, npts, x, order)[0]
            end = real.split(" ")[-1]
            out.count(key=line, nontrivial=real.count(",") >= 1, kind=f"iter-{kind}", end=end,
                      args="dates" if "dates" in x else ("range" if "range" in x else "start-stop-step"),
                      **({"method": x["_method"], "step": step_form(x, h)} if kind == "num" else {}))
            fam = f"model-iter-{kind}"
        elif what == "inter":
            out.count(key=line, nontrivial=sum(1 for c in x if c["op"] == "advance") > 1, kind=f"interleaved-{kind}", scenario=npts)
            fam = f"model-interleaved-{kind}"
        else:
            real = real_trace(kind, h, npts, x)
            out.count(key=line, nontrivial=len(x) > 1, kind=f"history-{kind}", calls=len(x))
            fam = f"model-history-{kind}"
        if not (real == m if what == "iter" else same_inter(real, m) if what == "inter" else same_trace(real, m)):
            out.fail(fam, "dates / error kind / binding trace differ between Model/Iter.lean and the code", {"line": line}, observed=real[:400], expected=m[:400])
        out.sample({"line": line[:200], "reply": m[:160]}, limit=4)
    return out


# ---------------------------------------------------------------- oracle

def step_form(a, h):
    """how the step of a numerical iteration is given: default (absent / None / the propagator's own step object), or an explicit
    object of the caller: equal in value to the propagator's step, or not"""
    if a.get("step") is None or a.get("stepobj") == "same":
        return "default-step"
    return "explicit-equal-step" if abs(a["step"]) == h else "explicit-step"


def internal_points(start, stop, h):
    """number of states KeplerNum._iter tabulates for a forward range: start, start+h, ... until >= stop"""
    return (max(0, stop - start) + h - 1) // h + 1


def classify(kind, a, h, order, npts, got, fin, exp):
    """family of a failing iteration, computed from the input (call site, direction, step given or not, span class)
    and from the observation (symptom)"""
    start, stop = a["_start"], a["_stop"]
    direction = "fwd" if stop >= start else "bwd"
    if fin not in ("done", "fuel"):
        sym = "raises-" + fin
    elif fin == "fuel":
        sym = "does-not-terminate"
    elif got[:len(exp)] == exp and len(got) > len(exp):
        extra = got[len(exp):]
        sym = "beyond-stop" if all((x > stop) if direction == "fwd" else (x < stop) for x in extra) else "extra-dates"
    elif exp[:len(got)] == got:
        sym = "yields-nothing" if not got else "stops-early"
    else:
        sym = "wrong-dates"
    if kind == "num" and a.get("_method", "rk4") in ("rkf54", "dopri54") and not sym.startswith("raises"):
        # adaptive step-size control: the integration points are not the requested dates. Dates within [start, stop] that are
        # not the requested ones are one symptom (more, fewer or other dates according to the span), dates beyond stop another
        inside = all((start <= x <= stop) if direction == "fwd" else (stop <= x <= start) for x in got)
        if fin == "done" and inside:
            sym = "wrong-dates"
        return f"num-iter-{direction}-adaptive-{step_form(a, h)}-{sym}"
    if kind == "num" and direction == "fwd" and sym.startswith("raises"):
        stepc = "step" if a.get("step") is not None else "nostep"
        spanc = "short" if internal_points(start, stop, h) < order else "long"
        return f"num-iter-fwd-{stepc}-{spanc}-{sym}"
    return f"{kind}-iter-{direction}-{sym}"


def gen_range(rng, kind, h, npts):
    """(start, stop, step) in microseconds relative to the epoch; step > 0 or sign-coherent"""
    step = rng.choice([1, 2, 3, 5, 8, 13, 30, 45, 60, 90, 7 * 8 + 4]) * 8 * U // rng.choice([1, 1, 1, 2, 8])
    step = max(U, step - step % U)
    nsteps = rng.choice([0, 1, 2, 3, 5, 6, 7, 8, 9, 12, 20])
    if kind == "num":
        start = rng.choice([0, 0, 0, 1, -1]) * rng.randrange(1, 5 * h // U) * U
        span = rng.choice([-1, 1, 1]) * rng.randrange(0, 14 * h // U) * U
        if rng.random() < 0.4:
            step = rng.choice([h, h // 2, h // 4, 3 * h // 2])
    elif kind == "ephem":
        total = h * (npts - 1)
        start = rng.randrange(0, total // U + 1) * U
        stop = rng.randrange(0, total // U + 1) * U
        if rng.random() < 0.7 and stop < start:
            start, stop = stop, start
        span = stop - start
    else:
        start = rng.choice([0, 0, 1, -1]) * rng.randrange(1, 4000 * 8) * U
        span = rng.choice([-1, 1]) * (nsteps * step + rng.choice([0, 0, U, step // 2 - step // 2 % U, step - U]))
    while abs(span) // step >= CAP - 50:
        step *= 2
    stop = start + span
    if rng.random() < 0.25 and span < 0:
        step = -step
    return start, stop, step


def check_iter(out, w, a, order, npts, states=True):
    kind = w.kind
    start = a.get("start", 0)
    start = 0 if start is None else start
    if kind == "ephem" and "start" not in a:
        start = 0
    stop = a["stop"] if "stop" in a else start + a["stopdelta"]
    step = a["step"] if a.get("step") is not None else w.h
    a = dict(a, _start=start, _stop=stop, _method=w.method)
    exp = expected_dates(start, stop, step)
    got, fin, orbs = w.run_iter(0, a)
    direction = "fwd" if stop >= start else "bwd"
    out.count(key=(kind, start, stop, step), nontrivial=len(exp) > 1, kind=kind, direction=direction,
              divides="divides" if (stop - start) % abs(step) == 0 else "off-grid", start="at-epoch" if start == 0 else ("after" if start > 0 else "before"))
    pub = {k: v for k, v in a.items() if not k.startswith("_")}
    inp = {"check": "iter", "kind": kind, "h": w.h, "npts": npts, "args": pub}
    if kind == "num":
        inp["method"] = w.method
    if kind == "ephem" and npts < order and a.get("step") is not None:
        # documented: Ephem.interpolate raises ValueError when the order of interpolation is insufficient
        if (got, fin) != ([], "value-error"):
            out.fail("ephem-iter-few-points-not-refused", "Ephem with fewer points than the interpolation order: resampling did not raise ValueError",
                     inp, observed={"dates": got[:40], "end": fin}, expected={"dates": [], "end": "value-error"})
        return
    if fin != "done" or got != exp:
        out.fail(classify(kind, a, w.h, order, npts, got, fin, exp),
                 f"{kind}: iter(start, stop, step) does not yield exactly start + k*step up to stop ({direction})",
                 inp, observed={"dates": got[:40], "end": fin}, expected={"dates": exp[:40], "end": "done"})
        return
    if states:
        # each yielded state equals a direct propagation to that date, from fresh objects
        import numpy as np
        f = World(kind, h=w.h, npts=npts, method=w.method)
        tol_p, tol_v = (1.0, 1e-3) if kind == "num" else (0.0, 0.0)   # num: two integration paths to the same date (convergence is C06's)
        for d, o in list(zip(got, orbs))[:: max(1, len(got) // 6)]:
            try:
                r = f.orbits[0].propagate(f.date(d))
            except Exception as ex:  # noqa: BLE001
                out.fail(f"{kind}-propagate-raises-{err_kind(ex)}", "direct propagation to a yielded date raises", dict(inp, date=d), observed=repr(ex)[:200])
                return
            oc = np.array(o.copy(form="cartesian")) if kind != "cw" else np.array(o)
            rc = np.array(r.copy(form="cartesian")) if kind != "cw" else np.array(r)
            dp = float(np.max(np.abs(oc[:3] - rc[:3])))
            dv = float(np.max(np.abs(oc[3:] - rc[3:])))
            if us_of(r.date, f.e) != d or not (dp <= tol_p and dv <= tol_v):
                out.fail(f"{kind}-iter-state-differs-from-propagate", "yielded state differs from direct propagation to the same date",
                         dict(inp, date=d), observed=[dp, dv], expected=[tol_p, tol_v])
                return


def gen_call(rng, kind, h, npts, n_orb, modify=True, ids=False):
    idx = rng.randrange(n_orb)
    ls = rng.choice([[], [], [0], [1], [0, 1]])
    r0 = rng.random()
    if modify and kind != "ephem" and r0 < 0.12:
        if kind == "sgp4" and rng.random() < 0.4:
            return {"op": "modify", "orb": idx, "meta": "ids" if ids and rng.random() < 0.3 else True}
        return {"op": "modify", "orb": idx}
    if r0 < 0.30:
        # explicit list of dates spread over an orbit (numerical propagator: a few integration steps around the epoch; also as a
        # DateRange object, forward and backward)
        hi = (npts - 1) * h // U if kind == "ephem" else (6 * h // U if kind == "num" else 90 * 60 * 8)
        lo = 0 if kind == "ephem" else -hi
        if kind == "num" and rng.random() < 0.5:
            s0 = rng.randrange(-4 * h // U, 4 * h // U) * U
            sg = rng.choice([1, 1, -1])
            a = {"range": [s0, s0 + sg * rng.choice([2, 7, 9, 12]) * h, sg * rng.choice([h, h // 2, 3 * h // 4]), rng.random() < 0.7], "listeners": ls}
        else:
            a = gen_form(rng, {"dates": [rng.randrange(lo, hi + 1) * U for _ in range(rng.choice([1, 2, 3, 5]))], "listeners": ls})
        return {"op": "iter", "orb": idx, "args": a, "consume": rng.choice([CAP, CAP, 2])}
    if rng.random() < 0.45:
        if kind == "ephem":
            d = rng.randrange(0, (npts - 1) * h // U + 1) * U
        elif kind == "num":
            d = rng.randrange(-6 * h // U, 6 * h // U) * U
        else:
            d = rng.randrange(-40000, 40000) * U
        return {"op": "propagate", "orb": idx, "date": d}
    start, stop, step = gen_range(rng, kind, h, npts)
    if kind == "num" and rng.random() < 0.6:
        start, span = 0, abs(stop - start) + 8 * h
        stop = start + span
        step = abs(step)
    a = {"stop": stop, "step": step, "listeners": ls}
    if kind == "ephem":
        a["start"] = start
    elif start != 0 or rng.random() < 0.5:
        a["start"] = start
    if kind == "num" and rng.random() < 0.3:
        del a["step"]
    return {"op": "iter", "orb": idx, "args": a, "consume": rng.choice([CAP, CAP, CAP, 0, 1, 3])}


def do_call(w, c):
    """-> canonical observable result of one call"""
    if c["op"] == "modify":
        w.modify(c["orb"], meta=c.get("meta", False))
        return ("modified",)
    if c["op"] == "propagate":
        try:
            r = w.orbits[c["orb"]].propagate(w.date(c["date"]))
            return ("ok", us_of(r.date, w.e), r.tobytes(), str(r.form), str(r.frame))
        except Exception as ex:  # noqa: BLE001
            return ("err", err_kind(ex))
    items, fin, orbs = w.run_iter(c["orb"], c["args"], limit=c["consume"], events=True)
    return ("iter", fin, tuple(items), tuple(o.tobytes() for o in orbs),
            tuple(str(getattr(o, "event", None).info) if getattr(o, "event", None) is not None else "" for o in orbs))


def check_history(out, kind, h, npts, calls):
    w = World(kind, h=h, npts=npts)
    snap = w.snapshot()
    inp = {"check": "history", "kind": kind, "h": h, "npts": npts, "calls": calls}
    res = None
    first_yield = {}     # orbit -> index of the first earlier call on it that returned at least one state
    for i, c in enumerate(calls):
        res = do_call(w, c)
        if c["op"] == "modify":
            snap = w.snapshot()
            continue
        if i < len(calls) - 1 and (res[0] == "ok" or (res[0] == "iter" and len(res[2]) > 0)):
            first_yield.setdefault(c["orb"], i)
        if w.snapshot() != snap:
            out.fail(f"{kind}-receiver-modified-by-{c['op']}", "a propagate/iter call modified the orbit (or the ephemeris points) it was called on",
                     dict(inp, at=i))
            return
    last = dict(calls[-1])
    if last["op"] == "modify":
        return
    # fresh objects holding the same orbit values: only the in-place modifications are replayed
    f = World(kind, h=h, npts=npts)
    for c in calls[:-1]:
        if c["op"] == "modify":
            f.modify(c["orb"], meta=c.get("meta", False))
    ref = do_call(f, last)
    out.count(key=(kind, repr(calls)), nontrivial=len(calls) > 1, kind="history-" + kind, calls=len(calls), last=last["op"])
    if res != ref:
        def main_dates(r):
            # the requested dates only: event states are dated by the trajectory, they count as 'state'
            return [d for d, e in zip(r[2], r[4]) if e == ""]
        what = "error kind" if res[0] == "err" or ref[0] == "err" or (res[0] == "iter" and res[1] != ref[1]) else (
            "dates" if (res[0] == "iter" and main_dates(res) != main_dates(ref)) or (res[0] == "ok" and res[1] != ref[1]) else (
                "events" if res[0] == "iter" and [e for e in res[4] if e] != [e for e in ref[4] if e] else "state"))
        # family: propagator kind, kind of the last call, what differs, and whether the receiver of the last call had been
        # modified in place by the user after a first call on it had returned a state (something derived from the orbit
        # that is not refreshed; the LAST such modification being a change of its coordinates / of its drag term: a later
        # change of the coordinates makes the current Sgp4 rebuild its record) or not (a shared object carrying state from
        # call to call)
        mods = [c for c in calls[first_yield.get(last["orb"], len(calls)) + 1:-1] if c["op"] == "modify" and c["orb"] == last["orb"]]
        changed = bool(mods) and not mods[-1].get("meta")
        label = bool(mods) and mods[-1].get("meta") == "ids"
        reformed = bool(mods) and mods[-1].get("meta") == "reform"
        drag = bool(mods) and bool(mods[-1].get("meta")) and not label and not reformed
        if (changed or drag or label) and what == "events":
            what = "state"          # another trajectory has other events: one family with the states themselves
        fam = (f"{kind}-history-dependent-{what}-after-inplace-change" if changed else
               f"{kind}-history-dependent-{what}-after-inplace-drag-term-change" if drag else
               f"{kind}-history-dependent-{what}-after-inplace-label-change" if label else
               f"{kind}-history-dependent-{what}-after-inplace-form-change" if reformed else
               f"{kind}-history-dependent-{last['op']}-{what}")
        out.fail(fam,
                 "the result of a call depends on earlier calls on the same objects",
                 inp, observed=_short(res), expected=_short(ref))


def _short(r):
    return [x if not isinstance(x, (bytes, tuple)) else (x.hex()[:32] if isinstance(x, bytes) else [y if not isinstance(y, bytes) else y.hex()[:16] for y in x[:12]]) for x in r]


def check_dates_list(out, w, dates, npts, order, form="list", via="iter"):
    """iter(dates=<object>) yields exactly the dates the object hands out, whatever kind of iterable it is (`form`), through
    every public entry point (`via`: Orbit / Ephem .iter, .ephemeris, .ephem - the last one returns an Ephem, whose points are
    sorted by date)"""
    a = {"dates": dates, "dform": form}
    got, fin, _ = w.run_iter(0, a, via=via)
    exp = sorted(dates) if via == "ephem" else list(dates)
    out.count(key=(w.kind, tuple(dates), form, via), nontrivial=len(dates) > 1, kind="dates-" + w.kind, n=min(len(dates), 5),
              form=form, via=via)
    inp = {"check": "dates", "kind": w.kind, "h": w.h, "npts": npts, "dates": dates, "form": form, "via": via}
    if w.kind == "ephem" and npts < order and dates:
        if (got, fin) != ([], "value-error"):
            out.fail("ephem-iter-few-points-not-refused", "Ephem with fewer points than the interpolation order: interpolation did not raise ValueError",
                     inp, observed={"dates": got[:40], "end": fin})
        return
    if fin != "done" or got != exp:
        sym = ("raises-" + fin) if fin not in ("done", "fuel") else ("extra-dates" if len(got) > len(exp) else (
            "yields-nothing" if exp and not got else ("stops-early" if exp[:len(got)] == got else "wrong-dates")))
        cls = "empty" if not dates else "nonempty"
        site = "analytical" if (w.kind in ANALYTICAL and not dates) else w.kind     # AnalyticalPropagator._iter is one call site
        if form == "list" and via == "iter":
            fam = "num-iter-dates-list-raises-attribute-error" if (w.kind == "num" and sym == "raises-attribute-error") else f"{site}-iter-dates-list-{cls}-{sym}"
        else:
            # the family names the site, the entry point and the CLASS of the object (walked again and again / single-use)
            fam = f"{site}-{via}-dates-{'single-use' if form in ONCE_FORMS else 'iterable'}-{cls}-{sym}"
        out.fail(fam, f"{w.kind}: {via}(dates=<{form}>) does not yield exactly the dates of the object",
                 inp, observed={"dates": got[:40], "end": fin}, expected={"dates": exp[:40], "end": "done"})


def directed_histories(kind, h, npts, ids=False, reform=False):
    """the histories of the findings this property has had (known_findings.d/C08.json), on every kind, run first on every seed"""
    P = lambda o, d: {"op": "propagate", "orb": o, "date": d}                                    # noqa: E731
    inside = (npts - 1) * h
    d1, d2 = 3 * h + U, (2 * h if kind == "ephem" else -2 * h)
    rng_args = {"start": 0, "stop": min(4 * h + U, inside), "step": h // 2 + U, "listeners": []}
    out = []
    if kind != "ephem":
        out.append([P(0, d1), {"op": "modify", "orb": 0}, P(0, d2)])
        out.append([P(0, d1), {"op": "modify", "orb": 0}, {"op": "iter", "orb": 0, "args": dict(rng_args), "consume": CAP}])
        out.append([{"op": "iter", "orb": 0, "args": dict(rng_args), "consume": 2}, {"op": "modify", "orb": 0}, P(0, d2)])
        out.append([P(0, d1), P(1, d2), P(0, d2)])
        out.append([P(0, d1), {"op": "iter", "orb": 1, "args": dict(rng_args), "consume": 1}, P(0, d1)])
    if reform and kind in ("num", "kepler", "j2", "none"):
        # the representation changed in place between two calls (oracle only): created in elements, turned cartesian, used, turned back, used
        R = {"op": "modify", "orb": 0, "meta": "reform"}
        out.append([dict(R), P(0, d1), dict(R), P(0, d2)])
        out.append([dict(R), P(0, d1), dict(R), {"op": "iter", "orb": 0, "args": dict(rng_args), "consume": CAP}])
        out.append([dict(R), {"op": "iter", "orb": 0, "args": dict(rng_args), "consume": 2}, dict(R), P(0, d1)])
        out.append([P(0, d1), dict(R), P(0, d2), dict(R), P(0, d1)])
    if kind == "sgp4":
        out.append([P(0, d1), {"op": "modify", "orb": 0, "meta": True}, P(0, 30 * d1)])
        out.append([P(0, d1), {"op": "modify", "orb": 0, "meta": True}, {"op": "iter", "orb": 0, "args": dict(rng_args, stop=40 * h), "consume": CAP}])
    if kind == "sgp4" and ids:
        # name / catalogue number / revolution and element counters reach the TLE text but not the trajectory (oracle only)
        out.append([P(0, d1), {"op": "modify", "orb": 0, "meta": "ids"}, P(0, 30 * d1)])
        out.append([P(0, d1), {"op": "modify", "orb": 0, "meta": True}, {"op": "modify", "orb": 0, "meta": "ids"}, P(0, 30 * d1)])
    # the same listener objects over two successive iterations on explicit dates, a quarter / half / three quarters of a LEO
    # revolution apart (the watched quantities have changed sign for at least one of them)
    for q in ((3, 6, 9) if kind == "ephem" else (24, 48, 72)):
        second = [min(q * h, inside), min(q * h + h, inside)] if kind == "ephem" else [q * h, q * h + h]
        out.append([{"op": "iter", "orb": 0, "args": {"dates": [0, h], "listeners": [0, 1]}, "consume": CAP},
                    {"op": "iter", "orb": 0, "args": {"dates": second, "listeners": [0, 1]}, "consume": CAP}])
        out.append([{"op": "iter", "orb": 0, "args": {"start": 0, "stop": 2 * h, "step": h, "listeners": [0, 1]}, "consume": 2},
                    {"op": "iter", "orb": 0, "args": {"dates": second, "listeners": [0, 1]}, "consume": CAP}])
    return out


def mutate(o):
    """what a consumer may do with a state it has been handed: convert it in place (the idiom of the documentation), overwrite
    its coordinates"""
    try:
        o.form = "cartesian" if str(o.form) == "spherical" else "spherical"
    except Exception:  # noqa: BLE001 — a conversion that is not possible for this object is not the point here
        pass
    o[:3] = 1.0
    o[3:] = -2.0


def canon(objs):
    return tuple((o.tobytes(), o.date._mjd, str(o.form), str(o.frame)) for o in objs)


def check_alias(out, kind, h, npts, branch, call, method="rk4"):
    """'the initial orbit / ephemeris object is never modified': the objects a call hands out do not alias what the receiver is
    made of. The call is made, every object it returned is modified in place, the receiver is looked at and the call made again."""
    w = World(kind, h=h, npts=npts, method=method)
    inp = {"check": "alias", "kind": kind, "h": h, "npts": npts, "branch": branch, "call": call, "method": method}

    def run():
        if call["op"] == "propagate":
            return [w.orbits[0].propagate(w.date(call["date"]))]
        if call["op"] == "interpolate":
            return [w.eph.interpolate(w.date(call["date"]))]
        if call["op"] == "getitem":
            return list(w.eph.iter())       # the documented way to get copies of the recorded points
        return w.run_iter(0, call["args"], events=True)[2]
    out.count(key=(kind, branch, method), nontrivial=True, kind="alias-" + kind, branch=branch)
    snap = w.snapshot()
    try:
        first = run()
        t1 = canon(first)
        for o in first:
            mutate(o)
        if w.snapshot() != snap:
            out.fail(f"{kind}-alias-{branch}-receiver-modified", "modifying in place the states a call returned modified the orbit / the points of the ephemeris it was called on",
                     inp, observed=[x[2:] for x in w.snapshot()][:6], expected=[x[2:] for x in snap][:6])
            return
        t2 = canon(run())
    except Exception as ex:  # noqa: BLE001
        out.fail(f"{kind}-alias-{branch}-raises-{err_kind(ex)}", "the call, made again after its first results were modified in place, raises", inp, observed=repr(ex)[:200])
        return
    if t1 != t2:
        out.fail(f"{kind}-alias-{branch}-second-result-differs", "the same call returns something else after its first results were modified in place",
                 inp, observed=[(x[1], x[2], x[3]) for x in t2][:6], expected=[(x[1], x[2], x[3]) for x in t1][:6])


def alias_calls(kind, h, npts):
    """(branch, call) for every way a state is handed out"""
    inside = (npts - 1) * h
    it = lambda **kw: {"op": "iter", "args": kw}                                                 # noqa: E731
    if kind == "ephem":
        return [("dates-on-nodes", it(dates=[0, 2 * h, 3 * h, inside])), ("dates-between-nodes", it(dates=[h // 2, 2 * h + U])),
                ("daterange-on-nodes", it(range=[h, 5 * h, h, True])), ("daterange-backward", it(range=[5 * h, h, -h, True])),
                ("step-forward-on-nodes", it(start=0, stop=4 * h, step=h)), ("step-forward", it(start=U, stop=4 * h, step=h // 2 + U)),
                ("step-backward-on-nodes", it(start=5 * h, stop=h, step=h)), ("step-backward", it(start=5 * h, stop=h + U, step=-(h // 2 + U))),
                ("own-forward", it(start=h, stop=5 * h)), ("own-backward", it(start=5 * h, stop=h)), ("own-all", it()),
                ("propagate-node", {"op": "propagate", "date": 3 * h}), ("propagate-between", {"op": "propagate", "date": 3 * h + U}),
                ("interpolate-node", {"op": "interpolate", "date": 2 * h}), ("iter-copies", {"op": "getitem"})]
    calls = [("step-forward", it(start=0, stop=4 * h, step=h)), ("step-backward", it(stop=-3 * h, step=h // 2 + U)),
             ("dates", it(dates=[0, 2 * h, -h, h // 2])), ("propagate-epoch", {"op": "propagate", "date": 0}),
             ("propagate", {"op": "propagate", "date": 3 * h + U})]
    if kind == "num":
        calls += [("default-step", it(stop=4 * h)), ("default-step-backward", it(stop=-4 * h)), ("daterange", it(range=[-h, 3 * h, h, True])),
                  ("short-span", it(stop=2 * h, step=h // 2))]
    return calls


INTERLEAVINGS = ["zip-sibling-points", "zip-own-propagators", "two-iterators-one-orbit", "call-between-create-and-consume",
                 "zip-range-with-iteration", "zip-two-iterations-one-range", "nested-loop-over-range", "resume-after-list-of-range",
                 # an ephemeris iterated over its OWN points (no step): Ephem.iter walks `for orb in self`
                 "zip-own-points-two-iterators", "own-points-plain-loop-while-suspended", "own-points-nested-plain-loops",
                 "own-points-propagate-while-suspended"]


def check_interleave(out, kind, h, npts, scenario, backward=False):
    """generators consumed side by side / suspended across other calls: each must return what it returns when it is consumed
    alone, in one go, on fresh objects. Only orbit objects that the library itself hands out or that own their propagator are
    used (two orbits made to share one propagator object by the user are NOT_COVERED: the generator follows the last bound one)."""
    from beyond.dates import Date
    inp = {"check": "interleave", "kind": kind, "h": h, "npts": npts, "scenario": scenario, "backward": backward}
    sg = -1 if backward else 1
    inside = (npts - 1) * h

    def setup():
        w = World(kind, h=h, npts=npts)
        o = w.orbits[0]
        if kind == "ephem":
            a1 = {"start": (inside if backward else 0), "stop": (inside - 4 * h if backward else 4 * h), "step": h // 2 + U}
            a2 = {"start": (inside - h if backward else h), "stop": (inside - 5 * h - U if backward else 5 * h + U), "step": h}
            rg = Date.range(w.date(inside - h if backward else h), w.date(inside - 6 * h if backward else 6 * h), td(sg * h), inclusive=True)
        else:
            a1 = {"stopdelta": sg * (4 * h + U), "step": h}
            a2 = {"start": sg * h, "stop": sg * 4 * h, "step": h // 2 + U}
            rg = Date.range(w.date(-sg * 2 * h), w.date(sg * 3 * h), td(sg * h), inclusive=True)
        return w, o, a1, a2, rg

    def key(objs):
        return [(us_of(x.date, epoch()), x.tobytes()) if hasattr(x, "tobytes") else ("date", us_of(x, epoch())) for x in objs]

    def alternately(ga, gb):
        la, lb = [], []
        for x, y in zip(ga, gb):       # stops at the shorter one
            la.append(x)
            lb.append(y)
        return la, lb
    out.count(key=(kind, scenario, backward), nontrivial=True, kind="interleave-" + kind, scenario=scenario)
    try:
        w, o, a1, a2, rg = setup()
        f, fo, _, _, frg = setup()
        if scenario == "zip-sibling-points":
            if kind not in POINT_KINDS:
                return
            pts = w.run_iter(0, {"stopdelta": sg * 6 * h, "step": h})[2]
            fpts = f.run_iter(0, {"stopdelta": sg * 6 * h, "step": h})[2]
            kw = w.kwargs({"stopdelta": sg * 3 * h, "step": h})
            got = alternately(pts[1].iter(**kw), pts[4].iter(**kw))
            exp = (list(fpts[1].iter(**kw)), list(fpts[4].iter(**kw)))
        elif scenario == "zip-own-propagators":
            if kind == "ephem":
                return
            w2, f2 = World(kind, h=h, npts=npts), World(kind, h=h, npts=npts)
            got = alternately(o.iter(**w.kwargs(a1)), w2.orbits[1].iter(**w.kwargs(a2)))
            exp = (list(fo.iter(**f.kwargs(a1))), list(f2.orbits[1].iter(**f.kwargs(a2))))
        elif scenario == "two-iterators-one-orbit":
            got = alternately(o.iter(**w.kwargs(a1)), o.iter(**w.kwargs(a2)))
            exp = (list(fo.iter(**f.kwargs(a1))), list(fo.iter(**f.kwargs(a2))))
        elif scenario == "call-between-create-and-consume":
            if kind == "ephem":
                return
            w2 = World(kind, h=h, npts=npts)
            g = o.iter(**w.kwargs(a1))
            w2.orbits[1].propagate(w.date(sg * 7 * h))     # another orbit, its own propagator
            first = [next(g)]
            o.propagate(w.date(sg * 2 * h))                # the same orbit, while its generator is suspended
            w2.orbits[1].iter(**w.kwargs(a2))
            got = (first + list(g), [])
            exp = (list(fo.iter(**f.kwargs(a1))), [])
        elif scenario == "zip-range-with-iteration":
            got = alternately(iter(rg), o.iter(dates=rg))
            exp = (list(frg), list(fo.iter(dates=frg)))
        elif scenario == "zip-two-iterations-one-range":
            o2 = o if kind == "ephem" else World(kind, h=h, npts=npts).orbits[1]
            fo2 = fo if kind == "ephem" else World(kind, h=h, npts=npts).orbits[1]
            got = alternately(o.iter(dates=rg), o2.iter(dates=rg))
            exp = (list(fo.iter(dates=frg)), list(fo2.iter(dates=frg)))
        elif scenario == "nested-loop-over-range":
            outer, inner = [], []
            for x in o.iter(dates=rg):
                outer.append(x)
                inner = list(rg)
            got = (outer, inner)
            exp = (list(fo.iter(dates=frg)), list(frg))
        elif "own-points" in scenario:
            if kind != "ephem":
                return
            b1 = {"start": (inside - h if backward else h), "stop": (inside - 7 * h if backward else 7 * h)}
            b2 = {"start": (inside - 2 * h if backward else 2 * h), "stop": (h if backward else inside - h)}
            if scenario == "zip-own-points-two-iterators":
                got = alternately(o.iter(**w.kwargs(b1)), o.iter(**w.kwargs(b2)))
                exp = (list(fo.iter(**f.kwargs(b1))), list(fo.iter(**f.kwargs(b2))))
            elif scenario == "own-points-plain-loop-while-suspended":
                g = o.iter(**w.kwargs(b1))
                first = [next(g), next(g)]
                whole = [x for x in o]                       # a plain loop over the ephemeris itself
                got = (first + list(g), whole)
                exp = (list(fo.iter(**f.kwargs(b1))), [x for x in fo])
            elif scenario == "own-points-nested-plain-loops":
                outer, inner = [], []
                for x in o:
                    outer.append(x)
                    inner = [y for y in o]
                got = (outer, inner)
                exp = ([x for x in fo], [x for x in fo])
            else:   # own-points-propagate-while-suspended
                g = o.iter(**w.kwargs(b1))
                first = [next(g)]
                o.propagate(w.date(3 * h + U))
                o.interpolate(w.date(2 * h))
                got = (first + list(g), [])
                exp = (list(fo.iter(**f.kwargs(b1))), [])
        else:   # resume-after-list-of-range
            g = o.iter(dates=rg)
            first = [next(g), next(g)]
            whole = list(rg)
            got = (first + list(g), whole)
            exp = (list(fo.iter(dates=frg)), list(frg))
    except Exception as ex:  # noqa: BLE001
        out.fail(f"{kind}-interleave-{scenario}-raises-{err_kind(ex)}", "interleaved consumption raises", inp, observed=repr(ex)[:200])
        return
    n = [min(len(exp[0]), len(exp[1])) if scenario.startswith("zip") or scenario == "two-iterators-one-orbit" else len(exp[0]), None]
    n[1] = n[0] if scenario.startswith("zip") or scenario == "two-iterators-one-orbit" else len(exp[1])
    e0, e1 = key(exp[0][:n[0]]), key(exp[1][:n[1]])
    g0, g1 = key(got[0]), key(got[1])
    if (g0, g1) != (e0, e1):
        what = "dates" if ([x[0] if x[0] != "date" else x[1] for x in g0 + g1] != [x[0] if x[0] != "date" else x[1] for x in e0 + e1]) else "states"
        # the iterations over an ephemeris' own points are one call site (`for orb in self` -> Ephem.__iter__): one family
        fam = f"{kind}-interleave-own-points-{what}" if "own-points" in scenario else f"{kind}-interleave-{scenario}-{what}"
        out.fail(fam, "generators consumed side by side (or suspended across other calls) do not return what each returns when consumed alone",
                 inp, observed=[[x[0] if x[0] != "date" else x[1] for x in g0][:12], [x[0] if x[0] != "date" else x[1] for x in g1][:12]],
                 expected=[[x[0] if x[0] != "date" else x[1] for x in e0][:12], [x[0] if x[0] != "date" else x[1] for x in e1][:12]])


def directed_iters(kind, h):
    """numerical propagator: the default step in its three forms and explicit steps equal to / smaller than / larger than /
    incommensurate with the propagator's, forward and backward, on every seed (the integration method is varied by the caller)"""
    out = []
    for stop in (5 * h + 7 * 8 * U, -(4 * h + 3 * 8 * U)):
        out += [{"stopdelta": stop}, {"stopdelta": stop, "step": None}, {"stopdelta": stop, "step": h, "stepobj": "same"},
                {"stopdelta": stop, "step": h}, {"stopdelta": stop, "step": h // 2}, {"stopdelta": stop, "step": 2 * h},
                {"stopdelta": stop, "step": 7 * h // 8 + U}, {"start": 3 * h + U, "stop": 3 * h + U + stop, "step": h}]
    return out


def oracle(ctx, widened):
    """widened: the sample of the quick tier first; the tenfold sample only when that has not already produced a failing input
    that is not a known finding (a report as early as possible)"""
    if widened and not ctx.thorough:
        out = _oracle(ctx, False)
        known = core.load_known()
        if any(core.match_known(ID, f, known) is None for f in out.failures):
            return out
        big = _oracle(ctx, True)
        big.failures = out.failures + big.failures
        return big
    return _oracle(ctx, widened)


def _oracle(ctx, widened):
    out = Outcome()
    rng = ctx.rng
    big = widened or ctx.thorough
    order = order_of_source()
    n_iter = 1200 if big else 120
    for kind in KINDS:
        for calls in directed_histories(kind, 60 * 8 * U, 12, ids=True, reform=True):
            check_history(out, kind, 60 * 8 * U, 12, calls)
        for branch, call in alias_calls(kind, 60 * 8 * U, 12):
            check_alias(out, kind, 60 * 8 * U, 12, branch, call)
        for scenario in INTERLEAVINGS:
            for backward in (False, True):
                check_interleave(out, kind, 60 * 8 * U, 12, scenario, backward)
    # every kind of object that can carry explicit dates, through every entry point, on every seed
    for kind in KINDS:
        h = 60 * 8 * U
        w = World(kind, h=h, npts=12)
        for form in DATE_FORMS:
            for via in ("iter", "ephemeris", "ephem"):
                for ds in ([h // 2 + U, 2 * h, 3 * h + 3 * U, 7 * h], [5 * h, h + U, 5 * h, 2 * h], []):
                    if form == "ephem-dates":
                        ds = sorted(ds)
                    if kind not in ("ephem", "num") and ds:
                        ds = [d - 3 * h for d in ds]          # before and after the epoch
                    check_dates_list(out, w, ds, 12, order, form=form, via=via)
    for method in ("euler", "rk4", "rkf54", "dopri54"):
        for a in directed_iters("num", 60 * 8 * U):
            check_iter(out, World("num", h=60 * 8 * U, method=method), a, order, 12, states=False)
        if method != "rk4":
            for branch, call in alias_calls("num", 60 * 8 * U, 12)[:3]:
                check_alias(out, "num", 60 * 8 * U, 12, branch, call, method=method)
    for kind in KINDS:
        for i in range(n_iter):
            h = rng.choice([60, 60, 30, 10]) * 8 * U
            npts = rng.choice([3, 5, 8, 9, 12, 20]) if kind == "ephem" else 12
            if kind == "ephem" and i % 2 == 0:
                npts = rng.choice([8, 9, 12, 20])
            method = "rk4"
            start, stop, step = gen_range(rng, kind, h, npts)
            a = {"stop": stop, "step": step}
            if start != 0 or kind == "ephem" or rng.random() < 0.5:
                a["start"] = start
            if kind == "num":
                # every integration method; the default step in its three forms (absent, None, the propagator's own object);
                # explicit steps equal to, smaller than, larger than, incommensurate with the propagator's step
                method = rng.choice(["rk4", "euler", "rkf54", "dopri54"])
                if method != "rk4" and rng.random() < 0.5:
                    h = rng.choice([60, 120]) * 8 * U          # where the step-size control of the adaptive methods acts
                q = rng.random()
                if q < 0.15:
                    del a["step"]
                elif q < 0.22:
                    a["step"] = None
                elif q < 0.32:
                    a["step"], a["stepobj"] = h, "same"
                elif q < 0.5:
                    a["step"] = h
            w = World(kind, h=h, npts=npts, method=method)
            if kind != "ephem" and rng.random() < 0.2:
                a["stopdelta"] = a.pop("stop") - start
            check_iter(out, w, a, order, npts, states=(i % 4 == 0 and method != "euler"))   # two Euler paths differ by O(h): C06
        # explicit lists of dates
        for i in range(n_iter // 2):
            h = 60 * 8 * U
            npts = rng.choice([5, 9, 12])
            w = World(kind, h=h, npts=npts)
            n = rng.choice([0, 1, 2, 3, 6])
            hi = (npts - 1) * h // U
            if kind == "ephem":
                ds = [rng.randrange(0, hi + 1) * U for _ in range(n)]
            else:
                ds = [rng.randrange(-hi, hi + 1) * U for _ in range(n)]
            form = rng.choice(DATE_FORMS) if i % 2 else "list"
            check_dates_list(out, w, sorted(ds) if form == "ephem-dates" else ds, npts, order, form=form,
                             via=rng.choice(["iter", "iter", "ephemeris", "ephem"]) if i % 2 else "iter")
        # call histories on shared objects
        for i in range((600 if big else 100)):
            h = 60 * 8 * U
            npts = rng.choice([9, 12])
            n_orb = 1 if kind == "ephem" else 2
            calls = [gen_call(rng, kind, h, npts, n_orb, ids=True) for _ in range(rng.randint(1, 8))]
            check_history(out, kind, h, npts, calls)
    out.sample({"check": "iter", "kind": "kepler", "args": {"start": -3 * 8 * U, "stop": 100 * 8 * U, "step": 30 * 8 * U},
                "expected": expected_dates(-3 * 8 * U, 100 * 8 * U, 30 * 8 * U)})
    return out


def replay(f):
    out = Outcome()
    i = f["input"]
    order = order_of_source()
    if i.get("check") == "iter":
        check_iter(out, World(i["kind"], h=i["h"], npts=i["npts"], method=i.get("method", "rk4")), i["args"], order, i["npts"])
    elif i.get("check") == "dates":
        check_dates_list(out, World(i["kind"], h=i["h"], npts=i["npts"]), i["dates"], i["npts"], order, form=i.get("form", "list"), via=i.get("via", "iter"))
    elif i.get("check") == "history":
        check_history(out, i["kind"], i["h"], i["npts"], i["calls"])
    elif i.get("check") == "interleave":
        check_interleave(out, i["kind"], i["h"], i["npts"], i["scenario"], i.get("backward", False))
    elif i.get("check") == "alias":
        check_alias(out, i["kind"], i["h"], i["npts"], i["branch"], i["call"], method=i.get("method", "rk4"))
    return out
