"""C05 — analytical two-body (Kepler) and J2 propagation obey Kepler's laws."""
import ast
import math
import os

from harness import core, py2lean, instantiate
from harness.core import Outcome, f2b, b2f

ID = "C05"
LEAN_TARGETS = ["BeyondVerif.Props.C05", "BeyondVerif.Props.C05Cart", "BeyondVerif.Props.C05Term", "BeyondVerif.Props.C05Universal",
                "BeyondVerif.Lemmas.TwoBody", "BeyondVerif.Lemmas.TwoBodyHyp", "BeyondVerif.Lemmas.TwoBody3D", "BeyondVerif.Lemmas.PropagCart",
                "BeyondVerif.Lemmas.NewtonKepler", "BeyondVerif.Lemmas.NewtonKeplerApogee", "BeyondVerif.Lemmas.NewtonHyp", "BeyondVerif.Lemmas.Universal",
                "BeyondVerif.Witness.C05"]
THEOREMS = [
    "BeyondVerif.C05.meanMotion_formula",
    "BeyondVerif.C05.kepler_elements_constant",
    "BeyondVerif.C05.kepler_M_advance",
    "BeyondVerif.C05.kepler_zero",
    "BeyondVerif.C05.kepler_compose",
    "BeyondVerif.C05.kepler_inverse",
    "BeyondVerif.C05.kepler_periodic",
    "BeyondVerif.C05.kepler_periodic_k",
    "BeyondVerif.C05.kepler_equation_solution_unique",
    "BeyondVerif.C05.kepler_equation_equivariant",
    "BeyondVerif.C05.hyperbolic_kepler_equation_solution_unique",
    "BeyondVerif.C05.kepler_solves_two_body",
    "BeyondVerif.C05.kepler_solves_two_body_hyperbolic",
    "BeyondVerif.C05.meanToCart_eq_cartOf",
    "BeyondVerif.C05.kepler_solves_two_body_cartesian",
    "BeyondVerif.C05.kepler_solves_two_body_cartesian_hyperbolic",
    "BeyondVerif.C05.cartOf_invariants_elliptic",
    "BeyondVerif.C05.cartOf_invariants_hyperbolic",
    "BeyondVerif.C05.kepler_is_universal_variable_solution",
    "BeyondVerif.C05.kepler_is_universal_variable_solution_hyperbolic",
    "BeyondVerif.C05.deltaT_eq",
    "BeyondVerif.C05.deltaT_telescope",
    "BeyondVerif.C05.subDate_inst",
    "BeyondVerif.C05.subDate_inst_bound",
    "BeyondVerif.C05.deltaT_eq_instant_diff",
    "BeyondVerif.C05.kepler_M_advance_dates",
    "BeyondVerif.C05.kepler_M_advance_dates_us",
    "BeyondVerif.C05.kepler_M_advance_readings",
    "BeyondVerif.C05.off_TT_UTC",
    "BeyondVerif.C05.kepler_M_advance_UTC_to_TT",
    "BeyondVerif.C05.propagate_label_free",
    "BeyondVerif.C05.kepler_compose_dates",
    "BeyondVerif.C05.kepler_inverse_dates",
    "BeyondVerif.C05.timedelta_is_date",
    "BeyondVerif.C05.kepler_M_advance_timedelta",
    "BeyondVerif.C05.kepler_M_advance_timedelta_same_offset",
    "BeyondVerif.C05.kepler_compose_timedelta",
    "BeyondVerif.C05.propagateTo_history_independent",
    "BeyondVerif.C05.propagate_history_independent",
    "BeyondVerif.C05.propagate_overwrites_cache",
    "BeyondVerif.C05.kpM2eLoop_exit",
    "BeyondVerif.C05.m2e_loop_residual_elliptic",
    "BeyondVerif.C05.kpM2e_elliptic_spec",
    "BeyondVerif.C05.kepler_anomaly_residual",
    "BeyondVerif.C05.loop_returns",
    "BeyondVerif.C05.kpM2eLoop_neg",
    "BeyondVerif.C05.kepler_m2e_terminates_partial",
    "BeyondVerif.C05.loop_returns_gen",
    "BeyondVerif.C05.kepler_m2e_terminates",
    "BeyondVerif.C05.m2e_loop_residual_hyperbolic",
    "BeyondVerif.C05.kepler_anomaly_residual_hyperbolic",
    "BeyondVerif.C05.kepler_m2e_terminates_hyperbolic",
    "BeyondVerif.C05.kepler_propagation_returns",
    "BeyondVerif.C05.kpM2e_shift",
    "BeyondVerif.C05.meanToCart_shiftM",
    "BeyondVerif.C05.kepler_periodic_cartesian",
    "BeyondVerif.C05.kepler_periodic_cartesian_then",
    "BeyondVerif.C05.kepler_periodic_cartesian_in_out",
    "BeyondVerif.C05.kepler_periodic_cartesian_in_out_then",
    "BeyondVerif.C05.j2_outside_domain_hyperbolic",
    "BeyondVerif.C05.kepler_cart_compose",
    "BeyondVerif.C05.kepler_cart_inverse",
    "BeyondVerif.C05.kepler_cart_periodic",
    "BeyondVerif.C05.j2_aei_constant",
    "BeyondVerif.C05.j2_linear_in_dt",
    "BeyondVerif.C05.j2_rates_formula",
    "BeyondVerif.C05.j2_step_mod",
    "BeyondVerif.C05.j2_angles_wrapped",
    "BeyondVerif.C05.j2_polar_no_node_drift",
    "BeyondVerif.C05.j2_critical_no_perigee_drift",
    "BeyondVerif.C05.j2_compose",
    "BeyondVerif.C05.j2_inverse",
    "BeyondVerif.C05.j2_compose_dates",
    "BeyondVerif.C05.j2_inverse_dates",
    "BeyondVerif.C05.j2_step_mod_dates",
    "BeyondVerif.C05.j2_node_rate_eq_sso",
    "BeyondVerif.C05W.sin_fmod_sub_add",
    "BeyondVerif.C05W.state_in_equatorial_plane_put_on_node_line",
]
LEVEL_TEXT = ("Lean theorems over R about the element update translated from kepler.py, j2.py and Infos.n on every run: a, e, i, node, perigee constant and "
              "M advanced by sqrt(mu/|a|^3) dt for all inputs; composition and inverse exact for all t1, t2; one period adds exactly 2 pi. "
              "TWO-BODY SOLUTION, both conics, in the frame: with E(t) (H(t)) the solution of the (hyperbolic) Kepler equation for the advanced mean anomaly, the six components "
              "of the CARTESIAN state computed by the library's own conversion chain (Form._keplerian_eccentric_to_keplerian and _keplerian_to_cartesian, translated from forms.py "
              "on every run and proved equal to the textbook perifocal coordinates rotated by the constant matrix R3(-raan) R1(-i) R3(-argp)) satisfy r' = v, v' = -mu r/|r|^3 with the 3-D norm "
              "(HasDerivAt, all t, Delta t of either sign; e < 1 with a > 0 and e > 1 with a < 0). "
              "UNIVERSAL VARIABLES: for the initial cartesian state c0 the universal anomaly chi = sqrt(|a|) (E - E0) solves the universal Kepler equation written with alpha = 2/|r0| - |v0|^2/mu, "
              "|r0|, r0.v0 read off c0 and the Stumpff functions, it is its ONLY solution, and f r0 + g v0 is the position of the propagated state, axis by axis (elliptic and hyperbolic). "
              "TERMINATION: over R the Newton loop of Form.M2E (start values, update, tolerance, reduction translated; loop shape checked) exits for EVERY mean anomaly and every 0 <= e < 1 "
              "(monotone descent for |M'| <= pi - e; quadratic contraction around +-pi in the gap pi - e < |M'| <= pi; M' = -pi) and for every e > 1 and every M whatever the start value "
              "(hence with the clamped start of 31f549a); a returned anomaly solves Kepler's equation within 2 tol (1+e), resp. 8 e cosh H tol^2. "
              "PERIODICITY at cartesian level for every fuel: M2E commutes with whole turns, the translated way out is 2 pi-periodic, so after k periods the model of Orbit.propagate returns exactly "
              "what it returns at once, also cartesian in / cartesian out through the translated orbit setter (cartesian -> keplerian -> eccentric -> mean). "
              "J2 keeps a, e, i, is linear in dt with exactly the first-order secular rates (no node drift at cos i = 0, no perigee drift at 5 cos^2 i = 1, "
              "node rate = Earth's mean motion for the inclination returned by leo.sso), composes modulo 2 pi; its domain is 0 <= e < 1 (j2_outside_domain_hyperbolic). "
              "Cartesian-level composition / inverse are proved from the form round trip as explicit hypotheses (C01). "
              "Dates: delta_t and the target date are translated from the head of Kepler.propagate / J2.propagate into the C03 date model (instant on TAI + own scale); for an epoch and "
              "a target in ANY pair of the six scales delta_t is the difference of the two instants (exactly for whole-microsecond dates, within 1 us otherwise), M advances by n times it, "
              "J2 drifts at the secular rates times it, the result carries the requested date, relabelling either date in another scale changes nothing, composition / inverse through "
              "dates in any three scales are exact; a timedelta argument is the date epoch + timedelta and advances M by n times the timedelta in TAI, TT, GPS (also across leap seconds, "
              "every Earth-orientation environment) and in any scale when the offset to TAI does not change (UTC when no leap second intervenes); UTC -> TT spelled out "
              "(readings minus 32.184 s minus TAI-UTC). The propagator object re-reads the orbit (elements and epoch) on every call (history independence). "
              "Differential correspondence of the whole chain (setter on a cartesian orbit, update, M2E, eccentric -> true -> cartesian, all in Lean) against Orbit.propagate from every form, "
              "around the Earth, the Moon and the Sun, on single calls and on call histories with in-place modifications, inclinations over the whole of (0, pi) "
              "including quasi-equatorial orbits on both sides (sin i down to 1e-5). "
              "OPEN FINDING (C05W.state_in_equatorial_plane_put_on_node_line): the translated cartesian -> keplerian step puts every state with z = 0 on the node line "
              "(z / sin i); for an exactly equatorial orbit that is 0/0 — NaN (prograde) or a wrong perigee (retrograde) in the code; the cartesian-in theorems "
              "(kepler_periodic_cartesian_in_out, kepler_cart_*) are about that setter and say nothing about whether its elements describe the state.")
LEVEL_NOTE = ("R -> double gap covered only by tolerance-bounded correspondence; form conversions other than the two chains named above (C01) enter as hypotheses of the cartesian-level "
              "composition / inverse theorems; the two-body and universal-variable theorems are about the EXACT solution of Kepler's equation, the code returns the Newton iterate whose residual "
              "is bounded by kepler_anomaly_residual(_hyperbolic); termination is proved over R, the double-precision iteration is covered by the 1 s watchdog and the fuel-bounded compiled model; "
              "Lean kernel + propext/Classical.choice/Quot.sound; py2lean translator and harness trusted")
TECHNIQUE = "Lean 4 proof (ring / field identities, floor arithmetic, real analysis: HasDerivAt, mean value theorem, intermediate value theorem) over formulas regenerated from the Python AST; differential correspondence; oracle on the real API"
TRUSTED = [
    "harness/py2lean.py: translates Infos.n, Body.mu, the body of Kepler.propagate and J2.propagate, the sso inclination formula, the pieces of Form.M2E and the five conversion edges "
    "cartesian -> keplerian -> keplerian_eccentric -> keplerian_mean (orbit setter) and keplerian_eccentric -> keplerian -> cartesian (result) into Generated/Propag{F,R}.lean on every run; "
    "constants G, Earth mass/radius/J2 are read from the live beyond.constants module",
    "harness/props/C05.py DateTr / date_head: typed translation of the date arithmetic at the head of both propagate() methods (Date - Date, Date + timedelta, total_seconds) into the "
    "C03 date model; anything else (own-scale clock fields d, s, datetime, mjd) is refused and the run reported as broken; shape checks: `date` rebound only in the timedelta branch, "
    "`new.date = date` once, Orbit.propagate hands its argument on unchanged",
    "the date model (Model/Date.lean, DateCfg: scale graph, _scale_* methods, IERS tables, TDB formula regenerated by C03.extract, which C05.extract calls) is C03's; here it is tied to "
    "the propagators by the dated correspondence cases (model span / stamped scale vs `result.date - epoch`, cartesian state) in three Earth-orientation environments",
    "oracle: the instants of the dates handed in come from the harness's own offsets (32.184 s, 19 s, tai-utc.dat / finals read by C03.tables, documented TDB formula), not from the library",
    "lean/templates/Propag.tpl (hand-written glue: which element is updated, the modulo-2pi wrap of J2, the fuel-bounded Newton loop whose shape the extractor checks against "
    "the source, the order of the conversion edges on the way in and out, the propagator object and its unconditional setter), tied by the correspondence run (single calls, "
    "cartesian in / cartesian out, slow-M2E inputs, histories)",
    "Lemmas/Universal.lean stumpC / stumpS: the textbook Stumpff functions, hand-written (the reference solution is independent of the library; C19's lamC / lamS translated from lambert.py "
    "have the same closed forms but cannot be imported next to C05's modules: Generated/LeoFnR and Generated/PropagR both define BeyondVerif.R.meanMotion)",
    "harness mirror of the M2E loop (m2e_iters) is used only to SELECT inputs on which the loop runs long, never as an expected value; a 1 s SIGALRM watchdog decides 'does not return'",
    "numpy / libm double arithmetic vs R: tolerance 1e-9 (1 + n|dt|) relative",
]
ASSUMPTIONS = ["J2 clause: domain 0 <= e < 1, a > 0, mu > 0 (the guards of j2_rates_formula / j2_step_mod / j2_node_rate_eq_sso). The first-order secular rates are averages over a revolution and "
               "the mean-anomaly rate contains sqrt(1 - e^2): they do not exist for an open orbit. For e > 1 J2.propagate evaluates np.sqrt of a negative number and returns an all-NaN state "
               "without raising (recorded by the oracle probe `j2-hyperbolic`: every probe of every run; the compiled model returns NaN as well, the model over R is not faithful there: "
               "j2_outside_domain_hyperbolic). This is read as outside the property, not as a violation: the statement speaks of rates that are undefined there and says nothing about errors",
               "Kepler clauses: e in [1e-4, 0.95] with a > 0 and e in [1.01, 10] with a < 0 (the library's sign convention), mu > 0; the theorems hold for 0 <= e < 1 resp. e > 1",
               "timedelta arguments: `advances M by n times the timedelta` is stated (and tested) for epochs in TAI, TT, GPS and for UTC when no leap second lies in the span; "
               "for UT1 / TDB epochs and UTC spans across a leap second a timedelta is propagated as the date `epoch + timedelta` (consistency with that date is tested, not n*timedelta)",
               "dates within 2 minutes of a leap second and UT1 readings within 5 s of midnight (C03's open finding ut1-step-at-utc-midnight) are not generated; spans may cross leap seconds",
               "cartesian-level composition / inverse take the keplerian_mean <-> cartesian round trip (up to 2 pi k on M for e < 1) as hypothesis hRT (C01); the 2 pi-periodicity hPer of "
               "mean -> cartesian is now proved for the translated chain (meanToCart_shiftM), and periodicity needs no round trip (kepler_periodic_cartesian_in_out)",
               "theorems are over R; the implementation computes in IEEE doubles",
               "inclination: 0 < i < pi with sin i >= 1e-5 is generated everywhere (gen_inclination: 22 % of all orbits quasi-equatorial, prograde and retrograde alike); "
               "states that pass through Form._cartesian_to_keplerian are allowed the relative error 4e-16 / sin^2 i of its z / sin(i) (observed 5.5e-17 / sin^2 i; "
               "4e-6 at sin i = 1e-5, inside the property's 1e-5), node-related angles 1 / sin i; 0 < sin i < 1e-5 is not generated (the same loss exceeds 1e-5 below "
               "sin i ~ 2e-6: part of the open finding C05-equatorial-prograde-nan); sin i = 0 exactly is probed by the family exactly-equatorial-* (open findings)",
               "frames are only labels here: the propagators never change the frame; the attracting body enters through mu only (Earth, Moon, Sun in the runs)"]
NOT_COVERED = ["the date arithmetic itself (Date construction, offsets, `-`, `+`) is C03's subject: here its model is used, and tied to the propagators by the dated cases only; "
               "`datetime` arguments are refused by the library (TypeError; tallied by the oracle), numpy datetime64 / float arguments likewise",
               "the conversions from the other eight element forms to keplerian_mean (orbit setter on a non-cartesian orbit) and the exact mean -> cartesian -> mean round trip are C01's; "
               "here only the cartesian way in and the way out are modelled",
               "universal-variable VELOCITY (f-dot, g-dot) is not formalised (position via f, g is; the velocity of the propagated state is the derivative of that position by "
               "kepler_solves_two_body_cartesian); the numerical universal-variable solver of the oracle (bracketed Newton in double precision) remains an oracle",
               "parabolic orbits (e = 1 exactly) and e in (0.95, 1.01) are outside the property's domain; the hyperbolic branch of M2E divides by e cosh H - 1, which vanishes at e = 1, H = 0"]
OPEN = ["termination of Form.M2E is proved over R (kepler_m2e_terminates, kepler_m2e_terminates_hyperbolic); what stays open is the double-precision iteration itself (R -> double): "
        "covered by the 1 s watchdog families m2e-no-return-*, the pinned regression inputs, the edge inputs of gen_m2e_input and the fuel-bounded compiled model (10^4 passes), not by proof; "
        "no bound on the NUMBER of passes better than e/tol + 2 (ellipse, descent regime) is proved — observed: <= 6 passes for e <= 0.95, <= 31 for hyperbolas over 6e5 domain samples",
        "seeded change C05-m2 (cap of 50 passes) is reported as `no-failing-input-found`: since the fixes b41fd8b (reduction) and 31f549a (clamped start) no input in the domain needs more "
        "than 31 passes, and a differential run of capped vs uncapped M2E over 4e5 inputs (e up to 1 +- 1e-16, |M| up to 1e300) differs only for |M| > 3e16 with 1 - e < 1e-6, "
        "far outside the domain: within the property's domain the change has no observable effect; it is caught because the extractor refuses any loop that can be left before convergence",
        "OPEN FINDINGS C05-equatorial-prograde-nan / C05-equatorial-retrograde-node-line: Kepler / J2 propagation of an exactly equatorial state given in cartesian, "
        "spherical or cylindrical form returns NaN (prograde) or starts from a point on the node line (retrograde); proposed_fixes/C05-equatorial-argument-of-latitude.diff "
        "(with it applied: extraction, proofs, correspondence and oracle pass except the witness, which then has to be flipped into a regression theorem); "
        "a theorem that the setter's elements DESCRIBE the state (kpKeplToCart after kpCartToKepl = id for sin i != 0, e != 0) is C01's cart_kepl_cart_of_image for its own "
        "copy of the translation and is not re-proved here: a changed guard in _cartesian_to_keplerian is caught by the oracle (quasi-equatorial families), not by a C05 proof",
        "known findings C05-hyperbolic-M2E-overflow (31f549a) and C05-m2e-no-return-ell (b41fd8b) are fixed in /repo; their oracle families stay alive (reversing either fix gives a VIOLATION with a replay)"]
RULE = ("correspondence: random orbits (e log/uniform in [1e-4,0.95] and [1.01,10], perigee radius 6.6e6..5e7 m around the Earth, scaled by 0.3 around the Moon and 3000 around the Sun "
        "(frames of beyond.env.solarsystem: a second and third mu), every form the conic admits, dt in +-30 d quantised to ms) through "
        "Orbit.propagate (Kepler, J2) vs real mean->cartesian applied to the Lean model's elements on the real cartesian->mean elements, and vs the Lean chain; every cartesian-form case and every "
        "third other case rebuilt in cartesian form additionally through driver command propc: the WHOLE call in the model from the six cartesian numbers (setter elements compared too); "
        "non-trivial = dt != 0; distinct = distinct request line. "
        "plus the Kepler inputs with the most Newton passes among 2e4 (2e5) domain candidates, plus call histories (propagate / modify in place: element, velocity scaling, form, date / propagate again, "
        "epoch shifted or RELABELLED in another scale; timedelta, date in the epoch's scale, date in a drawn scale) threaded through the model's propagator object (driver command histd: "
        "the model is given scale + clock reading of epoch and target and computes the span itself), one third of them in a drawn Earth-orientation environment with the epoch in a drawn scale; "
        "single dated propagations: propagator x {no EOP, constant mocked record, real tests/data/pole database} x scale of the epoch x scale of the target (all 2 x 3 x 36, 3 (40) sweeps), "
        "every seventh a timedelta, a third of the real-database epochs placed so that the span crosses a leap second; the model's cartesian state comes from the Lean chain with fuel 1e4. "
        "oracle: element constancy, M advance, composition, inverse, periodicity, universal-variable two-body solution (1e-5), J2 secular rates from the textbook formula, polar / critical / sso, "
        "Kepler-equation residual of Form.M2E over the domain and at its edges (e at 1e-4 / 0.95 / 1.01 / 1.6 / 3.6 / 10, reduced anomaly within 1e-14..1e-1 of 0 and +-pi, clamp threshold), "
        "history = fresh orbit, two orbits iterated in lockstep = fresh orbits, one propagator object with the orbit assigned once and propagate() called five times in mixed order = fresh orbits, "
        "every call under a watchdog (no return = failure), pinned regression inputs; "
        "every Kepler / J2 clause again with the dates handed in as Date objects (gen_dated: environment x epoch scale x first target scale through all 3 x 36 combinations, 2 (12) sweeps per "
        "propagator; the composition legs, the way back and the period in further drawn scales or as timedelta; expected values from the elapsed time between the instants computed by the harness; "
        "the result must carry the requested date and scale); iter(dates=mixed scales), iter(start in another scale, stop, step), datetime arguments (api_case); "
        "J2 on hyperbolic orbits is probed and recorded, not judged; "
        "inclinations (every generator): 78 % uniform in [0.05, pi - 0.05], 22 % quasi-equatorial with sin i log-uniform in [1e-5, 5e-2], half prograde half retrograde "
        "(families suffixed :quasi-equatorial-prograde / -retrograde); 6 % of the orbits with node / perigee / anomaly on a multiple of pi/2; "
        "exactly equatorial states z = v_z = 0 built without the library (60 (400) per run; prograde / retrograde, both conics, cartesian / spherical / cylindrical, Kepler and J2): "
        "finite, propagate(0) = the state, universal-variable solution, J2 keeps plane, |h| and energy")

REPO = core.REPO
KEPLER_PY = os.path.join(REPO, "beyond", "propagators", "kepler.py")
J2_PY = os.path.join(REPO, "beyond", "propagators", "j2.py")
SV_PY = os.path.join(REPO, "beyond", "orbits", "statevector.py")
CONST_PY = os.path.join(REPO, "beyond", "constants.py")
LEO_PY = os.path.join(REPO, "beyond", "utils", "leo.py")

DAY = 86400.0
TWO_PI = 2 * math.pi


# ---------------------------------------------------------------- extraction

def _lit(v):
    return py2lean.Tr().expr(ast.Constant(float(v)))


def _sso_select(fn):
    """the argument of arccos in the `i is None` branch of leo.sso — cos of the sun-synchronous inclination"""
    for s in fn.body:
        if isinstance(s, ast.If) and "i" in ast.unparse(s.test).split()[0:1]:
            ret = s.body[0]
            if isinstance(ret, ast.Return) and isinstance(ret.value, ast.Call) and ast.unparse(ret.value.func).endswith("arccos"):
                return ret.value.args[0]
    raise py2lean.Untranslatable("leo.sso: `i is None` branch returning arccos(...) not found")



FORMS_PY = os.path.join(REPO, "beyond", "orbits", "forms.py")
CARGS = ["c0", "c1", "c2", "c3", "c4", "c5"]
MU_CONSTS = {"body.µ": "mu", "body.μ": "mu", "body.mu": "mu", "body": "body_unused"}
M2E_EDGE_SRC = "a, e, i, Ω, ω, M = coord\nE = cls.M2E(e, M)\nreturn np.array([a, e, i, Ω, ω, E], dtype=float)\n"


def _rename(nodes, mapping):
    class Rn(ast.NodeTransformer):
        def visit_Name(self, n):
            return ast.copy_location(ast.Name(id=mapping.get(n.id, n.id), ctx=n.ctx), n)

        def visit_arg(self, n):
            return ast.copy_location(ast.arg(arg=mapping.get(n.arg, n.arg), annotation=None), n)
    return [ast.fix_missing_locations(Rn().visit(ast.parse(ast.unparse(x)).body[0] if isinstance(x, ast.stmt) else ast.parse(ast.unparse(x), mode="eval").body)) for x in nodes]


def to_cart_chain(tree):
    """The final `new.copy(form="cartesian")` of both propagators, translated from forms.py (own copy, prefix `kp`, so that C05
    does not depend on the generation state of C01's model): the start value(s) and Newton update of `Form.M2E`, its tolerance,
    and the edges keplerian_eccentric -> keplerian -> cartesian.  The loop of M2E must have exactly the shape
    `X1 = next(X); while abs(X1 - X) >= tol: X = X1; X1 = next(X); return X1` — it is written with a fuel argument in the
    template, where `none` means 'did not exit': the code's loop exits ONLY on convergence."""
    fn = py2lean.find_function(tree, "Form.M2E")
    body = [st for st in fn.body if not (isinstance(st, ast.Expr) and isinstance(st.value, ast.Constant))]
    if not (len(body) == 2 and isinstance(body[0], ast.Assign) and body[0].targets[0].id == "tol" and isinstance(body[1], ast.If)):
        raise py2lean.Untranslatable("M2E: unexpected top-level shape (an extra statement, e.g. an iteration cap?)")
    tol = py2lean.translate_expr(body[0].value)
    top = body[1]
    test = py2lean.translate_expr(top.test)
    out = {}
    expected = ast.dump(ast.Module(body=ast.parse("X1 = next_X(X, e, M)\nwhile abs(X1 - X) >= tol:\n    X = X1\n    X1 = next_X(X, e, M)\n").body, type_ignores=[]))
    for tag, blk, var, nxt in (("E", top.body, "E", "next_E"), ("H", top.orelse, "H", "next_H")):
        # shape: [prelude assignments of M / one auxiliary]* [start-value ifs]+ def next; X1 = next(X); while …; return f(X1, aux)
        j = 0
        while j < len(blk) and isinstance(blk[j], ast.Assign) and len(blk[j].targets) == 1 and isinstance(blk[j].targets[0], ast.Name):
            j += 1
        k = j
        while k < len(blk) and isinstance(blk[k], ast.If):
            k += 1
        if not (k >= j + 1 and len(blk) == k + 4 and isinstance(blk[k], ast.FunctionDef) and blk[k].name == nxt and isinstance(blk[k + 3], ast.Return)):
            raise py2lean.Untranslatable(f"M2E: unexpected shape of the {tag} branch")
        prelude = list(blk[:j])
        aux = sorted({st.targets[0].id for st in prelude} - {"M"})
        if len(aux) > 1 or any(st.targets[0].id in (var, var + "1", "e", "tol") for st in prelude):
            raise py2lean.Untranslatable(f"M2E: unexpected prelude of the {tag} branch")

        def pre(name, default):
            if not any(st.targets[0].id == name for st in prelude):
                return default
            t = py2lean.TrFn()
            t.defined |= {"e", "M"}
            return t.stmts(prelude + [ast.Return(value=ast.Name(id=name, ctx=ast.Load()))])
        out["arg" + tag] = pre("M", "M")
        out["off" + tag] = pre(aux[0], "(0 : R)") if aux else "(0 : R)"
        tr = py2lean.TrFn()
        tr.defined |= {"e", "M"}
        out["start" + tag] = tr.stmts(list(blk[j:k]) + [ast.Return(value=ast.Name(id=var, ctx=ast.Load()))])
        nf = blk[k]
        if [a.arg for a in nf.args.args] != [var, "e", "M"] or len(nf.body) != 1 or not isinstance(nf.body[0], ast.Return):
            raise py2lean.Untranslatable("M2E: unexpected Newton update function")
        out["next" + tag] = py2lean.translate_expr(_rename([nf.body[0].value], {var: "X"})[0])
        shape = ast.dump(ast.Module(body=_rename(blk[k + 1:k + 3], {var: "X", var + "1": "X1", nxt: "next_X"}), type_ignores=[]))
        if shape != expected:
            raise py2lean.Untranslatable("M2E: the iteration loop no longer has the modelled shape (exit only when |X1 - X| < tol)")
        ret = _rename([blk[k + 3].value], dict({var + "1": "X1"}, **({aux[0]: "off"} if aux else {})))[0]
        used = {n.id for n in ast.walk(ret) if isinstance(n, ast.Name)}
        if not ("X1" in used and used <= {"X1", "off", "np"}):
            raise py2lean.Untranslatable(f"M2E: the {tag} branch returns something else than a function of the last iterate and the prelude's offset")
        out["res" + tag] = py2lean.translate_expr(ret)
    cls = py2lean.find_function(tree, "Form")
    edge = next(f for f in cls.body if isinstance(f, ast.FunctionDef) and f.name == "_keplerian_mean_to_keplerian_eccentric")
    stm = [st for st in edge.body if not (isinstance(st, ast.Expr) and isinstance(st.value, ast.Constant))]
    if [ast.dump(x) for x in stm] != [ast.dump(x) for x in ast.parse(M2E_EDGE_SRC).body]:
        raise py2lean.Untranslatable("_keplerian_mean_to_keplerian_eccentric no longer has the modelled shape (a,e,i,Ω,ω,M2E(e,M))")
    parts = [f"/-- `tol` of `Form.M2E` -/\ndef kpM2eTol : R := {tol}\n",
             "/-- the mean anomaly the iteration of `Form.M2E` works on (prelude of the branch: reduction to [-π, π) for ellipses) -/\ndef kpM2eArg (e M : R) : R :=\n  if " + test + " then\n" +
             py2lean.indent(out["argE"], 4) + "\n  else\n" + py2lean.indent(out["argH"], 4) + "\n",
             "/-- the offset set aside by the prelude (whole revolutions for ellipses; none for hyperbolas) -/\ndef kpM2eOffset (e M : R) : R :=\n  if " + test + " then\n" +
             py2lean.indent(out["offE"], 4) + "\n  else\n" + py2lean.indent(out["offH"], 4) + "\n",
             "/-- the value returned by `Form.M2E` from the last iterate and the offset -/\ndef kpM2eResult (e X1 off : R) : R :=\n  if " + test + " then " + out["resE"] + "\n  else " + out["resH"] + "\n",
             "/-- start value of the Newton iteration in `Form.M2E` (every branch) -/\ndef kpM2eStart (e M : R) : R :=\n  if " + test + " then\n" +
             py2lean.indent(out["startE"], 4) + "\n  else\n" + py2lean.indent(out["startH"], 4) + "\n",
             "/-- `next_E` / `next_H` of `Form.M2E` -/\ndef kpM2eNext (X e M : R) : R :=\n  if " + test + " then " + out["nextE"] + "\n  else " + out["nextH"] + "\n",
             "/-- the `while` test of `Form.M2E` -/\ndef kpM2eContinue {α : Type} (X1 X : R) (yes no : α) : α :=\n  if (absR (X1 - X)) ≥ kpM2eTol then yes else no\n"]
    # the way out (`new.copy(form="cartesian")`) and the way in (the orbit setter on a cartesian orbit)
    for py, ln in (("_keplerian_eccentric_to_keplerian", "kpEccToKepl"), ("_keplerian_to_cartesian", "kpKeplToCart"),
                   ("_cartesian_to_keplerian", "kpCartToKepl"), ("_keplerian_to_keplerian_eccentric", "kpKeplToEcc"),
                   ("_keplerian_eccentric_to_keplerian_mean", "kpEccToMean")):
        parts.append(f"/-- `Form.{py}` -/\n" + py2lean.translate_fn(FORMS_PY, "Form." + py, ln, vec_params={"coord": CARGS}, consts=MU_CONSTS,
                                                                   extra_args=["mu"], tree=tree, ret_type="List R"))
    return "\n".join(parts)


# ---------------------------------------------------------------- the date arithmetic at the head of propagate()

ORBIT_PY = os.path.join(REPO, "beyond", "orbits", "orbit.py")
TD_TEST = "type(date) is timedelta"


class DateTr:
    """Typed translation of the date arithmetic of `Kepler.propagate` / `J2.propagate` into the C03 date model
    (Model/Date.lean).  Types: 'date' (a `Date`: instant on the reference scale + own scale label), 'td' (a `timedelta`, whole
    microseconds), 'sec' (float seconds).  Only operations whose meaning is a function of the INSTANTS are accepted:
    `Date - Date` (`Date.__sub__`: difference of the reference-scale datetimes), `Date + timedelta`, sums / differences /
    negation of timedeltas and of seconds, `timedelta.total_seconds()`.  Anything else — in particular the own-scale clock
    fields `date.d`, `date.s`, `date.datetime`, `date.mjd`, `date.jd` — is refused: the run is reported as broken and the
    oracle is widened."""

    def __init__(self, names):
        self.names = dict(names)      # python source text -> (lean text, type)

    def expr(self, e):
        key = ast.unparse(e)
        if key in self.names:
            return self.names[key]
        if isinstance(e, ast.BinOp) and isinstance(e.op, (ast.Sub, ast.Add)):
            (l, tl), (r, tr) = self.expr(e.left), self.expr(e.right)
            sub = isinstance(e.op, ast.Sub)
            if sub and (tl, tr) == ("date", "date"):
                return f"(Date.subDate {l} {r})", "td"
            if (tl, tr) == ("td", "td"):
                return f"({l} {'-' if sub else '+'} {r})", "td"
            if (tl, tr) == ("sec", "sec"):
                return f"({l} {'-' if sub else '+'} {r})", "sec"
            if (tl, tr) == ("date", "td"):
                return (f"(Date.subTd cfg env {l} {r})" if sub else f"(Date.add cfg env {l} {r})"), "xdate"
            raise py2lean.Untranslatable(f"date arithmetic `{key}`: {tl} {'-' if sub else '+'} {tr} is not a function of the instants")
        if isinstance(e, ast.UnaryOp) and isinstance(e.op, ast.USub):
            v, t = self.expr(e.operand)
            if t in ("td", "sec"):
                return f"(-{v})", t
        if isinstance(e, ast.Call) and isinstance(e.func, ast.Attribute) and e.func.attr == "total_seconds" and not e.args and not e.keywords:
            v, t = self.expr(e.func.value)
            if t == "td":
                return f"(tdTotalSeconds {v})", "sec"
        raise py2lean.Untranslatable(f"date arithmetic `{key}` is not understood (the span must come from the Date difference, e.g. "
                                     "`(date - self.orbit.date).total_seconds()`: the clock fields of a Date are readings in its OWN scale)")


def _stores(fn, name):
    return [n for n in ast.walk(fn) if isinstance(n, ast.Name) and n.id == name and isinstance(n.ctx, ast.Store)]


def date_head(path, qualname, prefix):
    """`delta_t` and the target date of `<qualname>` as Lean definitions `<prefix>DeltaT`, `<prefix>TdTarget`; checks that
    * the argument `date` is rebound only by `if type(date) is timedelta: date = <Date + timedelta>`,
    * `delta_t` is assigned once, from date arithmetic that `DateTr` understands,
    * the result is stamped with the requested date (`new.date = date`, once)."""
    fn = py2lean.find_function(ast.parse(open(path).read()), qualname)
    if [a.arg for a in fn.args.args] != ["self", "date"] or fn.args.vararg or fn.args.kwarg or fn.args.kwonlyargs:
        raise py2lean.Untranslatable(f"{qualname}: signature is not (self, date)")
    stmts = [st for st in fn.body if not (isinstance(st, ast.Expr) and isinstance(st.value, ast.Constant))]
    td_if = [st for st in stmts if isinstance(st, ast.If) and ast.unparse(st.test) == TD_TEST]
    if len(td_if) != 1 or stmts[0] is not td_if[0] or td_if[0].orelse or len(td_if[0].body) != 1:
        raise py2lean.Untranslatable(f"{qualname}: does not start with `if {TD_TEST}: date = …`")
    asg = td_if[0].body[0]
    if not (isinstance(asg, ast.Assign) and len(asg.targets) == 1 and isinstance(asg.targets[0], ast.Name) and asg.targets[0].id == "date"):
        raise py2lean.Untranslatable(f"{qualname}: the timedelta branch does not rebind `date`")
    target, t = DateTr({"self.orbit.date": ("epoch", "date"), "date": ("td", "td")}).expr(asg.value)
    if t != "xdate":
        raise py2lean.Untranslatable(f"{qualname}: the timedelta branch does not compute a Date")
    if len(_stores(fn, "date")) != 1:
        raise py2lean.Untranslatable(f"{qualname}: the argument `date` is rebound outside the timedelta branch")
    dts = [st for st in stmts if isinstance(st, ast.Assign) and len(st.targets) == 1 and isinstance(st.targets[0], ast.Name) and st.targets[0].id == "delta_t"]
    if len(dts) != 1 or len(_stores(fn, "delta_t")) != 1:
        raise py2lean.Untranslatable(f"{qualname}: `delta_t` is not assigned exactly once, at the top level")
    span, t = DateTr({"self.orbit.date": ("epoch", "date"), "date": ("date", "date")}).expr(dts[0].value)
    if t != "sec":
        raise py2lean.Untranslatable(f"{qualname}: `delta_t` is not a number of seconds")
    stamps = [n for n in ast.walk(fn) if isinstance(n, (ast.Assign, ast.AugAssign, ast.AnnAssign))
              for tg in (n.targets if isinstance(n, ast.Assign) else [n.target]) if isinstance(tg, ast.Attribute) and tg.attr == "date"]
    if len(stamps) != 1 or not isinstance(stamps[0], ast.Assign) or ast.unparse(stamps[0].value) != "date" or ast.unparse(stamps[0].targets[0]) != "new.date":
        raise py2lean.Untranslatable(f"{qualname}: the result is not stamped with the requested date (`new.date = date`, once)")
    return (f"/-- `{qualname}`: `delta_t = {ast.unparse(dts[0].value)}` (dates of the C03 model: any pair of scales) -/\n"
            f"def {prefix}DeltaT (date epoch : Date.Date) : R :=\n  {span}\n\n"
            f"/-- `{qualname}`: `if {TD_TEST}: date = {ast.unparse(asg.value)}` (the timedelta in whole µs) -/\n"
            f"def {prefix}TdTarget (cfg : Date.Cfg) (env : Date.Env) (epoch : Date.Date) (td : Int) : Except Date.Err Date.Date :=\n  {target}\n")


def orbit_propagate_shape():
    """`Orbit.propagate(date)` hands its argument to the propagator unchanged"""
    fn = py2lean.find_function(ast.parse(open(ORBIT_PY).read()), "Orbit.propagate")
    stmts = [st for st in fn.body if not (isinstance(st, ast.Expr) and isinstance(st.value, ast.Constant))]
    if [a.arg for a in fn.args.args] != ["self", "date"] or _stores(fn, "date") or not stmts or ast.unparse(stmts[-1]) != "return self.propagator.propagate(date)":
        raise py2lean.Untranslatable("Orbit.propagate no longer ends with `return self.propagator.propagate(date)` on the unmodified argument")


def write_generated(name, body, src, plain_imports):
    """py2lean.instantiate with number-type independent imports (verbatim, no F / R suffix)"""
    changed = []
    imp = "".join(f"import BeyondVerif.{m}\n" for m in plain_imports)
    for suffix, head, num in (("F", py2lean.HEADER_F, "import BeyondVerif.NumFloat\n"), ("R", py2lean.HEADER_R, "import BeyondVerif.NumReal\n")):
        text = head.format(src=src).replace(num, num + imp) + body + f"\nend BeyondVerif.{suffix}\n"
        if core.write_if_changed(os.path.join(core.LEAN, "BeyondVerif", "Generated", name + suffix + ".lean"), text):
            changed.append(f"Generated/{name}{suffix}.lean")
    return changed


def extract(ctx):
    from beyond import constants as K
    from harness.props import C03
    # the date model (scale graph, `_scale_*` methods, IERS tables, TDB formula) is C03's: regenerated here too, the span of a
    # propagation is computed by it
    ch0 = list(C03.extract(ctx) or [])
    consts = {"self.orbit.infos.n": "(meanMotion mu a)", "self.orbit[5]": "M", "Earth.r": "earthR", "Earth.J2": "earthJ2", "Earth.mu": "earthMu"}
    body = "/-- constants of beyond/constants.py (live module values) -/\n"
    body += f"def gravG : R := {_lit(K.G)}\n"
    body += f"def earthMass : R := {_lit(K.Earth.mass)}\n"
    body += f"def earthR : R := {_lit(K.Earth.equatorial_radius)}\n"
    body += f"def earthJ2 : R := {_lit(K.Earth.J2)}\n\n"
    body += "/-- Body.mu -/\n" + py2lean.translate_return(CONST_PY, "Body.mu", ["mass", "G"], "bodyMu", consts={"self.mass": "mass"})
    body += "def earthMu : R := bodyMu earthMass gravG\n\n"
    body += "/-- Infos.n -/\n" + py2lean.translate_return(SV_PY, "Infos.n", ["mu", "a"], "meanMotion", consts={"self.mu": "mu", "self.kep.a": "a"}) + "\n"
    body += "/-- Kepler.propagate: the new value of element 5 (M) -/\n"
    body += py2lean.translate_slice(KEPLER_PY, "Kepler.propagate", ["mu", "a", "M", "delta_t"], ["M_new"], "keplerNewM", consts=consts, target_map={"new[5]": "M_new"}) + "\n"
    body += "/-- J2.propagate: the increment `delta` of the six mean elements -/\n"
    body += py2lean.translate_slice(J2_PY, "J2.propagate", ["mu", "a", "e", "i", "delta_t"], ["delta"], "j2Delta", consts=consts) + "\n"
    # leo.sso: earth rotation rate around the sun, the constant and the cosine of the sun-synchronous inclination
    sso_consts = {"Earth.r": "earthR", "Earth.J2": "earthJ2", "Earth.mu": "earthMu"}
    body += "/-- leo.sso: ω_e, cst -/\n"
    body += py2lean.translate_slice(LEO_PY, "sso", [], ["ω_e"], "ssoOmegaE", consts=sso_consts) + "\n"
    body += py2lean.translate_slice(LEO_PY, "sso", [], ["cst"], "ssoCst", consts=sso_consts) + "\n"
    body += "/-- leo.sso(a=a, e=e): the cosine of the returned inclination -/\n"
    body += py2lean.translate_return(LEO_PY, "sso", ["a", "e"], "ssoCosI", consts={"ω_e": "ssoOmegaE", "cst": "ssoCst"}, select=_sso_select) + "\n"
    body += to_cart_chain(ast.parse(open(FORMS_PY).read())) + "\n"
    # delta_t and the target date, from the head of both propagate() methods
    orbit_propagate_shape()
    body += "/-- `timedelta.total_seconds()` (the timedelta in whole microseconds) -/\ndef tdTotalSeconds (us : Int) : R := ofInt us / 1000000\n\n"
    body += date_head(KEPLER_PY, "Kepler.propagate", "kepler") + "\n"
    body += date_head(J2_PY, "J2.propagate", "j2") + "\n"
    ch = write_generated("Propag", body, "beyond/propagators/kepler.py, j2.py, orbits/statevector.py (Infos.n), constants.py, utils/leo.py (sso)",
                         ["Model.Date"])
    ch += instantiate.main()
    return ch0 + ch



# ---------------------------------------------------------------- dates: scales, Earth-orientation environments, instants

SCALES = ["UTC", "TAI", "TT", "GPS", "UT1", "TDB"]
UNIFORM = ("UTC", "TAI", "TT", "GPS")      # whole-microsecond offsets between them
CONST = ("TAI", "TT", "GPS")               # constant offset to the reference scale TAI
ENVS = ["zero", "mock", "real"]
DAY_US = 86400 * 10**6
MOCK_TAI_UTC_US = 36 * 10**6
MOCK_UT1_UTC_TICKS = 175602                # 0.0175602 s
EPOCH0_US = None                           # clock reading of the legacy epoch 2020-05-24T03:07:11, set lazily


def D3():
    from harness.props import C03
    return C03


class _ZeroDb:
    """no Earth-orientation data at all: every lookup misses (missing-data policy `pass` gives zeros)"""

    def __getitem__(self, mjd):
        raise KeyError(mjd)


class _MockDb:
    """the same record for every date (the values of the library's own test fixture)"""

    def __getitem__(self, mjd):
        from beyond.dates.eop import Eop
        return Eop(x=-0.00951054166666622, y=0.31093590624999734, dpsi=-94.19544791666682, deps=-10.295645833333051, dy=-0.10067361111115315,
                   dx=-0.06829513888889051, lod=1.6242802083331438, ut1_utc=MOCK_UT1_UTC_TICKS / 1e7, tai_utc=MOCK_TAI_UTC_US / 1e6)


_env_state = {"mode": None}


def set_env(mode):
    """select the Earth-orientation environment through the public configuration (`eop.dbname`, `eop.folder`, plug-in databases
    registered with `EopDb.register`)"""
    import logging
    from beyond.config import config
    from beyond.dates.eop import EopDb
    if _env_state["mode"] is None:
        EopDb._load_entry_points()
        for name, klass in (("c05zero", _ZeroDb), ("c05mock", _MockDb)):
            if name not in EopDb._dbs:
                EopDb.register(klass, name)
        log = logging.getLogger("beyond.dates.eop")
        if not any(isinstance(h, logging.NullHandler) for h in log.handlers):
            log.addHandler(logging.NullHandler())
        log.propagate = False
    if _env_state["mode"] == mode:
        return
    config.update({"eop": {"folder": D3().pole_dir(), "type": "all", "missing_policy": "pass",
                           "dbname": {"zero": "c05zero", "mock": "c05mock", "real": EopDb.DEFAULT_DBNAME}[mode]}})
    if mode == "real" and isinstance(EopDb._dbs.get(EopDb.DEFAULT_DBNAME), Exception):
        from beyond.dates import eop
        EopDb._dbs[EopDb.DEFAULT_DBNAME] = eop.SimpleEopDatabase      # drop a cached failed instantiation
    _env_state["mode"] = mode


def warm_envs():
    """load the real database and the harness's own tables once, outside every per-call watchdog; leave the ambient environment"""
    from beyond.dates.eop import EopDb
    set_env("real")
    EopDb.db()
    D3().tables()
    epoch0_us()
    set_env("zero")
    if not _env_state.get("bodies"):
        from beyond.env import solarsystem
        for name in OTHER_BODIES:
            solarsystem.get_frame(name)          # registers the frame under its name
        _env_state["bodies"] = True


class eop_env:
    """run a block in one Earth-orientation environment; the ambient environment of this module is `zero`"""

    def __init__(self, mode):
        self.mode = mode

    def __enter__(self):
        set_env(self.mode)

    def __exit__(self, *a):
        set_env("zero")
        return False


def env_token(env):
    return f"mock:{MOCK_TAI_UTC_US * 10}:{MOCK_UT1_UTC_TICKS}" if env == "mock" else env


def epoch0_us():
    global EPOCH0_US
    if EPOCH0_US is None:
        import datetime as _dt
        EPOCH0_US = D3().us_of(_dt.datetime(2020, 5, 24, 3, 7, 11))
    return EPOCH0_US


def minus_tai_us(scale, us, env):
    """clock(scale) - clock(TAI), microseconds (a float for UT1 / TDB), for the clock reading `us` of that scale — from the defining
    constants (32.184 s, 19 s), the IERS files read by the harness's own column parser (C03.tables) and the documented TDB formula;
    never from the library"""
    if scale == "TAI":
        return 0
    if scale == "TT":
        return 32184000
    if scale == "GPS":
        return -19000000
    if scale == "TDB":
        return 32184000 + D3().tdb_minus_tt_ref(us / DAY_US) * 1e6
    tai_utc = ut1_utc = 0
    if env == "mock":
        tai_utc, ut1_utc = MOCK_TAI_UTC_US, MOCK_UT1_UTC_TICKS / 10
    elif env == "real":
        leap, ut1, first, last = D3().tables()
        day = us // DAY_US
        if day in ut1:          # a missing day gives an all-zero record (policy `pass`)
            tai_utc, ut1_utc = (D3().leap_at(day) or 0) // 10, ut1[day] / 10
    return -tai_utc + (ut1_utc if scale == "UT1" else 0)


def inst_us(scale, us, env):
    """the instant (microseconds on TAI) of the clock reading `us` in `scale`"""
    return us - minus_tai_us(scale, us, env)


def reading_at(scale, inst, env):
    """whole-microsecond clock reading in `scale` of the instant `inst` (microseconds on TAI)"""
    r = inst
    for _ in range(3):
        r = inst + minus_tai_us(scale, round(r), env)
    return round(r)


def date_ok(scale, us, env):
    """a clock reading the property speaks about: outside the 2-minute windows around leap seconds (where UTC-like readings are
    ambiguous) and, for UT1 with real data, not within seconds of midnight (UT1-UTC is applied as a step function of the day: C03's
    open finding ut1-step-at-utc-midnight); with real data inside the IERS tables"""
    if env != "real":
        return True
    _, _, first, last = D3().tables()
    day = us // DAY_US
    if not (first + 2 <= day <= last - 2):
        return False
    if D3().in_leap_window(scale, us):
        return False
    if scale == "UT1" and min(us % DAY_US, DAY_US - us % DAY_US) < 5 * 10**6:
        return False
    return True


def leap_between(env, i1, i2):
    """a leap second lies between two instants (microseconds on TAI), with a 3-minute margin"""
    if env != "real":
        return False
    lo, hi = min(i1, i2), max(i1, i2)
    return any(lo - 240 * 10**6 <= ld * DAY_US <= hi + 240 * 10**6 for ld in D3().leap_days())


def mkdate(scale, us):
    return D3().mkdate(us, scale)


def date_reading(d):
    """(scale name, clock reading in microseconds) of a real Date, through its public attributes"""
    return d.scale.name, D3().us_of(d.datetime)


def gen_epoch(rng, scale, env, dt=0.0):
    """clock reading of an epoch in `scale`; with real data one third of the epochs are placed so that a span of `dt` seconds
    crosses a leap second"""
    while True:
        if env == "real":
            if rng.random() < 0.35 and abs(dt) > 400:
                ld = rng.choice([d for d in D3().leap_days() if D3().tables()[2] + 40 <= d <= D3().tables()[3] - 40])
                x = rng.uniform(130, abs(dt) - 130) if abs(dt) > 270 else 135.0
                us = ld * DAY_US + round((-x if dt > 0 else x) * 1e6)
            else:
                _, _, first, last = D3().tables()
                us = rng.randint(first + 40, last - 40) * DAY_US + rng.randrange(DAY_US)
        else:
            us = epoch0_us() + rng.randint(-3000, 600) * DAY_US + rng.randrange(DAY_US)
        if date_ok(scale, us, env):
            return us

# ---------------------------------------------------------------- generators

ELL_FORMS = ["cartesian", "keplerian", "keplerian_mean", "keplerian_eccentric", "keplerian_circular", "keplerian_mean_circular",
             "equinoctial", "spherical", "cylindrical", "tle"]
HYP_FORMS = ["cartesian", "keplerian", "keplerian_mean", "keplerian_eccentric", "keplerian_circular", "equinoctial", "spherical", "cylindrical"]
FRAMES = ["EME2000", "EME2000", "GCRF", "MOD", "TOD"]
# a second and a third attracting body (another mu): the analytical Moon / Sun frames of beyond.env.solarsystem; Kepler only (the J2
# propagator carries the Earth's J2 and radius whatever the centre)
OTHER_BODIES = {"Moon": 0.3, "Sun": 3000.0}      # frame name -> factor on the perigee radius drawn for an Earth orbit
KEPLER_FRAMES = FRAMES + FRAMES + ["Moon", "Moon", "Sun"]


def rescale(elts, frame):
    """the same shape of orbit around another body: lengths scaled to the size of that body's neighbourhood"""
    k = OTHER_BODIES.get(frame)
    return elts if k is None else [elts[0] * k] + list(elts[1:])


def q(x, step=1e-3):
    """quantise a time to a multiple of 1 ms so that timedelta (µs) represents it exactly"""
    return round(x / step) * step


def gen_elts(rng, conic):
    """mean elements [a, e, i, Ω, ω, M]"""
    rp = rng.uniform(6.6e6, 5.0e7) if rng.random() < 0.7 else rng.uniform(6.6e6, 8.0e6)
    if conic == "ell":
        e = math.exp(rng.uniform(math.log(1e-4), math.log(0.95))) if rng.random() < 0.5 else rng.uniform(1e-4, 0.95)
        a = rp / (1 - e)
        M = rng.uniform(0, TWO_PI)
    else:
        e = 1 + math.exp(rng.uniform(math.log(0.01), math.log(9.0))) if rng.random() < 0.5 else rng.uniform(1.01, 10.0)
        a = -rp / (e - 1)
        M = rng.uniform(-4, 4)
    i = gen_inclination(rng)
    ang = [rng.uniform(0, TWO_PI), rng.uniform(0, TWO_PI)]
    if rng.random() < 0.06:
        # node / perigee / anomaly exactly on an axis (multiples of pi/2: h_x = 0 or h_y = 0, satellite on / across the node line)
        ang[rng.randrange(2)] = rng.randrange(4) * math.pi / 2
        if rng.random() < 0.5:
            M = rng.randrange(4) * math.pi / 2 if conic == "ell" else 0.0
    return [a, e, i, ang[0], ang[1], M]


SIN_I_MIN = 1e-5      # quasi-equatorial orbits are generated down to sin i = 1e-5 (0.0006 deg from the equator), prograde AND retrograde


def gen_inclination(rng):
    """the whole range 0 < i < pi: 78 % ordinary inclinations, 22 % QUASI-EQUATORIAL ones — sin i log-uniform in [1e-5, 5e-2] on
    either side (i -> 0 prograde, i -> pi retrograde), where `Form._cartesian_to_keplerian` divides by sin i and every guard a
    maintainer may put on `sin(i)` has its other side.  (Below sin i ~ 2e-6 the cartesian way in loses more than the property's
    1e-5: see ill_conditioning; the exactly equatorial state is probed by `equatorial_case`.)"""
    if rng.random() < 0.78:
        return rng.uniform(0.05, math.pi - 0.05)
    s = 10 ** rng.uniform(math.log10(SIN_I_MIN), math.log10(0.05))
    return s if rng.random() < 0.5 else math.pi - s


VIA_CARTESIAN = ("cartesian", "spherical", "cylindrical")     # forms whose way to keplerian_mean passes through cartesian -> keplerian


def ill_conditioning(i):
    """relative error of a state that went through `Form._cartesian_to_keplerian` and back: the inclination comes from
    arccos(h_z / |h|) (absolute error 1e-16 / sin i) and the argument of latitude from arctan2(z / sin i, r.n), whose first argument
    inherits the RELATIVE error 1e-16 / sin^2 i of sin i, an error that the node does not compensate.  Observed on the unchanged
    code over 3000 orbits with sin i in [1e-8, 1e-1]: <= 5.5e-17 / sin^2 i for every form, conic and side; allowed: 4e-16 / sin^2 i
    (4e-6 at sin i = 1e-5, inside the property's 1e-5; 1.6e-13 at sin i = 0.05)."""
    return 4e-16 / math.sin(i) ** 2


def gen_dt(rng):
    u = rng.random()
    if u < 0.6:
        return q(rng.uniform(-30, 30) * DAY)
    if u < 0.8:
        return q(rng.uniform(-1, 1) * DAY)
    if u < 0.9:
        return q(rng.uniform(-600, 600))
    return rng.choice([30 * DAY, -30 * DAY, 0.0, 0.001, -0.001])


def make(elts, form, frame, propagator, epoch=None):
    """Orbit given in `form` (coordinates obtained from the mean elements by the library's own conversion); `epoch`: a Date in
    any scale (default: 2020-05-24T03:07:11 UTC)"""
    from beyond.orbits import Orbit, StateVector
    from beyond.dates import Date
    d0 = Date(2020, 5, 24, 3, 7, 11) if epoch is None else epoch
    sv = StateVector(elts, d0, "keplerian_mean", frame)
    coords = [float(v) for v in sv.copy(form=form)]
    return Orbit(coords, d0, form, frame, propagator), d0


def mean_of(orb):
    m = orb.copy(form="keplerian_mean")
    return [float(v) for v in m]


def to_cart(elts, date, frame):
    from beyond.orbits import StateVector
    return [float(v) for v in StateVector(elts, date, "keplerian_mean", frame).copy(form="cartesian")]


def finite(v):
    return all(math.isfinite(float(x)) for x in v)


def m2e_start(e, M):
    """the Newton start value of Form.M2E (hyperbolic branch), to classify overflow"""
    if e < 1.6:
        return M - e if (-math.pi < M < 0 or M > math.pi) else M + e
    if e < 3.6 and abs(M) > math.pi:
        return M - math.copysign(e, M)
    return M / (e - 1)


def mean_motion(mu, a):
    return math.sqrt(mu / abs(a) ** 3)



def m2e_iters(e, M, cap=100000, reduce=True):
    """number of passes of the Newton loop of Form.M2E (harness-side mirror, used ONLY to select inputs on which the
    loop runs long — never as an expected value)"""
    if e < 1:
        if reduce:
            M = M - TWO_PI * math.floor((M + math.pi) / TWO_PI)
        X = M - e if (-math.pi < M < 0 or M > math.pi) else M + e
        nx = lambda E: E + (M - E + e * math.sin(E)) / (1 - e * math.cos(E))
    else:
        X = m2e_start(e, M)
        if abs(X) > 30:
            X = math.copysign(math.log(2 * abs(M) / e + 1.8), M)
        nx = lambda H: H + (M - e * math.sinh(H) + H) / (e * math.cosh(H) - 1)
    try:
        X1 = nx(X)
        k = 0
        while abs(X1 - X) >= 1e-8 and k < cap:
            X, X1 = X1, nx(X1)
            k += 1
        return k
    except (OverflowError, ZeroDivisionError):
        return -1


def slow_m2e_inputs(rng, ncand, ntop):
    """Kepler inputs on which Form.M2E needs the most Newton passes: candidates from the whole domain, biased towards
    e -> 0.95 and e -> 1+ and to several revolutions / far from perigee, ranked by the pass count of the mirror loop;
    the `ntop` slowest plus a few of the moderately slow ones"""
    cands = []
    for _ in range(ncand):
        conic = "ell" if rng.random() < 0.7 else "hyp"
        elts = gen_elts(rng, conic)
        if conic == "ell" and rng.random() < 0.8:
            elts[1] = rng.uniform(0.6, 0.95)
            elts[0] = rng.uniform(6.6e6, 9e6) / (1 - elts[1])
        dt = q(rng.uniform(-30, 30) * DAY)
        Mn = elts[5] + mean_motion(3.986009368e14, elts[0]) * dt
        # ranked by the slower of: the loop as the code runs it now (anomaly reduced), and the loop on the unreduced anomaly
        cands.append((max(m2e_iters(elts[1], Mn, cap=2000), m2e_iters(elts[1], Mn, cap=2000, reduce=False)), elts, dt))
    cands.sort(key=lambda c: -c[0])
    pick = cands[:ntop] + rng.sample(cands[ntop:ntop * 20], min(ntop // 2, len(cands[ntop:ntop * 20])))
    out = []
    for its, elts, dt in pick:
        conic = "ell" if elts[1] < 1 else "hyp"
        t1 = q(rng.uniform(-1, 1) * abs(dt))
        out.append({"propagator": "Kepler", "form": rng.choice(ELL_FORMS if conic == "ell" else HYP_FORMS), "frame": rng.choice(FRAMES),
                    "mean_elements": elts, "dt": dt, "t1": t1, "t2": q(dt - t1), "periods": 1, "m2e_passes": its})
    return out


def gen_history_input(rng, prop, k=0):
    """one Orbit object, one propagator object: propagations (timedelta, date in the epoch's scale, date in another scale)
    interleaved with in-place modifications of the orbit (element, velocity, form, epoch shifted, epoch RELABELLED in another scale);
    two thirds of the histories live in the legacy setting (UTC epoch, no Earth-orientation data), one third in a drawn environment
    with the epoch in a drawn scale"""
    conic = "ell" if (prop == "J2" or rng.random() < 0.7) else "hyp"
    elts = gen_elts(rng, conic)
    if conic == "hyp":
        elts[1] = max(elts[1], 1.05)
    else:
        elts[1] = min(elts[1], 0.9)
    forms = ELL_FORMS if conic == "ell" else HYP_FORMS
    dated = k % 3 == 1
    pkinds = ["P", "P", "Pabs", "Pdate", "Pdate"] if dated else ["P", "P", "Pabs", "Pdate"]
    mkinds = ["elem", "elem", "scale_v", "form", "date", "none", "relabel"] + (["relabel"] if dated else [])

    def pstep():
        kind = rng.choice(pkinds)
        dt = q(rng.uniform(-3, 3) * DAY) if rng.random() < 0.8 else 0.0
        return (kind, dt, rng.choice(SCALES)) if kind == "Pdate" else (kind, dt)
    steps = [pstep()]
    for _ in range(rng.choice([1, 1, 2, 3])):
        kind = rng.choice(mkinds)
        if kind == "elem":
            steps.append(("elem", rng.randrange(6), 1 + rng.choice([-1, 1]) * rng.uniform(1e-3, 3e-3)))
        elif kind == "scale_v":
            steps.append(("scale_v", 1 + rng.choice([-1, 1]) * rng.uniform(1e-3, 3e-3)))
        elif kind == "form":
            steps.append(("form", rng.choice(forms)))
        elif kind == "date":
            steps.append(("date", q(rng.uniform(-1, 1) * DAY)))
        elif kind == "relabel":
            steps.append(("relabel", rng.choice(SCALES)))
        steps.append(pstep())
    frame = rng.choice(KEPLER_FRAMES if prop == "Kepler" else FRAMES)
    inp = {"propagator": prop, "form": rng.choice(forms), "frame": frame, "mean_elements": rescale(elts, frame), "steps": steps}
    if dated:
        env = rng.choice(ENVS)
        sE = rng.choice(SCALES)
        inp.update(env=env, epoch=[sE, gen_epoch(rng, sE, env, rng.choice([-2, 2]) * DAY)])
    return inp



def gen_single_dated(rng, k):
    """one propagation with the dates handed in as `Date`s (a one-step history): propagator x environment x scale of the epoch x
    scale of the target run through all 2 x 3 x 6 x 6 combinations with `k`; every seventh target is a timedelta"""
    prop = "Kepler" if k % 2 == 0 else "J2"
    env = ENVS[(k // 2) % 3]
    pair = (k // 6) % 36
    sE, sT = SCALES[pair // 6], SCALES[pair % 6]
    conic = "ell" if (prop == "J2" or rng.random() < 0.6) else "hyp"
    elts = gen_elts(rng, conic)
    if conic == "hyp":
        elts[1] = max(elts[1], 1.02)
    dt = gen_dt(rng)
    step = ("P", dt) if k % 7 == 6 else ("Pdate", dt, sT)
    return {"propagator": prop, "form": rng.choice(ELL_FORMS if conic == "ell" else HYP_FORMS), "frame": rng.choice(FRAMES), "mean_elements": elts,
            "steps": [step], "env": env, "epoch": [sE, gen_epoch(rng, sE, env, dt)]}


def run_history(inp):
    """execute a history on the real API.  For every propagation: the result, the result of a FRESH orbit (new Orbit object,
    new propagator object) built from the coordinates and the epoch the orbit has at that moment, the mean elements of that
    state (computed on a copy, the propagator is not touched), the epoch (scale, clock reading) and the argument."""
    from beyond.orbits import Orbit
    from beyond.dates import timedelta
    prop = inp["propagator"]
    H = Handing(inp)
    env = H.env
    orb, d0 = make(inp["mean_elements"], inp["form"], inp["frame"], prop, H.epoch_date())
    recs = []
    changed = True
    for st in inp["steps"]:
        if st[0] in ("P", "Pabs", "Pdate"):
            dt = st[1]
            sc, us = date_reading(orb.date)
            inst = inst_us(sc, us, env)
            if st[0] == "P":
                arg, target = timedelta(seconds=dt), ["T", round(dt * 1e6)]
                if not date_ok(sc, us + round(dt * 1e6), env):
                    continue
            else:
                # a Date: in the epoch's own scale (`orb.date + timedelta`, as before), or the instant `dt` later in a drawn scale
                if st[0] == "Pabs":
                    arg = orb.date + timedelta(seconds=dt)
                else:
                    how = st[2] if date_ok(st[2], reading_at(st[2], inst + round(dt * 1e6), env), env) else "TAI"
                    arg = mkdate(how, reading_at(how, inst + round(dt * 1e6), env))
                if not date_ok(*date_reading(arg), env):
                    continue
                target = ["D"] + list(date_reading(arg))
            snap = ([float(v) for v in orb], orb.date, orb.form.name)
            x = [float(v) for v in Orbit(snap[0], snap[1], snap[2], inp["frame"], prop).copy(form="keplerian_mean")]
            fresh_orb = Orbit(snap[0], snap[1], snap[2], inp["frame"], prop)
            fresh = fresh_orb.propagate(arg)
            res = orb.propagate(arg)
            want = arg if st[0] != "P" else snap[1] + timedelta(seconds=dt)
            recs.append({"impl": [float(v) for v in res], "fresh": [float(v) for v in fresh], "mean": x, "dt": dt, "epoch": [sc, us], "target": target,
                         "date_ok": res.date == want,
                         "span_us": D3().td_us(res.date - snap[1]), "stamp": list(date_reading(res.date)), "after_change": changed})
            changed = False
        elif st[0] == "elem":
            orb[st[1]] = float(orb[st[1]]) * st[2]
            changed = True
        elif st[0] == "scale_v":
            if orb.form.name == "cartesian":
                orb[3:] = [float(v) * st[1] for v in orb[3:]]
            else:
                orb[0] = float(orb[0]) * st[1]
            changed = True
        elif st[0] == "form":
            orb.form = st[1]
            changed = True
        elif st[0] == "date":
            new = orb.date + timedelta(seconds=st[1])
            if date_ok(*date_reading(new), env):
                orb.date = new
                changed = True
        elif st[0] == "relabel":
            # the same instant, labelled in another scale (clock reading from the harness's own offsets)
            sc, us = date_reading(orb.date)
            r = reading_at(st[1], inst_us(sc, us, env), env)
            if date_ok(st[1], r, env):
                orb.date = mkdate(st[1], r)
                changed = True
    return recs


# ---------------------------------------------------------------- correspondence

def parse_cart(tok):
    """one `|`-separated field of a reply: six floats, or the token `fuel`"""
    tok = tok.strip()
    if tok in ("fuel", "bad-op") or not tok:
        return tok or "bad-op"
    return [b2f(x) for x in tok.split()]


def cart_differs(impl, exp, rt):
    sp = math.sqrt(sum(v * v for v in exp[:3]))
    sv = math.sqrt(sum(v * v for v in exp[3:]))
    return [j for j in range(6) if abs(impl[j] - exp[j]) > rt * (sp if j < 3 else sv)]


def correspondence(ctx):
    from beyond.dates import timedelta
    from beyond import constants as K
    out = Outcome()
    rng = ctx.rng
    warm_envs()
    reqs, meta = [], []
    # constants as regenerated
    reqs.append("c05const")
    meta.append(("const", [K.G, K.Earth.mass, K.Earth.mu, K.Earth.r, K.Earth.J2], None, None))
    out.count(key="c05const", kind="constants")
    # leo.sso(a=a, e=e) against the translated cosine (the formula of theorem j2_node_rate_eq_sso)
    from beyond.utils.leo import sso
    for _ in range(ctx.n(100, 2000)):
        e = rng.uniform(0, 0.1)
        a = rng.uniform(6.6e6, 8.0e6) / (1 - e)
        with _quiet():
            inc = float(sso(a=a, e=e))
        reqs.append(" ".join(["c05sso", f2b(a), f2b(e)]))
        meta.append(("sso", [math.cos(inc), TWO_PI / 365.256363004 / 86400], None, {"a": a, "e": e}))
        out.count(key=reqs[-1], kind="sso")
    # single propagations: random cases, and the Kepler inputs on which the Newton loop of M2E runs longest
    cases = []
    N = ctx.n(3000, 50000)
    for k in range(N):
        prop = "Kepler" if k % 2 == 0 else "J2"
        conic = "ell" if (rng.random() < 0.55 or (prop == "J2" and rng.random() < 0.8)) else "hyp"
        frame = rng.choice(KEPLER_FRAMES)        # the model is given mu: any centre, both propagators
        elts = rescale(gen_elts(rng, conic), frame)
        if rng.random() < 0.05:
            elts[2] = rng.choice([math.pi / 2, math.asin(math.sqrt(0.8)), math.pi - math.asin(math.sqrt(0.8))])
        cases.append((prop, conic, elts, rng.choice(ELL_FORMS if conic == "ell" else HYP_FORMS), frame, gen_dt(rng), "random", None))
    for inp in slow_m2e_inputs(rng, ctx.n(20000, 200000), ctx.n(60, 600)):
        conic = "ell" if inp["mean_elements"][1] < 1 else "hyp"
        cases.append(("Kepler", conic, inp["mean_elements"], inp["form"], inp["frame"], inp["dt"], "slow-m2e", inp["m2e_passes"]))
    for inp in PINNED:
        cases.append(("Kepler", "ell", inp["mean_elements"], inp["form"], inp["frame"], inp["dt"], "pinned", None))
    ncart = 0
    for prop, conic, elts, form, frame, dt, tag, passes in cases:
        orb, d0 = make(elts, form, frame, prop)
        date = d0 + timedelta(seconds=dt)
        dt_code = (date - d0).total_seconds()
        x0 = mean_of(orb)                      # what the orbit setter of the propagator computes
        mu = float(orb.frame.center.body.mu)
        try:
            with _quiet(), time_limit():
                impl = [float(v) for v in orb.propagate(date)]
        except NoReturn as ex:
            impl = "no-return:" + no_return_family(ex)
        reqs.append(" ".join([prop.lower(), f2b(mu)] + [f2b(v) for v in x0] + [f2b(dt_code)]))
        n = mean_motion(mu, x0[0]) if finite(x0) and x0[0] != 0 else float("nan")
        meta.append((prop, impl, (date, frame, n, dt_code, conic), {"propagator": prop, "form": form, "frame": frame, "mean_elements": elts, "dt": dt, "class": tag}))
        out.count(key=reqs[-1], nontrivial=dt != 0, kind=f"{prop}-{conic}", form=form, sign="dt<0" if dt < 0 else "dt>=0",
                  span="|dt|>1d" if abs(dt) > DAY else "|dt|<=1d", cls=tag, centre=frame if frame in OTHER_BODIES else "Earth")
        if passes is not None:
            out.tally("m2e-passes=" + ("<=20" if passes <= 20 else "21-50" if passes <= 50 else "51-100" if passes <= 100 else ">100"))
        if abs(dt_code - dt) > 1e-9:
            out.fail("date-difference", "(date - orbit.date).total_seconds() differs from the requested interval", {"dt": dt}, observed=dt_code, expected=dt)
        # the whole of Orbit.propagate on a CARTESIAN orbit in the model: the setter's way in (cartesian -> keplerian -> eccentric ->
        # mean, translated from forms.py), the update, the way out.  Every cartesian case, and every third of the others rebuilt in
        # cartesian form.
        ncart += 1
        if not isinstance(impl, str) and (form == "cartesian" or ncart % 3 == 0):
            try:
                with _quiet(), time_limit():
                    orbc = orb if form == "cartesian" else make(elts, "cartesian", frame, prop)[0]
                    implc = impl if form == "cartesian" else [float(v) for v in orbc.propagate(date)]
                    xc = mean_of(orbc)
                c0 = [float(v) for v in orbc]
                reqs.append(" ".join(["propc", prop.lower(), f2b(mu)] + [f2b(v) for v in c0] + [f2b(dt_code)]))
                meta.append(("propc", implc, (n, dt_code, conic, xc), {"propagator": prop, "form": "cartesian", "frame": frame, "mean_elements": elts, "dt": dt,
                                                                   "class": tag, "cartesian": c0}))
                out.count(key=reqs[-1], nontrivial=dt != 0, kind=f"cartesian-in-out-{prop}-{conic}", cls=tag)
            except NoReturn:
                out.tally("cartesian-in-out=no-return (skipped)")
    # histories on one Orbit object / one propagator object, and single propagations with the dates handed in as `Date`s
    # (epoch and target in every pair of scales, every Earth-orientation environment): the model computes the span from the dates
    hists = [(gen_history_input(rng, "Kepler" if k % 3 != 2 else "J2", k), "history") for k in range(ctx.n(250, 4000))]
    hists += [(gen_single_dated(rng, k), "dated") for k in range(216 * ctx.n(3, 40))]
    for inp, cls in hists:
        prop, env = inp["propagator"], inp.get("env", "zero")
        try:
            with _quiet(), time_limit(6.0), eop_env(env):
                recs = run_history(inp)
                orb, _ = make(inp["mean_elements"], inp["form"], inp["frame"], prop, Handing(inp).epoch_date())
        except NoReturn:
            out.tally("history=no-return (skipped)")
            continue
        mu = float(orb.frame.center.body.mu)
        toks = ["histd", prop.lower(), env_token(env), f2b(mu)]
        for r in recs:
            toks += ["S"] + [f2b(v) for v in r["mean"]] + ["E", r["epoch"][0], str(r["epoch"][1])] + [str(t) for t in r["target"]]
        reqs.append(" ".join(toks))
        meta.append(("hist", recs, mu, inp))
        out.count(key=reqs[-1], kind=f"{cls}-{prop}", propagations=len(recs), env=env,
                  modified=sum(1 for st in inp["steps"] if st[0] not in ("P", "Pabs", "Pdate")))
        for r in recs:
            out.tally("scales=" + r["epoch"][0] + ">" + (r["target"][1] if r["target"][0] == "D" else "timedelta"))
            if leap_between(env, inst_us(*r["epoch"], env), inst_us(*r["epoch"], env) + r["span_us"]):
                out.tally("span=crosses-a-leap-second:" + (r["target"][1] if r["target"][0] == "D" else "timedelta"))
    replies = core.Driver(ID).run(reqs)
    with _quiet():
        for req, (kind, impl, aux, inp), rep in zip(reqs, meta, replies):
            if rep == "bad-op":
                out.fail("c05-model-reject", "model rejected the request", inp, observed=str(impl)[:300], expected=rep)
                continue
            if kind == "const":
                model = [b2f(x) for x in rep.split()]
                if not all(core.close(a, b, rtol=1e-15) for a, b in zip(impl, model)):
                    out.fail("c05-constants", "regenerated constants differ from beyond.constants", "c05const", observed=impl, expected=model)
                out.sample({"request": req, "impl": impl, "model": model})
                continue
            if kind == "sso":
                model = [b2f(x) for x in rep.split()]
                if not all(core.close(x, y, rtol=1e-12, atol=1e-15) for x, y in zip(impl, model)):
                    out.fail("c05-sso", "cos(leo.sso(a, e)) differs from the translated formula", inp, observed=impl, expected=model)
                continue
            if kind == "propc":
                n, dt, conic, xc = aux
                parts = rep.split("|")
                mel = [b2f(x) for x in parts[0].split()]
                mcart = parse_cart(parts[1]) if len(parts) > 1 else "bad-op"
                if len(mel) != 6:
                    out.fail("c05-cartesian-in-out-shape", "the model's orbit setter did not return six elements", inp, observed=xc, expected=rep[:80])
                    continue
                # the setter: mean elements from the cartesian coordinates (angles mod 2 pi; conditioning of the element set)
                if finite(xc) and finite(mel):
                    e = xc[1]
                    cond = 1 / min(e, abs(e - 1), 1.0) if e > 0 else 1e16
                    si = max(abs(math.sin(xc[2])), 1e-12)
                    bad = None
                    if abs(mel[0] / xc[0] - 1) > 1e-9 * cond: bad = "a"
                    elif abs(mel[1] - xc[1]) > 1e-9 * max(1, e) * cond: bad = "e"
                    elif abs(mel[2] - xc[2]) > 1e-9 / si: bad = "i"
                    elif angdiff(mel[3], xc[3]) > 1e-9 / si: bad = "raan"
                    elif angdiff(mel[4], xc[4]) > 1e-9 * cond / min(e, 1.0) / si: bad = "argp"
                    elif (angdiff(mel[5], xc[5]) if conic == "ell" else abs(mel[5] - xc[5]) / max(1.0, abs(xc[5]))) > 1e-9 * cond / min(e, 1.0) / si: bad = "M"
                    if bad:
                        out.fail(f"c05-setter-{bad}-{conic}", f"element {bad} computed by the orbit setter from a cartesian orbit differs from the Lean model "
                                 "(cartesian -> keplerian -> eccentric -> mean translated from forms.py)", inp, observed=xc, expected=mel)
                        continue
                elif finite(xc) != finite(mel):
                    out.fail("c05-setter-finiteness", "one of implementation / model computes non-finite mean elements from the cartesian orbit", inp, observed=xc, expected=mel)
                    continue
                if not isinstance(mcart, list):
                    if finite(impl):
                        out.fail(f"c05-cartesian-in-out-fuel", "the model's M2E loop did not exit within 10^4 passes", inp, observed=impl, expected=mcart)
                    continue
                if finite(impl) != finite(mcart):
                    out.fail(f"c05-cartesian-in-out-finiteness", "one of implementation / model is non-finite", inp, observed=impl, expected=mcart)
                    continue
                if finite(impl):
                    bad = cart_differs(impl, mcart, 1e-9 * (1 + (n * abs(dt) if math.isfinite(n) else 0)) + ill_conditioning(xc[2]))
                    if bad:
                        out.fail(f"c05-cartesian-in-out-{inp['propagator']}-{conic}", f"component {bad[0]} of Orbit.propagate on a cartesian orbit differs from the Lean model of the whole "
                                 "call (setter: cartesian -> mean; update; mean -> cartesian)", inp, observed=impl, expected=mcart)
                continue
            if kind == "hist":
                fields = [t.strip() for t in rep.split("|")] if rep.strip() else []
                if len(fields) != len(impl) or any(f.startswith("err") for f in fields):
                    out.fail("c05-history-shape", "model returned a different number of propagations / rejected a date", inp, observed=len(impl), expected=fields[-1:] or rep)
                    continue
                for idx, (r, fld) in enumerate(zip(impl, fields)):
                    mc = parse_cart(fld.split("@")[0])
                    info = fld.split("@")[1].split() if "@" in fld else []
                    if mc == "fuel" or not isinstance(mc, list) or len(info) != 3:
                        out.fail("c05-history-fuel", "the model's M2E loop did not exit", inp, observed=r["impl"], expected=fld[:80])
                        break
                    # the dates: span `result.date - epoch` and the scale the result is stamped with
                    sE, how = r["epoch"][0], (r["target"][1] if r["target"][0] == "D" else r["epoch"][0])
                    exact = sE in UNIFORM and how in UNIFORM
                    if abs(int(info[0]) - r["span_us"]) > (0 if exact else 2) or info[2] != r["stamp"][0]:
                        out.fail(f"c05-span-{inp['propagator']}", f"propagation #{idx}: the date the result carries (its distance to the epoch, its scale) differs from the "
                                 "date model", inp, observed=[r["span_us"], r["stamp"][0]], expected=[int(info[0]), info[2]], propagation=idx)
                        break
                    if not finite(r["impl"]) or not finite(mc):
                        if finite(r["impl"]) != finite(mc):
                            out.fail("c05-history-finiteness", "one of implementation / model is non-finite", inp, observed=r["impl"], expected=mc)
                            break
                        continue
                    n = mean_motion(aux, r["mean"][0])
                    e = r["mean"][1]
                    slack = 0.0 if exact else n * 3e-6 * math.sqrt(1 + e) / max(abs(1 - e), 1e-3) ** 1.5
                    if cart_differs(r["impl"], mc, 1e-9 * (1 + n * abs(r["span_us"]) * 1e-6) + slack):
                        out.fail(f"c05-history-{inp['propagator']}" + (":dates" if "epoch" in inp or r["target"][0] == "D" else ""),
                                 f"propagation #{idx} of a history on one orbit / one propagator object differs from the model "
                                 "(the model's setter re-reads the orbit — elements and epoch — on every call; the span is the difference of the two instants)",
                                 inp, observed=r["impl"], expected=mc, propagation=idx, model_span_us=int(info[0]))
                        break
                continue
            # single propagation: `elements | cartesian`
            parts = rep.split("|")
            model = [b2f(x) for x in parts[0].split()]
            mcart = parse_cart(parts[1]) if len(parts) > 1 else "bad-op"
            date, frame, n, dt, conic = aux
            if isinstance(impl, str):
                # the implementation did not return: the model agrees iff its loop does not exit either
                out.tally("result=no-return")
                if mcart != "fuel":
                    out.fail(f"c05-{kind}-termination", "the implementation does not return, the model's M2E loop exits", inp, observed=impl, expected=mcart)
                continue
            try:
                with time_limit():
                    exp = to_cart(model, date, frame) if finite(model) else [float("nan")] * 6
            except NoReturn:
                out.fail(f"c05-{kind}-termination", "the implementation returned, but converting the model's elements does not", inp, observed=impl, expected="no-return")
                continue
            fi, fe = finite(impl), finite(exp)
            out.tally("result=" + ("finite" if fi else "non-finite"))
            if fi != fe:
                out.fail(f"c05-{kind}-finiteness", "one of implementation / model is non-finite", inp, observed=impl, expected=exp)
                continue
            if not fi:
                continue
            rt = 1e-9 * (1 + (n * abs(dt) if math.isfinite(n) else 0))
            bad = cart_differs(impl, exp, rt)
            if bad:
                out.fail(f"c05-{kind}-{conic}", f"component {bad[0]} of {kind}.propagate differs from the Lean model (mean elements updated by the model, converted by the real code)",
                         inp, observed=impl, expected=exp)
            # the whole chain in the model: update + mean -> eccentric (M2E with fuel: exits only on convergence) -> keplerian -> cartesian
            if not isinstance(mcart, list):
                out.fail(f"c05-{kind}-cart-fuel", "the model's M2E loop did not exit within 10^4 passes", inp, observed=impl, expected=mcart)
            elif not finite(mcart):
                out.fail(f"c05-{kind}-cart-finiteness", "the model's cartesian state is non-finite, the implementation's is finite", inp, observed=impl, expected=mcart)
            else:
                bad = cart_differs(impl, mcart, rt)
                if bad:
                    out.fail(f"c05-{kind}-cart-{conic}", f"component {bad[0]} of {kind}.propagate differs from the Lean model of the whole chain "
                             "(element update, M2E Newton loop until convergence, eccentric -> true -> cartesian)", inp, observed=impl, expected=mcart)
            out.sample({"request": req[:100] + "…", "impl": impl, "model_elements": model, "model_cartesian": mcart}, limit=3)
    return out


class NoReturn(Exception):
    """a call into the library did not return within the time limit; carries the innermost library frame"""

    def __init__(self, where, local):
        super().__init__(where)
        self.where, self.local = where, local


class time_limit:
    """SIGALRM watchdog around calls into the library (main thread): Form.M2E has an unbounded `while`"""

    def __init__(self, seconds=1.0):
        self.seconds = seconds

    def __enter__(self):
        import signal

        def handler(signum, frame):
            where, local, f = "?", {}, frame
            while f is not None:
                if f.f_code.co_filename.startswith(REPO):
                    where = f"{os.path.relpath(f.f_code.co_filename, REPO)}:{f.f_code.co_name}"
                    if f.f_code.co_name == "M2E":
                        local = {k: float(v) for k, v in f.f_locals.items() if k in ("e", "M")}
                        break
                f = f.f_back
            raise NoReturn(where, local)
        self.old = signal.signal(signal.SIGALRM, handler)
        signal.setitimer(signal.ITIMER_REAL, self.seconds)

    def __exit__(self, *a):
        import signal
        signal.setitimer(signal.ITIMER_REAL, 0)
        signal.signal(signal.SIGALRM, self.old)
        return False


def no_return_family(exc):
    """family of a call that does not return, from the call site (and the conic read off the interrupted frame)"""
    if exc.where.endswith(":M2E"):
        e = exc.local.get("e", float("nan"))
        return "m2e-no-return-" + ("ell" if e < 1 else "hyp")
    return "no-return-" + exc.where.replace(os.sep, ".")


class _quiet:
    def __enter__(self):
        import numpy as np
        self.st = np.seterr(all="ignore")

    def __exit__(self, *a):
        import numpy as np
        np.seterr(**self.st)


# ---------------------------------------------------------------- independent universal-variable two-body solution

def stumpff(z):
    if z > 1e-6:
        s = math.sqrt(z)
        return (1 - math.cos(s)) / z, (s - math.sin(s)) / (s * z)
    if z < -1e-6:
        s = math.sqrt(-z)
        return (1 - math.cosh(s)) / z, (math.sinh(s) - s) / (s * -z)
    return 0.5 - z / 24 + z * z / 720, 1 / 6 - z / 120 + z * z / 5040


def universal_kepler(mu, r0, v0, dt):
    """two-body propagation with universal variables and Stumpff functions (Bate-Mueller-White / Curtis), safeguarded Newton"""
    import numpy as np
    r0 = np.array(r0, dtype=float)
    v0 = np.array(v0, dtype=float)
    rn0 = float(np.linalg.norm(r0))
    sq = math.sqrt(mu)
    vr0 = float(r0 @ v0) / rn0
    alpha = 2 / rn0 - float(v0 @ v0) / mu
    T = sq * dt

    def F(x):
        try:
            z = alpha * x * x
            if z < -4e5:
                raise OverflowError
            c2, c3 = stumpff(z)
            val = rn0 * vr0 / sq * x * x * c2 + (1 - alpha * rn0) * x ** 3 * c3 + rn0 * x
            der = rn0 * vr0 / sq * x * (1 - z * c3) + (1 - alpha * rn0) * x * x * c2 + rn0
            return val, der
        except OverflowError:
            return math.copysign(float("inf"), x), float("inf")

    x0 = sq * alpha * dt if alpha > 0 else math.copysign(math.sqrt(-1 / alpha), dt) if dt != 0 else 0.0
    step = math.sqrt(1 / abs(alpha))
    lo = hi = x0
    while F(lo)[0] > T:
        lo -= step
        step *= 2
    step = math.sqrt(1 / abs(alpha))
    while F(hi)[0] < T:
        hi += step
        step *= 2
    x = 0.5 * (lo + hi)
    for _ in range(300):
        val, der = F(x)
        if val > T:
            hi = x
        else:
            lo = x
        if math.isfinite(val) and der > 0:
            xn = x - (val - T) / der
        else:
            xn = None
        if xn is None or not (lo < xn < hi):
            xn = 0.5 * (lo + hi)
        if abs(xn - x) <= 1e-15 * max(abs(x), 1.0) or hi - lo <= 1e-15 * max(abs(x), 1.0):
            x = xn
            break
        x = xn
    z = alpha * x * x
    c2, c3 = stumpff(z)
    f = 1 - x * x / rn0 * c2
    g = dt - x ** 3 / sq * c3
    r = f * r0 + g * v0
    rn = float(np.linalg.norm(r))
    fd = sq / (rn * rn0) * x * (z * c3 - 1)
    gd = 1 - x * x / rn * c2
    v = fd * r0 + gd * v0
    return [float(c) for c in r] + [float(c) for c in v]


# ---------------------------------------------------------------- oracle on the real API

def rel_err(a, b):
    """max of relative position and velocity errors of two cartesian 6-vectors"""
    dp = math.sqrt(sum((a[j] - b[j]) ** 2 for j in range(3)))
    dv = math.sqrt(sum((a[j] - b[j]) ** 2 for j in range(3, 6)))
    sp = math.sqrt(sum(b[j] ** 2 for j in range(3)))
    sv = math.sqrt(sum(b[j] ** 2 for j in range(3, 6)))
    return max(dp / sp, dv / sv)


def angdiff(a, b):
    d = (a - b) % TWO_PI
    return min(d, TWO_PI - d)


def nonfinite_family(prop, elts0, mu, dt):
    """family of a non-finite propagation result, computed from the input"""
    a, e, M = elts0[0], elts0[1], elts0[5]
    if not finite(elts0):
        return f"{prop}-nonfinite-initial-conversion"
    if e >= 1 and prop == "Kepler":
        Mn = M + mean_motion(mu, a) * dt
        if abs(m2e_start(e, Mn)) > 700:
            return "hyperbolic-M2E-overflow"
        return "hyperbolic-nonfinite-other"
    return f"{prop}-nonfinite-{'hyp' if e >= 1 else 'ell'}"


def oracle(ctx, widened):
    from beyond import constants as K
    out = Outcome()
    rng = ctx.rng
    big = widened or ctx.thorough
    warm_envs()
    # reference values (EGM96 / IAU): the library's constants define "the first-order secular J2 rates"; a drift of the constants themselves is a failure
    for name, val, ref in (("mu", K.Earth.mu, 3.986004418e14), ("r", K.Earth.r, 6378136.3), ("J2", K.Earth.J2, 1.08262668355e-3)):
        out.count(key=("const", name), kind="constants")
        if not abs(val / ref - 1) < 1e-5:
            out.fail("constants-" + name, f"Earth.{name} is not the reference value", name, observed=val, expected=ref)
    with _quiet():
        for inp in PINNED:
            guarded(out, kepler_case if "steps" not in inp else history_case, dict(inp, pinned=True))
        for inp in PINNED_M2E:
            guarded(out, m2e_case, dict(inp, pinned=True))
        for _ in range(3000 if big else 300):
            guarded(out, kepler_case, gen_kepler_input(rng))
        for _ in range(3000 if big else 300):
            guarded(out, j2_case, gen_j2_input(rng))
        # the inputs on which the Newton loop of Form.M2E runs longest (high e several revolutions on, hyperbolas far from perigee)
        for inp in slow_m2e_inputs(rng, 200000 if big else 20000, 400 if big else 60):
            out.tally("slow-m2e-passes=" + ("<=20" if inp["m2e_passes"] <= 20 else "21-50" if inp["m2e_passes"] <= 50 else ">50"))
            guarded(out, kepler_case, inp)
        for _ in range(100000 if big else 12000):
            guarded(out, m2e_case, gen_m2e_input(rng))
        # call histories on one Orbit object / one propagator object
        for k in range(2000 if big else 200):
            guarded(out, history_case, gen_history_input(rng, "Kepler" if k % 3 != 2 else "J2", k))
        # dates handed in as Date objects: epoch and target in every pair of the six scales, without / with mocked / with the real
        # Earth-orientation data (spans crossing leap seconds), timedelta arguments, iter(dates=…), iter(start, stop, step)
        for k in range(108 * (12 if big else 2)):
            guarded(out, kepler_case, gen_dated(rng, k, gen_kepler_input))
            guarded(out, j2_case, gen_dated(rng, k, gen_j2_input))
        # exactly equatorial states (z = v_z = 0), prograde and retrograde
        for _ in range(400 if big else 60):
            guarded(out, equatorial_case, gen_equatorial_input(rng))
        for k in range(108 * (4 if big else 1)):
            guarded(out, api_case, dict(gen_dated(rng, k, gen_kepler_input if k % 2 else gen_j2_input), api=True))
        # outside the J2 clause's domain (0 <= e < 1: the secular rates are orbit averages, dM contains sqrt(1 - e^2)): what the code
        # does with a hyperbolic orbit is RECORDED, never judged (ASSUMPTIONS; theorem j2_outside_domain_hyperbolic)
        for _ in range(20):
            inp = gen_kepler_input(rng)
            if inp["mean_elements"][1] <= 1 or inp["frame"] in OTHER_BODIES:
                continue
            out.count(key=("j2-hyperbolic", tuple(inp["mean_elements"]), inp["dt"]), kind="j2-hyperbolic-probe(outside the domain)")
            try:
                with time_limit():
                    orb, d0 = make(inp["mean_elements"], inp["form"], inp["frame"], "J2")
                    from beyond.dates import timedelta as _td
                    r = [float(v) for v in orb.propagate(_td(seconds=inp["dt"]))]
                out.tally("j2-hyperbolic=" + ("finite state" if finite(r) else "non-finite state, silently"))
            except NoReturn:
                out.tally("j2-hyperbolic=no return")
            except Exception as ex:
                out.tally("j2-hyperbolic=raises " + type(ex).__name__)
    out.sample({"checks": "kepler: elements constant, M advance, compose, inverse, periodic, universal-variable; j2: a e i constant, secular rates, polar, critical, sso, compose"})
    return out


def guarded(out, case, inp):
    """run one oracle case under the watchdog: a call that does not return is a failing input"""
    try:
        with time_limit():
            case(out, inp)
    except NoReturn as ex:
        out.count(key=("no-return", str(inp)), kind="no-return")
        out.fail(no_return_family(ex), f"a call into the library does not return (interrupted after 1 s in {ex.where}, {ex.local}): "
                 "Kepler/J2 propagation or Form.M2E hangs", inp, observed="no return", expected="a state", interrupted=ex.local)


# regression inputs (in the property's domain) found by this oracle: the Newton iteration of the elliptic branch of Form.M2E enters a cycle
PINNED = [
    {"propagator": "Kepler", "form": "keplerian_mean", "frame": "EME2000", "mean_elements": [51033734.038639374, 0.8259756213938071, 1.1, 2.0, 3.0, 0.905527945313555],
     "dt": 457387.328, "t1": 100000.0, "t2": 357387.328, "periods": 1},
    {"propagator": "Kepler", "form": "cartesian", "frame": "EME2000", "mean_elements": [69834079.07487513, 0.8993920566380281, 1.1, 2.0, 3.0, 4.867360674833814],
     "dt": -1637888.185, "t1": -637888.185, "t2": -1000000.0, "periods": 1},
]
PINNED_M2E = [{"m2e": True, "e": 0.8199884180444714, "M": -616.6022875435046}, {"m2e": True, "e": 0.8225565521236453, "M": 2143.4044989634876}]



class Handing:
    """How the dates of one oracle case are handed to the library: the Earth-orientation environment, the scale and clock reading
    of the orbit's epoch, and for each propagation call in turn either a timedelta or the scale in which the target `Date` is
    expressed.  The clock reading of a target is computed from the instant (TAI) with the harness's own offsets (`minus_tai_us`),
    not by `Date.change_scale`.  A legacy input (no `epoch` / `via`) is the epoch 2020-05-24T03:07:11 UTC without
    Earth-orientation data and timedelta arguments throughout."""

    def __init__(self, inp):
        self.env = inp.get("env", "zero")
        ep = inp.get("epoch")
        self.epoch = (ep[0], int(ep[1])) if ep else ("UTC", epoch0_us())
        self.via = list(inp.get("via") or ["td"])
        self.dated = bool(ep)
        self.k = 0
        self.exact = True         # every date handed in so far is a whole number of microseconds away from the epoch's instant
        self.used = []            # (from scale, how) of every call
        self.leap = False

    def epoch_date(self):
        return mkdate(*self.epoch)

    def inst(self, d):
        sc, us = date_reading(d)
        return inst_us(sc, us, self.env)

    def arg(self, frm, dt):
        """(argument for `propagate`, elapsed seconds it denotes) for 'dt seconds after the instant of the real Date `frm`'"""
        from beyond.dates import timedelta
        how = self.via[self.k % len(self.via)]
        self.k += 1
        sc, us = date_reading(frm)
        i0 = inst_us(sc, us, self.env)
        dus = round(dt * 1e6)
        self.leap = self.leap or leap_between(self.env, i0, i0 + dus)
        if how == "td":
            # the property speaks of timedelta arguments in uniform scales: TAI, TT, GPS always, UTC when no leap second intervenes
            if sc in CONST or (sc == "UTC" and not leap_between(self.env, i0, i0 + dus)):
                self.used.append((sc, "td"))
                return timedelta(microseconds=dus), dus / 1e6
            how = sc
        us_t = reading_at(how, i0 + dus, self.env)
        if not date_ok(how, us_t, self.env):
            how = "TAI"
            us_t = reading_at(how, i0 + dus, self.env)
        if how not in UNIFORM or sc not in UNIFORM:
            self.exact = False
        self.used.append((sc, how))
        return mkdate(how, us_t), (inst_us(how, us_t, self.env) - i0) / 1e6

    def slack(self, n, e):
        """relative state error allowed for dates that are not whole microseconds (UT1, TDB): 3 us at perigee speed"""
        return 0.0 if self.exact else n * 3e-6 * math.sqrt(1 + e) / abs(1 - e) ** 1.5

    def tag(self):
        """family suffix computed from how the dates were handed in"""
        if not self.dated:
            return ""
        cross = any(how not in ("td", sc) for sc, how in self.used) or any(sc != self.epoch[0] for sc, _ in self.used)
        return ":dates-" + ("cross-scale" if cross else "same-scale") + ("-leap-second" if self.leap else "")

    def dist(self):
        return {"env": self.env, "epoch_scale": self.epoch[0], "first_arg": self.used[0][1] if self.used else "-"} if self.dated else {}

    def check_stamp(self, out, prop, inp, frm, arg, el, res):
        """the result carries the requested date (the same instant)"""
        want = self.inst(frm) + el * 1e6
        got = self.inst(res.date)
        tol = 1.0 if self.exact else 4.0
        if abs(got - want) > tol:     # the scale LABEL of the result is not part of the property (C04: only instants matter)
            out.fail(f"{prop}-result-date" + self.tag(), "the propagated orbit does not carry the requested date", inp,
                     observed=[str(res.date), got], expected=[str(arg), want])


def gen_kepler_input(rng):
    conic = "ell" if rng.random() < 0.55 else "hyp"
    frame = rng.choice(KEPLER_FRAMES)
    elts = rescale(gen_elts(rng, conic), frame)
    dt = gen_dt(rng)
    t1 = q(rng.uniform(-1, 1) * abs(dt)) if rng.random() < 0.7 else q(rng.uniform(-30, 30) * DAY)
    return {"propagator": "Kepler", "form": rng.choice(ELL_FORMS if conic == "ell" else HYP_FORMS), "frame": frame,
            "mean_elements": elts, "dt": dt, "t1": t1, "t2": q(dt - t1), "periods": rng.choice([1, 1, 2, 5, -1, -3])}


def kepler_case(out, inp):
    """every Kepler clause of the property on one fully specified input (also used by replay)"""
    H = Handing(inp)
    with eop_env(H.env):
        _kepler_case(out, inp, H)


def _kepler_case(out, inp, H):
    elts, form, frame, dt = inp["mean_elements"], inp["form"], inp["frame"], inp["dt"]
    conic = "ell" if elts[1] < 1 else "hyp"
    ctag = f":centre-{frame}" if frame in OTHER_BODIES else ""
    orb, d0 = make(elts, form, frame, "Kepler", H.epoch_date())
    mu = float(orb.frame.center.body.mu)
    x0 = mean_of(orb)
    c0 = [float(v) for v in orb.copy(form="cartesian")]
    n = mean_motion(mu, elts[0])
    arg, dt = H.arg(orb.date, dt)        # from here on `dt` is the elapsed time the argument denotes
    res = orb.propagate(arg)
    c1 = [float(v) for v in res]
    out.count(key=("kepler", form, tuple(elts), dt, H.epoch, tuple(H.via)), nontrivial=dt != 0, kind=f"kepler-{conic}", form=form,
              centre=frame if frame in OTHER_BODIES else "Earth", **H.dist())
    if H.dated:
        out.tally(f"scales={H.epoch[0]}>{H.used[0][1]}")
    if not finite(c1) or not finite(x0):
        out.fail(nonfinite_family("Kepler", x0, mu, dt), "Kepler.propagate returns a non-finite state inside the property's domain", inp, observed=c1)
        return
    amp = 1 + n * abs(dt)
    e = elts[1]
    H.check_stamp(out, "kepler", inp, orb.date, arg, dt, res)
    # 1. a, e, i, Ω, ω unchanged, M advanced by n dt (tolerances: 1e-11 relative, amplified by the phase n|dt| and by the
    #    conditioning of the element set near e = 0, e = 1, sin i = 0; observed errors are 1e3..1e6 times smaller)
    x1 = mean_of(res)
    cond = 1 / min(e, abs(e - 1), 1.0)
    tol = 1e-11 * amp
    # quasi-equatorial orbits: the node-related angles are conditioned by 1 / sin i; a state that passed through cartesian -> keplerian
    # carries ill_conditioning(i) (every result is cartesian: the second leg of a composition, the way back and the elements read off a
    # result always do; the first propagation only when the orbit is given in a form converted through cartesian)
    si = math.sin(elts[2])
    ill = ill_conditioning(elts[2])
    ill_in = ill if form in VIA_CARTESIAN else 0.0
    qtag = ":quasi-equatorial-" + ("prograde" if elts[2] < 1 else "retrograde") if si < 0.05 else ""
    ctag += qtag
    if qtag:
        out.tally("kepler" + qtag + (":via-cartesian" if ill_in else ""))
    bad = None
    if abs(x1[0] / x0[0] - 1) > tol * cond: bad = "a"
    elif abs(x1[1] - x0[1]) > tol * max(1, e) * cond: bad = "e"
    elif abs(x1[2] - x0[2]) > tol / math.sin(x0[2]): bad = "i"
    elif angdiff(x1[3], x0[3]) > tol / math.sin(x0[2]): bad = "raan"
    elif angdiff(x1[4], x0[4]) > tol * cond / min(e, 1.0) / si + 2 * ill: bad = "argp"
    if bad:
        out.fail(f"kepler-element-{bad}-{conic}" + H.tag() + ctag, f"Kepler propagation changes {bad}", inp, observed=x1, expected=x0)
    Mexp = x0[5] + n * dt
    dM = angdiff(x1[5], Mexp) if conic == "ell" else abs(x1[5] - Mexp)
    if dM > tol * cond / min(e, 1.0) * max(1.0, abs(Mexp) if conic == "hyp" else 1.0) + (0 if H.exact else n * 3e-6):
        out.fail(f"kepler-M-advance-{conic}" + H.tag() + ctag, "mean anomaly does not advance by n dt (dt = time elapsed between the instants of the epoch "
                 "and of the requested date)", inp, observed=x1[5], expected=Mexp, elapsed_s=dt, handed=H.used[-1])
    # 2. independent universal-variable solution, forwards and backwards (property: 1e-5; used: 1e-9 + 1e-10 n|dt|, capped at 1e-5)
    ref = universal_kepler(mu, c0[:3], c0[3:], dt)
    out.count(key=("uv", form, tuple(elts), dt, H.epoch, tuple(H.via)), nontrivial=dt != 0, kind=f"universal-variable-{conic}-{'back' if dt < 0 else 'fwd'}")
    if not rel_err(c1, ref) <= min(1e-5, 1e-9 + 1e-10 * amp) + H.slack(n, e) + ill_in:
        out.fail(f"kepler-universal-variable-{conic}" + H.tag() + ctag, "Kepler.propagate differs from the universal-variable two-body solution", inp,
                 observed=c1, expected=ref, elapsed_s=dt)
    # 3. composition and inverse
    t1, t2 = inp["t1"], inp["t2"]
    if abs(t2) <= 30 * DAY and abs(t1) <= 30 * DAY:
        a1, t1 = H.arg(orb.date, t1)
        mid = orb.propagate(a1)
        H.check_stamp(out, "kepler", inp, orb.date, a1, t1, mid)
        a2, t2 = H.arg(mid.date, dt - t1 if H.dated else t2)
        two = [float(v) for v in mid.propagate(a2)]
        amp2 = 1 + n * (abs(t1) + abs(t2))
        out.count(key=("compose", form, tuple(elts), t1, t2, H.epoch, tuple(H.via)), kind=f"compose-{conic}")
        if not finite(two):
            fam = nonfinite_family("Kepler", x0, mu, t1) if not finite(mid) else nonfinite_family("Kepler", mean_of(mid), mu, t2)
            out.fail(fam, "Kepler.propagate returns a non-finite state inside the property's domain (composition leg)", inp, observed=two)
        elif not rel_err(two, c1) <= 3e-9 * amp2 * cond + 2 * H.slack(n, e) + 2 * ill:
            out.fail(f"kepler-compose-{conic}" + H.tag() + ctag, "propagate(t1) then propagate(t2) differs from propagate(t1+t2)", inp, observed=two, expected=c1,
                     handed=H.used[-3:])
    ab, tb = H.arg(res.date, -dt)
    back = [float(v) for v in res.propagate(ab)]
    out.count(key=("inverse", form, tuple(elts), dt, H.epoch, tuple(H.via)), nontrivial=dt != 0, kind=f"inverse-{conic}")
    if not finite(back):
        out.fail(nonfinite_family("Kepler", x1, mu, -dt), "Kepler.propagate returns a non-finite state inside the property's domain (way back)", inp, observed=back)
    elif not rel_err(back, c0) <= 3e-9 * amp * cond + 2 * H.slack(n, e) + 2 * ill:
        out.fail(f"kepler-inverse-{conic}" + H.tag() + ctag, "propagate(-t) after propagate(t) does not return to the initial state", inp, observed=back, expected=c0)
    # 4. periodicity of bound orbits
    if conic == "ell":
        period = orb.infos.period
        kk = inp["periods"]
        if abs(period.total_seconds() * kk) <= 30 * DAY:
            ap, tp = H.arg(orb.date, (period * kk).total_seconds())
            per = [float(v) for v in orb.propagate(ap)]
            out.count(key=("periodic", form, tuple(elts), kk, H.epoch, tuple(H.via)), kind="periodic")
            # the period is rounded to the microsecond by timedelta: allow the motion during k µs at perigee speed
            if not rel_err(per, c0) <= 3e-9 * (1 + TWO_PI * abs(kk)) * cond + abs(kk) * 1e-6 * n * 10 / (1 - e) ** 2 + H.slack(n, e) + ill_in:
                out.fail("kepler-periodic" + H.tag() + ctag, f"state after {kk} period(s) differs from the initial state", inp, observed=per, expected=c0)



def gen_equatorial_input(rng):
    """an EXACTLY equatorial state — z = 0 and v_z = 0 as floating-point zeros, what a user writes for a geostationary or an
    equatorial transfer orbit — prograde or retrograde, elliptic or hyperbolic, built from planar elements without any conversion
    by the library, handed in in one of the forms that go through cartesian -> keplerian"""
    conic = "ell" if rng.random() < 0.6 else "hyp"
    a, e = gen_elts(rng, conic)[:2]
    lon, nu = rng.uniform(0, TWO_PI), rng.uniform(0, TWO_PI) if conic == "ell" else rng.uniform(-1.5, 1.5)
    if conic == "hyp":
        nu *= math.acos(-1 / e) / 2
    return {"equatorial": True, "propagator": rng.choice(["Kepler", "Kepler", "J2"]) if conic == "ell" else "Kepler", "form": rng.choice(VIA_CARTESIAN),
            "frame": rng.choice(FRAMES), "sense": rng.choice([1, -1]), "a": a, "e": e, "lon_perigee": lon, "nu": nu, "dt": gen_dt(rng)}


def equatorial_case(out, inp):
    """Kepler (J2) propagation of an exactly equatorial state: finite, propagate(0) gives the state back, Kepler agrees with the
    universal-variable solution (which has no singular plane), J2 keeps the state in the equatorial plane on the same conic"""
    from beyond.orbits import Orbit, StateVector
    from beyond.dates import Date, timedelta
    from beyond import constants as K
    prop, form, s, a, e, w, nu, dt = (inp[k] for k in ("propagator", "form", "sense", "a", "e", "lon_perigee", "nu", "dt"))
    mu = float(K.Earth.mu)
    p = a * (1 - e * e)
    r = p / (1 + e * math.cos(nu))
    th = w + s * nu
    vr, vt = math.sqrt(mu / p) * e * math.sin(nu), math.sqrt(mu / p) * (1 + e * math.cos(nu))
    c0 = [r * math.cos(th), r * math.sin(th), 0.0, vr * math.cos(th) - s * vt * math.sin(th), vr * math.sin(th) + s * vt * math.cos(th), 0.0]
    d0 = Date(2020, 5, 24, 3, 7, 11)
    coords = c0 if form == "cartesian" else [float(v) for v in StateVector(c0, d0, "cartesian", inp["frame"]).copy(form=form)]
    side = "prograde" if s > 0 else "retrograde"
    conic = "ell" if e < 1 else "hyp"
    out.count(key=("equatorial", prop, form, s, a, e, w, nu, dt), nontrivial=dt != 0, kind=f"exactly-equatorial-{prop}-{side}-{conic}", form=form)
    orb = Orbit(coords, d0, form, inp["frame"], prop)
    n = mean_motion(mu, a)
    for t in (0.0, dt):
        res = [float(v) for v in orb.propagate(timedelta(seconds=t))]
        if not finite(res):
            out.fail(f"exactly-equatorial-{side}-nonfinite", f"{prop}.propagate of an exactly equatorial {side} state (z = 0, v_z = 0) returns a "
                     "non-finite state, silently", inp, observed=res, expected="a finite state", cartesian=c0, elapsed_s=t)
            return
        if prop == "Kepler" or t == 0.0:
            ref = universal_kepler(mu, c0[:3], c0[3:], t) if t else c0
            if not rel_err(res, ref) <= min(1e-5, 1e-9 + 1e-10 * (1 + n * abs(t))):
                out.fail(f"exactly-equatorial-{side}-" + ("initial-state" if t == 0.0 else f"universal-variable-{conic}"),
                         f"{prop}.propagate({t} s) of an exactly equatorial {side} state differs from " +
                         ("the state itself" if t == 0.0 else "the universal-variable two-body solution"), inp, observed=res, expected=ref, cartesian=c0, elapsed_s=t)
                return
        else:
            # J2 on an equatorial orbit: the plane is kept, so are the radius and speed the conic has at the drifted anomaly: |h| and energy
            h0, h1 = c0[0] * c0[4] - c0[1] * c0[3], res[0] * res[4] - res[1] * res[3]
            en = lambda c: sum(v * v for v in c[3:]) / 2 - mu / math.sqrt(sum(v * v for v in c[:3]))
            if abs(res[2]) > 1e-9 * r or abs(h1 / h0 - 1) > 1e-9 or abs(en(res) / en(c0) - 1) > 1e-9:
                out.fail(f"j2-exactly-equatorial-{side}-plane-or-conic", "J2.propagate of an exactly equatorial state leaves the equatorial plane or changes |h| / the energy",
                         inp, observed=res, expected={"z": 0.0, "h": h0, "energy": en(c0)}, cartesian=c0, elapsed_s=t)
                return


def gen_dated(rng, k, base):
    """a Kepler / J2 input whose dates are handed in as `Date`s: the Earth-orientation environment, the scale of the epoch and the
    scale of the first target run through all 3 x 6 x 6 combinations with `k`; the later calls (composition legs, way back, period)
    draw their scale — or a timedelta — at random.  Every seventh case hands the first target in as a timedelta."""
    inp = base(rng)
    env = ENVS[k % 3]
    pair = (k // 3) % 36
    sE, sT = SCALES[pair // 6], SCALES[pair % 6]
    first = "td" if k % 7 == 3 else sT
    inp.update(env=env, epoch=[sE, gen_epoch(rng, sE, env, inp["dt"])], via=[first] + [rng.choice(SCALES + ["td"]) for _ in range(4)])
    return inp


def api_case(out, inp):
    """the other public ways to a propagation — `iter(dates=…)` with dates in mixed scales, `iter(start, stop, step)` /
    `ephemeris` with a start date in another scale, `datetime` arguments — give what `propagate` gives for the same instant"""
    H = Handing(inp)
    with eop_env(H.env):
        import datetime as _dt
        from beyond.dates import timedelta
        prop, elts, e = inp["propagator"], list(inp["mean_elements"]), inp["mean_elements"][1]
        if elts[2] is None:
            from beyond.utils.leo import sso
            elts[2] = float(sso(a=elts[0], e=elts[1]))
        orb, _ = make(elts, inp["form"], inp["frame"], prop, H.epoch_date())
        n = mean_motion(float(orb.frame.center.body.mu), elts[0])
        cond = 1 / min(e, abs(e - 1), 1.0)
        spans = [inp["dt"], inp["t1"], 0.0, -inp["t1"]]
        args = [H.arg(orb.date, t) for t in spans]
        dates = [a for a, _ in args if not hasattr(a, "total_seconds")]
        els = [t for a, t in args if not hasattr(a, "total_seconds")]
        got = [[float(v) for v in o] for o in orb.iter(dates=dates)]
        out.count(key=("iter-dates", prop, tuple(elts), H.epoch, tuple(H.via)), kind=f"{prop.lower()}-iter-dates", **H.dist())
        for d, t, g in zip(dates, els, got):
            # the same instant, handed to propagate() as a date in the EPOCH's scale (or TAI), computed by the harness
            sc = H.epoch[0] if date_ok(H.epoch[0], reading_at(H.epoch[0], H.inst(d), H.env), H.env) else "TAI"
            ref = [float(v) for v in orb.propagate(mkdate(sc, reading_at(sc, H.inst(d), H.env)))]
            if not finite(g) or not finite(ref):
                continue
            if rel_err(g, ref) > 1e-11 * (1 + n * abs(t)) * cond + 2 * (n * 3e-6 * math.sqrt(1 + e) / abs(1 - e) ** 1.5 if not (d.scale.name in UNIFORM and sc in UNIFORM) else 0):
                out.fail(f"{prop.lower()}-iter-dates" + H.tag(), "iter(dates=…) gives for a date in one scale another state than propagate() to the same instant "
                         "given in the epoch's scale", inp, observed=g, expected=ref, date=str(d))
        # two orbits alive in one process, their iterators advanced in lockstep (each owns a propagator object of the same class):
        # every point is what propagate() of a FRESH orbit with the same coordinates gives
        if len(dates) >= 2:
            from beyond.orbits import Orbit
            elts2 = [elts[0] * 1.07] + list(elts[1:5]) + [elts[5] + 0.9]
            orb2, _ = make(elts2, inp["form"], inp["frame"], prop, H.epoch_date())
            snaps = [([float(v) for v in o], o.date, o.form.name) for o in (orb, orb2)]
            out.count(key=("sibling-iter", prop, tuple(elts), H.epoch, tuple(H.via)), kind=f"{prop.lower()}-sibling-iterators")
            for k, (pa, pb) in enumerate(zip(orb.iter(dates=dates), orb2.iter(dates=dates))):
                for which, pt, snap in (("first", pa, snaps[0]), ("second", pb, snaps[1])):
                    ref = [float(v) for v in Orbit(snap[0], snap[1], snap[2], inp["frame"], prop).propagate(dates[k])]
                    g = [float(v) for v in pt]
                    if finite(g) != finite(ref) or (finite(g) and rel_err(g, ref) > 1e-12):
                        out.fail(f"{prop.lower()}-sibling-iterators", f"point #{k} of the {which} of two orbits iterated in lockstep differs from propagate() of a fresh "
                                 "orbit with the same coordinates (state shared between two propagator objects?)", inp, observed=g, expected=ref, point=k, which=which)
                        break
            # the propagator object used directly: one `orbit = …` assignment, several propagate() calls, in any order of dates
            from beyond.propagators.kepler import Kepler as _Kep
            from beyond.propagators.j2 import J2 as _J2
            P = (_Kep if prop == "Kepler" else _J2)()
            P.orbit = orb
            seq = [dates[0], dates[1], dates[0], dates[-1], dates[1]]
            got = [[float(v) for v in P.propagate(d)] for d in seq]
            out.count(key=("propagator-object", prop, tuple(elts), H.epoch, tuple(H.via)), kind=f"{prop.lower()}-propagator-object-reuse")
            for k, (d, g) in enumerate(zip(seq, got)):
                ref = [float(v) for v in Orbit(snaps[0][0], snaps[0][1], snaps[0][2], inp["frame"], prop).propagate(d)]
                if finite(g) != finite(ref) or (finite(g) and rel_err(g, ref) > 1e-12):
                    out.fail(f"{prop.lower()}-propagator-object-reuse", f"call #{k} of propagate() on one propagator object (orbit assigned once) differs from the "
                             "propagation of a fresh orbit (the propagator's stored orbit was modified by an earlier call?)", inp, observed=g, expected=ref, call=k)
                    break
        # iter(start, stop, step): start in another scale than the epoch, stop as a timedelta
        step = timedelta(seconds=q(abs(inp["t1"]) / 3))
        if dates and abs(inp["t1"]) > 1 and (dates[0].scale.name in CONST or (dates[0].scale.name == "UTC" and not
                                                 leap_between(H.env, H.inst(dates[0]), H.inst(dates[0]) + 3e6 * step.total_seconds()))):
            pts = list(orb.iter(start=dates[0], stop=step * 3, step=step))
            out.count(key=("iter-range", prop, tuple(elts), H.epoch, tuple(H.via)), kind=f"{prop.lower()}-iter-range")
            for j, o in enumerate(pts):
                t = els[0] + j * step.total_seconds()
                a, tt = H.arg(orb.date, t)
                ref = [float(v) for v in orb.propagate(a)]
                g = [float(v) for v in o]
                if finite(g) and finite(ref) and rel_err(g, ref) > 1e-11 * (1 + n * abs(t)) * cond + 3 * H.slack(n, e):
                    out.fail(f"{prop.lower()}-iter-range" + H.tag(), f"point #{j} of iter(start=<date in another scale>, stop, step) differs from propagate() to that instant",
                             inp, observed=g, expected=ref)
                    break
        # a naive datetime is not a Date: it must be refused, or mean the default scale (UTC)
        sc, us = H.epoch
        naive = D3().dt_of(reading_at("UTC", inst_us(sc, us, H.env) + round(inp["dt"] * 1e6), H.env))
        out.count(key=("datetime-arg", prop, tuple(elts), H.epoch), kind="datetime-argument")
        try:
            r = orb.propagate(naive)
        except (TypeError, AttributeError) as ex:
            out.tally("datetime-argument=" + type(ex).__name__)
        else:
            out.tally("datetime-argument=accepted")
            from beyond.dates import Date
            ref = [float(v) for v in orb.propagate(Date(naive))]
            if finite(ref) and rel_err([float(v) for v in r], ref) > 1e-11 * (1 + n * abs(inp["dt"])) * cond:
                out.fail(f"{prop.lower()}-datetime-argument", "propagate(datetime) differs from propagate(Date(datetime))", inp, observed=[float(v) for v in r], expected=ref)


def gen_m2e_input(rng):
    """(e, M) over the property's domain: M = M0 + n dt reaches thousands of radians for low orbits over 30 days"""
    u = rng.random()
    if u < 0.35:
        e = rng.uniform(1e-4, 0.95)
    elif u < 0.7:
        e = rng.uniform(0.8, 0.95)
    else:
        e = 1 + math.exp(rng.uniform(math.log(0.01), math.log(9.0)))
    M = rng.uniform(-40, 40) if rng.random() < 0.6 else rng.uniform(-3000, 3000)
    if rng.random() < 0.15:
        # the edges of the domain and of the start-value branches: e at 1e-4 / 0.95 / 1.01 / 1.6 / 3.6 / 10, reduced anomalies within
        # 1e-1 … 1e-14 of 0 and of +-pi (where the start value overshoots), clamp threshold |H0| = 30 of the hyperbolic branch
        e = rng.choice([1e-4, 0.95, 0.95 - 1e-9, 1.01, 1.01 + 1e-9, 1.6, 1.6 - 1e-12, 3.6, 3.6 - 1e-12, 10.0]) if rng.random() < 0.7 else e
        k = rng.randint(-480, 480)
        off = rng.choice([-1, 1]) * 10.0 ** rng.uniform(-14, -1)
        if e < 1:
            M = math.pi * k + off
        else:
            M = rng.choice([off, math.pi + off, -math.pi + off, 30.0 * (e - 1) + off, -30.0 * (e - 1) + off, 30.0 - e + off, -30.0 + e + off,
                            rng.choice([-1, 1]) * 10.0 ** rng.uniform(1, 3.5)])
    return {"m2e": True, "e": e, "M": M}


def m2e_case(out, inp):
    """the anomaly returned by Form.M2E solves Kepler's equation (the loop exits on convergence only: after a last Newton step
    below 1e-8 the residual is below ~1e-8 (1 + e cosh H))"""
    from beyond.orbits.forms import Form
    e, M = inp["e"], inp["M"]
    X = float(Form.M2E(e, M))
    out.count(key=("m2e", e, M), kind="m2e-" + ("ell" if e < 1 else "hyp"))
    if not math.isfinite(X):
        out.fail("m2e-nonfinite-" + ("ell" if e < 1 else ("hyp-overflow" if abs(m2e_start(e, M)) > 700 else "hyp")),
                 "Form.M2E returns a non-finite anomaly", inp, observed=X)
        return
    res = (X - e * math.sin(X) - M) if e < 1 else (e * math.sinh(X) - X - M)
    bound = 1e-7 * (1 + e) if e < 1 else 1e-7 * (e * math.cosh(X) + 1) + 1e-13 * abs(M)
    if not abs(res) <= bound + 1e-13 * abs(M):
        out.fail("m2e-kepler-equation-residual-" + ("ell" if e < 1 else "hyp"), "the anomaly returned by Form.M2E does not solve Kepler's equation "
                 "(the Newton loop was left before convergence)", inp, observed={"anomaly": X, "residual": res}, expected={"|residual| <=": bound})


def history_case(out, inp):
    """propagating an orbit object that was propagated before and modified in place gives what a fresh orbit with the same
    coordinates gives (the propagation starts from the CURRENT state), and the result carries the requested date"""
    with eop_env(inp.get("env", "zero")):
        recs = run_history(inp)
    prop = inp["propagator"]
    for idx, r in enumerate(recs):
        out.count(key=("history", prop, str(inp["steps"]), idx, tuple(inp["mean_elements"])), kind=f"history-{prop}", after_change=r["after_change"])
        if not finite(r["impl"]) and not finite(r["fresh"]):
            continue
        if not finite(r["impl"]) or not finite(r["fresh"]) or rel_err(r["impl"], r["fresh"]) > 1e-12:
            out.fail(f"{prop.lower()}-history-stale-state", f"propagation #{idx} of an orbit object (propagated before, modified in place) differs from the "
                     "propagation of a fresh orbit with the same coordinates", inp, observed=r["impl"], expected=r["fresh"], propagation=idx)
            return
        if not r["date_ok"]:
            out.fail(f"{prop.lower()}-history-date", f"propagation #{idx}: the result does not carry the requested date", inp, propagation=idx)
            return


def j2_rates(mu, a, e, i):
    """first-order secular rates (Vallado 9-37..9-41 / Kaula), with the library's Earth constants"""
    from beyond import constants as K
    n = math.sqrt(mu / a ** 3)
    p = a * (1 - e * e)
    k = K.Earth.J2 * (K.Earth.r / p) ** 2 * n
    return (-1.5 * k * math.cos(i),
            0.75 * k * (5 * math.cos(i) ** 2 - 1),
            n + 0.75 * k * math.sqrt(1 - e * e) * (3 * math.cos(i) ** 2 - 1))


CRIT = math.asin(math.sqrt(0.8))


def gen_j2_input(rng):
    elts = gen_elts(rng, "ell")
    special = None
    u = rng.random()
    if u < 0.12:
        special, elts[2] = "polar", math.pi / 2
    elif u < 0.24:
        special, elts[2] = "critical", rng.choice([CRIT, math.pi - CRIT])
    elif u < 0.36:
        # sun-synchronous: the inclination is taken from the library's own helper in j2_case
        e = rng.uniform(1e-4, 0.05)
        elts[0], elts[1] = rng.uniform(6.8e6, 7.6e6) / (1 - e), e
        special, elts[2] = "sso", None
    dt = gen_dt(rng)
    t1 = q(rng.uniform(-1, 1) * abs(dt))
    return {"propagator": "J2", "form": rng.choice(ELL_FORMS), "frame": rng.choice(FRAMES), "mean_elements": elts, "dt": dt,
            "special": special, "t1": t1, "t2": q(dt - t1)}


def j2_case(out, inp):
    """every J2 clause of the property on one fully specified input (also used by replay)"""
    H = Handing(inp)
    with eop_env(H.env):
        _j2_case(out, inp, H)


def _j2_case(out, inp, H):
    from beyond.utils.leo import sso
    elts, form, frame, dt, special = list(inp["mean_elements"]), inp["form"], inp["frame"], inp["dt"], inp.get("special")
    if special == "sso":
        elts[2] = float(sso(a=elts[0], e=elts[1]))
        inp = dict(inp, mean_elements=elts)
    orb, d0 = make(elts, form, frame, "J2", H.epoch_date())
    mu = float(orb.frame.center.body.mu)
    x0 = mean_of(orb)
    arg, dt = H.arg(orb.date, dt)        # from here on `dt` is the elapsed time the argument denotes
    res = orb.propagate(arg)
    c1 = [float(v) for v in res]
    out.count(key=("j2", form, tuple(elts), dt, H.epoch, tuple(H.via)), nontrivial=dt != 0, kind=f"j2-{special or 'generic'}", form=form, **H.dist())
    if H.dated:
        out.tally(f"scales={H.epoch[0]}>{H.used[0][1]}")
    if not finite(c1) or not finite(x0):
        out.fail(nonfinite_family("J2", x0, mu, dt), "J2.propagate returns a non-finite state inside the property's domain", inp, observed=c1)
        return
    H.check_stamp(out, "j2", inp, orb.date, arg, dt, res)
    a, e, i = elts[:3]
    n = mean_motion(mu, a)
    amp = 1 + n * abs(dt)
    cond = 1 / min(e, 1 - e)
    tol = 1e-11 * amp
    sl = 0 if H.exact else n * 3e-6
    si = math.sin(i)
    ill = ill_conditioning(i)             # see _kepler_case
    qtag = ":quasi-equatorial-" + ("prograde" if i < 1 else "retrograde") if si < 0.05 else ""
    if qtag:
        out.tally("j2" + qtag + (":via-cartesian" if form in VIA_CARTESIAN else ""))
    x1 = mean_of(res)
    rO, rw, rM = j2_rates(mu, a, e, i)
    bad = None
    if abs(x1[0] / x0[0] - 1) > tol * cond: bad = ("a", x1[0], x0[0])
    elif abs(x1[1] - x0[1]) > tol * cond: bad = ("e", x1[1], x0[1])
    elif abs(x1[2] - x0[2]) > tol / math.sin(i): bad = ("i", x1[2], x0[2])
    elif angdiff(x1[3], x0[3] + rO * dt) > tol / math.sin(i) + sl: bad = ("raan-rate", x1[3], (x0[3] + rO * dt) % TWO_PI)
    elif angdiff(x1[4], x0[4] + rw * dt) > tol * cond / e / si + 2 * ill + sl: bad = ("argp-rate", x1[4], (x0[4] + rw * dt) % TWO_PI)
    elif angdiff(x1[5], x0[5] + rM * dt) > tol * cond / e + sl: bad = ("M-rate", x1[5], (x0[5] + rM * dt) % TWO_PI)
    if bad:
        out.fail(f"j2-{bad[0]}" + H.tag() + qtag, f"J2 propagation: {bad[0]} is not constant / does not drift at the first-order secular rate "
                 "(over the time elapsed between the instants of the epoch and of the requested date)", inp, observed=bad[1], expected=bad[2],
                 elapsed_s=dt, handed=H.used[-1])
    if special == "polar" and angdiff(x1[3], x0[3]) > tol:
        out.fail("j2-polar-node-drift", "node drifts on a polar orbit", inp, observed=x1[3], expected=x0[3])
    if special == "critical" and angdiff(x1[4], x0[4]) > tol * cond / e + 1e-12 * n * abs(dt):
        out.fail("j2-critical-perigee-drift", "perigee drifts at the critical inclination", inp, observed=x1[4], expected=x0[4])
    if special == "sso":
        we = TWO_PI / 365.256363004 / 86400
        out.count(key=("sso", a, e), kind="sso-node-rate")
        if angdiff(x1[3], x0[3] + we * dt) > tol / math.sin(i) + 1e-9 * we * abs(dt) + sl:
            out.fail("j2-sso-node-rate" + H.tag(), "node of the orbit returned by leo.sso does not follow the mean Sun under J2", inp, observed=x1[3], expected=(x0[3] + we * dt) % TWO_PI)
    # composition (cartesian level)
    t1, t2 = inp["t1"], inp["t2"]
    a1, t1 = H.arg(orb.date, t1)
    mid = orb.propagate(a1)
    H.check_stamp(out, "j2", inp, orb.date, a1, t1, mid)
    a2, t2 = H.arg(mid.date, dt - t1 if H.dated else t2)
    two = [float(v) for v in mid.propagate(a2)]
    out.count(key=("j2-compose", form, tuple(elts), t1, t2, H.epoch, tuple(H.via)), kind="j2-compose")
    if not finite(two) or not rel_err(two, c1) <= 3e-9 * (1 + n * (abs(t1) + abs(t2))) * cond + 2 * H.slack(n, e) + 2 * ill:
        out.fail("j2-compose" + H.tag() + qtag, "J2: propagate(t1) then propagate(t2) differs from propagate(t1+t2)", inp, observed=two, expected=c1, handed=H.used[-3:])
    # inverse: back to the instant of the epoch, handed in yet another way
    ab, tb = H.arg(res.date, -dt)
    back = [float(v) for v in res.propagate(ab)]
    c0 = [float(v) for v in orb.copy(form="cartesian")]
    out.count(key=("j2-inverse", form, tuple(elts), dt, H.epoch, tuple(H.via)), nontrivial=dt != 0, kind="j2-inverse")
    if not finite(back) or not rel_err(back, c0) <= 3e-9 * amp * cond + 2 * H.slack(n, e) + 2 * ill:
        out.fail("j2-inverse" + H.tag() + qtag, "J2: propagate(-t) after propagate(t) does not return to the initial state", inp, observed=back, expected=c0)


def replay(f):
    """re-evaluate every clause on the recorded failing input against the real API"""
    out = Outcome()
    inp = f.get("input", {})
    if isinstance(inp, dict) and inp.get("m2e"):
        with _quiet():
            guarded(out, m2e_case, inp)
        return out
    if isinstance(inp, dict) and inp.get("equatorial"):
        with _quiet():
            guarded(out, equatorial_case, inp)
        return out
    if not isinstance(inp, dict) or "mean_elements" not in inp:
        return oracle(core.Ctx(ID, "quick", 0), False)
    warm_envs()
    with _quiet():
        if "steps" in inp:
            guarded(out, history_case, dict(inp, steps=[tuple(st) for st in inp["steps"]]))
        elif inp.get("api"):
            guarded(out, api_case, inp)
        else:
            guarded(out, kepler_case if inp["propagator"] == "Kepler" else j2_case, inp)
    return out
