"""C04 — results depend on the instant, never on the Date's scale label."""
import ast
import copy
import datetime as _dtm
import itertools
import math
import os
import pickle

from harness import core
from harness.core import Outcome

ID = "C04"
LEAN_TARGETS = ["BeyondVerif.Props.C04", "BeyondVerif.Witness.C04"]
THEOREMS = [
    "BeyondVerif.C04.mk_carries_record_of_utc_day",
    "BeyondVerif.C04.record_function_of_instant",
    "BeyondVerif.C04.record_function_of_instant_mono",
    "BeyondVerif.C04.modernLeap_monotone",
    "BeyondVerif.C04.relabel_keeps_instant_and_record",
    "BeyondVerif.C04.relabel_ut1_within_slack",
    "BeyondVerif.C04.relabel_any_within_slack",
    "BeyondVerif.C04.add_is_constructor",
    "BeyondVerif.C04.add_carries_record_of_utc_day",
    "BeyondVerif.C04.add_function_of_instant",
    "BeyondVerif.C04.add_after_relabel",
    "BeyondVerif.C04.range_dates_are_sums",
    "BeyondVerif.C04.range_dates_carry_record",
    "BeyondVerif.C04.consumers_function_of_instant",
    "BeyondVerif.C04.utc_fields_function_of_instant",
    "BeyondVerif.C04.consumers_within_slack",
    "BeyondVerif.C04.nodeLookup_by_instant",
    "BeyondVerif.C04.consumers_take_no_own_scale_reading",
    "BeyondVerif.C04.parse_date_passes_scale",
    "BeyondVerif.C04.parse_date_call_sites_use_time_system",
    "BeyondVerif.C04.parseDate_scale_reaches_date",
    "BeyondVerif.C04.parseDate_reading_label_free",
    "BeyondVerif.C04.ccsds_writers_convert_to_time_system",
    "BeyondVerif.C04.ccsds_segments_own_time_system",
    "BeyondVerif.C04.ccsds_epoch_roundtrip_same_label",
    "BeyondVerif.C04.ccsds_epoch_roundtrip",
    "BeyondVerif.C04.ccsds_reread_within_slack",
    "BeyondVerif.C04.ccsds_epoch_roundtrip_slack",
    "BeyondVerif.C04.ccsds_message_labels",
    "BeyondVerif.C04W.ccsds_mixed_label_moves_instant",
    "BeyondVerif.C04W.ccsds_mixed_label_keeps_instant",
    "BeyondVerif.C04W.foreign_segment_scale_moves_instants",
    "BeyondVerif.C04W.same_day_shortcut_keeps_wrong_record",
    "BeyondVerif.C04W.eop_day_own_scale_depends_on_label",
    "BeyondVerif.C04W.reading_key_confuses_labels",
]
LEVEL_TEXT = ("Lean theorems over C03's faithful integer model of beyond's Date (Model/Date.lean: constructor with offset and EOP record looked up by UTC day, "
              "_convert_to_scale, change_scale, + / - timedelta, comparisons, datetime readings) instantiated with the scale graph, _scale_* methods and IERS tables "
              "regenerated from /repo on every run: a date is (instant, label, EOP record) and 'label-free' is proved for both the instant and the record — every "
              "constructed date carries the record of its own UTC day and the record is a function of the instant (leap seconds included, by monotonicity of the "
              "regenerated leap table); change_scale between UTC/TAI/TT/GPS keeps instant and record exactly (UT1: 1.5 us); date + t carries the record of ITS OWN UTC "
              "day and is the same instant with the same record under every label of the operand; time since epoch, ordering/equality/hash, interpolation abscissa "
              "and the UTC calendar reading handed to SGP4 / written to a TLE are functions of the instant; an index of dated nodes keyed by what hash/== see answers by instant only "
              "(keyed by the clock reading `.datetime` it confuses labels: witness), and the date-consuming modules (regenerated list of every `.datetime`/`.mjd`/`.jd`/strftime/%-format "
              "site in propagators, ephemeris, interpolator, maneuvers, listeners, Sun/Moon, TLE writer) take a clock reading only after an explicit change_scale. CCSDS: a string-level model of parse_date (strptime cascade "
              "regenerated from commons.py) with the theorem that the TIME_SYSTEM reaches the constructed date on every format branch and from every reader call site; "
              "every epoch emission site of the OPM/OEM/OMM/TDM writers (regenerated) converts to the message's TIME_SYSTEM, and write-then-read keeps the instant of an epoch "
              "labelled in any scale (exact for UTC/TAI/TT/GPS, 2.5 us with UT1/TDB; fixed by aa1842c, regression witness kept). "
              "A message of several objects is dumped segment by segment, each under the scale of its own head (regenerated emission sites must take the scale inside the segment's loop turn). "
              "The model is tied to the code by a correspondence on operation HISTORIES of the real Date (construct, +, -, change_scale, copy, DateRange iteration, "
              "comparisons, parse_date) in three EOP environments (real IERS tables, all-zero, the constant mock of the test-suite), and by an oracle sweep of every "
              "date-consuming public operation x 6 labels for the argument date x 6 labels for the epoch on the real API.")
LEVEL_NOTE = ("the theorems cover the Date layer and the CCSDS epoch text layer; that each operation uses its dates only through those quantities is established by the "
              "oracle sweep on the real API, not by proof; UT1/TDB conversions are within 1.5 us, so results are compared with |v| x 3 us tolerance; "
              "hypotheses of the Date theorems: readings covered by the tables with no leap second between the label reading and its UTC reading (Clean), whole microseconds")
TECHNIQUE = "Lean 4 proof over the integer model of Date regenerated from source; differential correspondence on operation histories; exhaustive label x label sweep of the real operations"
TRUSTED = ["harness: relabelling is done with Date.change_scale on the real API; EOP tables from tests/data/pole",
           "datetime.strptime restricted to %Y %m %d %j %H %M %S %f and literal separators is modelled by hand (Model/CcsdsDate.lean) and compared with the real parse_date on generated spellings"]
ASSUMPTIONS = ["instants are at least 2 minutes away from a leap second (documented: leap seconds are not handled)",
               "dates exact to the microsecond; UT1 and TDB offsets rounded to the microsecond as timedelta does",
               "CCSDS epoch texts are ASCII"]
NOT_COVERED = ["that every public operation consumes its date only through the modelled quantities is checked by the label sweep on the real API, not proved",
               "per-object memoisation inside propagators (a value derived from the first date re-used for later dates) is outside the Lean model: it is searched by the history oracle only",
               "TDM reading/writing beyond the epochs (participants, units) is C13's"]
OPEN = []
RULE = ("oracle: for each operation (SGP4, native SGP4, Kepler, J2, numerical, CW, Sun/Moon, frame conversion, ephemeris interpolation, event detection, "
        "TLE writing, CCSDS OPM/OEM/OMM/TDM writing+reading in every legal spelling of the epochs, single objects and lists of objects (one segment each), Date + / - timedelta, "
        "DateRange / Ephem iteration, HISTORIES of several instants on one bound object across leap seconds and UTC midnights, and COINCIDENT READINGS — a request that shows, under another label, "
        "exactly the clock reading of a date the object holds: a tabulated point of an ephemeris (linear / Lagrange, steps 1-60 s, interpolate / iter), the orbit's epoch, a maneuver, "
        "the previous request on the same object) the result for the instant "
        "labelled UTC is compared with the result for the same instant in each of the other 5 scales, for the argument date and for the object's epoch; "
        "non-trivial = label differs from UTC; distinct = (operation, instant, labels)")

SCALES = ["UTC", "TAI", "TT", "GPS", "UT1", "TDB"]


def extract(ctx):
    """the configuration of the date model (scale graph, `_scale_*` methods, second EOP lookup, IERS tables: C03's
    extractor) and the cascade of formats of the CCSDS `parse_date` with its call sites"""
    from harness.props import C03
    ch = list(C03.extract(ctx) or [])
    ch += extract_ccsds_dates()
    return ch


# ---------------------------------------------------------------- extract: beyond/io/ccsds -> Generated/CcsdsDates.lean

def _ccsds_dir():
    return os.path.join(core.REPO, "beyond", "io", "ccsds")


def _lean_str(s):
    return '"' + s.replace("\\", "\\\\").replace('"', '\\"') + '"'


def parse_date_branches(tree):
    """the `Date.strptime(string, FMT, scale=scale)` calls of `parse_date` in the order the `try … except ValueError`
    cascade tries them: [(format string, scale handed on?)].  RuntimeError when the function is not such a cascade."""
    consts = {}
    for st in tree.body:
        if isinstance(st, ast.Assign) and len(st.targets) == 1 and isinstance(st.targets[0], ast.Name) and isinstance(st.value, ast.Constant) and isinstance(st.value.value, str):
            consts[st.targets[0].id] = st.value.value
    fn = next((f for f in tree.body if isinstance(f, ast.FunctionDef) and f.name == "parse_date"), None)
    if fn is None:
        raise RuntimeError("commons.py: no function parse_date")
    params = [a.arg for a in fn.args.args]
    if len(params) != 2:
        raise RuntimeError("parse_date: expected the parameters (string, scale)")
    p_str, p_scale = params

    def branch(st):
        if not isinstance(st, (ast.Assign, ast.Return)) or not isinstance(st.value, ast.Call):
            raise RuntimeError(f"parse_date: line {st.lineno}: not a Date.strptime call")
        c = st.value
        if not (isinstance(c.func, ast.Attribute) and c.func.attr == "strptime" and isinstance(c.func.value, ast.Name) and c.func.value.id == "Date"):
            raise RuntimeError(f"parse_date: line {st.lineno}: not a Date.strptime call")
        if not (len(c.args) >= 2 and isinstance(c.args[0], ast.Name) and c.args[0].id == p_str):
            raise RuntimeError(f"parse_date: line {st.lineno}: first argument is not the text")
        f = c.args[1]
        if isinstance(f, ast.Name) and f.id in consts:
            fmt = consts[f.id]
        elif isinstance(f, ast.Constant) and isinstance(f.value, str):
            fmt = f.value
        else:
            raise RuntimeError(f"parse_date: line {st.lineno}: format is not a module constant")
        cands = list(c.args[2:3]) + [k.value for k in c.keywords if k.arg == "scale"]
        if any(k.arg is None for k in c.keywords) or len(cands) > 1:
            raise RuntimeError(f"parse_date: line {st.lineno}: scale argument not understood")
        if cands and not (isinstance(cands[0], ast.Name) and cands[0].id == p_scale):
            raise RuntimeError(f"parse_date: line {st.lineno}: the scale handed on is not the parameter")
        return fmt, bool(cands)

    def walk(stmts):
        stmts = [s_ for s_ in stmts if not (isinstance(s_, ast.Expr) and isinstance(s_.value, ast.Constant))]
        if not stmts:
            raise RuntimeError("parse_date: empty block")
        head, rest = stmts[0], stmts[1:]
        for r in rest:
            if not (isinstance(r, ast.Return) and isinstance(r.value, ast.Name)):
                raise RuntimeError(f"parse_date: line {r.lineno}: statement not understood")
        if isinstance(head, ast.Try):
            if head.orelse or head.finalbody or len(head.handlers) != 1 or len(head.body) != 1:
                raise RuntimeError(f"parse_date: line {head.lineno}: try block not understood")
            h = head.handlers[0]
            if not (isinstance(h.type, ast.Name) and h.type.id == "ValueError"):
                raise RuntimeError(f"parse_date: line {h.lineno}: handler is not `except ValueError`")
            return [branch(head.body[0])] + walk(h.body)
        return [branch(head)]

    return walk(fn.body)


def parse_date_call_sites():
    """every call of parse_date in beyond/io/ccsds: (file:line, the scale argument is the message's TIME_SYSTEM?) — the
    argument is either an expression reading TIME_SYSTEM or a local name every assignment of which, in the enclosing
    function, reads TIME_SYSTEM"""
    sites = []
    for fn in sorted(os.listdir(_ccsds_dir())):
        if not fn.endswith(".py"):
            continue
        src = open(os.path.join(_ccsds_dir(), fn)).read()
        tree = ast.parse(src)
        for func in [n for n in ast.walk(tree) if isinstance(n, ast.FunctionDef)]:
            assigns = {}
            for n in ast.walk(func):
                if isinstance(n, ast.Assign):
                    for t in n.targets:
                        if isinstance(t, ast.Name):
                            assigns.setdefault(t.id, []).append(ast.get_source_segment(src, n.value) or "")
            for c in ast.walk(func):
                if isinstance(c, ast.Call) and isinstance(c.func, ast.Name) and c.func.id == "parse_date":
                    ok = False
                    if len(c.args) == 2 and not c.keywords:
                        a = c.args[1]
                        seg = ast.get_source_segment(src, a) or ""
                        if "TIME_SYSTEM" in seg:
                            ok = True
                        elif isinstance(a, ast.Name) and assigns.get(a.id) and all("TIME_SYSTEM" in v for v in assigns[a.id]):
                            ok = True
                    args_txt = ", ".join(" ".join((ast.get_source_segment(src, a_) or "?").split()) for a_ in c.args)
                    sites.append((f"{fn}:{func.name}:parse_date({args_txt})", ok))
    return sorted(set(sites))


# ---- writers: every place an epoch is put on the wire

def _src(src, node):
    return " ".join((ast.get_source_segment(src, node) or "?").split())


def _is_fmt_name(node):
    return isinstance(node, ast.Name) and node.id.startswith("DATE_FMT")


def _head_scale_param(func, src):
    """parameters P of `func` such that the function reads `P.date.scale` / `P.start.scale` (it decides TIME_SYSTEM)"""
    params = {a.arg for a in func.args.args}
    out = set()
    for n in ast.walk(func):
        if isinstance(n, ast.Attribute) and n.attr == "scale" and isinstance(n.value, ast.Attribute) and n.value.attr in ("date", "start") \
                and isinstance(n.value.value, ast.Name) and n.value.value.id in params:
            out.add(n.value.value.id)
    return out


def writer_epoch_sites():
    """every expression the CCSDS writers format as an epoch (`X.strftime(DATE_FMT…)`, a `{…:{dfmt}}` field of a
    `.format(…, dfmt=DATE_FMT…)` template), per writer function: (file:function, expression text, kind) with kind
      head      — the date that decides TIME_SYSTEM (`O.date` / `O.start` of the message object O, or of a copy of it)
      converted — `in_scale(<date>, <head>.scale)` with the head of the SAME segment (the scale expression evaluated inside the
                  loop turn that prints the segment's TIME_SYSTEM, directly or through a local name assigned there)
      foreign-scale — `in_scale(<date>, <anything else>)`: converted, but not to the scale this segment's metadata prints
      creation  — `Date.now()` (CREATION_DATE of the header: not an epoch of the message's TIME_SYSTEM)
      raw       — anything else: a date printed in its own scale under the message's TIME_SYSTEM
    Keyed on function name and expression text, no line numbers."""
    import string
    files = {}
    for fn in sorted(os.listdir(_ccsds_dir())):
        if fn.endswith(".py"):
            src = open(os.path.join(_ccsds_dir(), fn)).read()
            files[fn] = (src, ast.parse(src))
    # functions that decide TIME_SYSTEM from one of their parameters, and at which argument position
    meta_funcs = {}
    for fn, (src, tree) in files.items():
        for func in [n for n in ast.walk(tree) if isinstance(n, ast.FunctionDef)]:
            ps = _head_scale_param(func, src)
            if ps and any(isinstance(n, ast.Constant) and isinstance(n.value, str) and "TIME_SYSTEM" in n.value for n in ast.walk(func)):
                names = [a.arg for a in func.args.args]
                meta_funcs[func.name] = [names.index(p_) for p_ in ps]
    sites = []
    for fn, (src, tree) in files.items():
        for func in [n for n in ast.walk(tree) if isinstance(n, ast.FunctionDef)]:
            # the message object(s) of this function
            heads = set(_head_scale_param(func, src)) if func.name in meta_funcs else set()
            meta_lines = []
            for c in ast.walk(func):
                if isinstance(c, ast.Call) and isinstance(c.func, ast.Name) and c.func.id in meta_funcs:
                    for pos in meta_funcs[c.func.id]:
                        if pos < len(c.args) and isinstance(c.args[pos], ast.Name):
                            heads.add(c.args[pos].id)
                            meta_lines.append(c.lineno)
            # the SEGMENT: the innermost loop holding the call that prints this segment's TIME_SYSTEM (one segment per turn);
            # an epoch belongs to the segment, and may take its target scale, only from inside that loop body
            loops = [n for n in ast.walk(func) if isinstance(n, (ast.For, ast.While)) and any(n.body[0].lineno <= ln <= n.end_lineno for ln in meta_lines)]
            seg = min(loops, key=lambda n: n.end_lineno - n.lineno) if loops else None

            def in_segment(line):
                return seg is None or seg.body[0].lineno <= line <= seg.end_lineno
            assigns = {}
            for n in ast.walk(func):
                if isinstance(n, ast.Assign):
                    for t in n.targets:
                        if isinstance(t, ast.Name):
                            assigns.setdefault(t.id, []).append((n.lineno, n.value))

            def is_obj(node):
                """the message object, a copy of it, or it divided by a unit"""
                if isinstance(node, ast.Name):
                    if node.id in heads:
                        return True
                    vals = assigns.get(node.id, [])
                    return bool(vals) and all(is_obj(v) for _, v in vals if not (isinstance(v, ast.Name) and v.id == node.id))
                if isinstance(node, ast.BinOp) and isinstance(node.op, ast.Div):
                    return is_obj(node.left)
                if isinstance(node, ast.Call) and isinstance(node.func, ast.Attribute) and node.func.attr == "copy":
                    return is_obj(node.func.value)
                return False

            def is_head(node):
                return isinstance(node, ast.Attribute) and node.attr in ("date", "start") and is_obj(node.value)

            def segment_scale(node, line):
                """the expression is the scale of THIS segment's head: `<head>.scale` evaluated inside the segment, or a local
                name last assigned from such an expression inside the segment"""
                if isinstance(node, ast.Attribute) and node.attr == "scale":
                    return is_head(node.value) and in_segment(line)
                if isinstance(node, ast.Name):
                    before = [(ln, v) for ln, v in assigns.get(node.id, []) if ln <= line]
                    if before:
                        ln, v = max(before, key=lambda t: t[0])
                        return not isinstance(v, ast.Name) and segment_scale(v, ln)
                return False

            def kind_of(node, line):
                if isinstance(node, ast.Call) and _src(src, node) == "Date.now()":
                    return "creation"
                if isinstance(node, ast.Call) and isinstance(node.func, ast.Name) and node.func.id == "in_scale":
                    a = node.args
                    if len(a) != 2:
                        return "raw"
                    # converted to the scale the SAME segment's metadata prints; to any other scale: as bad as not converted
                    return "converted" if segment_scale(a[1], line) else "foreign-scale"
                if is_head(node):
                    return "head" if in_segment(line) else "raw"
                if isinstance(node, ast.Name):
                    before = [(ln, v) for ln, v in assigns.get(node.id, []) if ln <= line]
                    if before:
                        return kind_of(max(before, key=lambda t: t[0])[1], line)
                return "raw"

            for c in ast.walk(func):
                if not (isinstance(c, ast.Call) and isinstance(c.func, ast.Attribute)):
                    continue
                if c.func.attr == "strftime" and c.args and _is_fmt_name(c.args[0]):
                    sites.append((f"{fn}:{func.name}", _src(src, c.func.value), kind_of(c.func.value, c.lineno)))
                elif c.func.attr == "format" and isinstance(c.func.value, ast.Constant) and isinstance(c.func.value.value, str):
                    kw = {k.arg: k.value for k in c.keywords if k.arg}
                    pos = list(c.args)
                    if not any(_is_fmt_name(v) for v in list(kw.values()) + pos):
                        continue
                    counter = [0]

                    def lookup(name):
                        """(value node, attribute tail) of a replacement field name"""
                        root = name.split(".")[0].split("[")[0]
                        tail = name[len(root):]
                        if root == "":
                            i = counter[0]; counter[0] += 1
                            return (pos[i] if i < len(pos) else None), tail
                        if root.isdigit():
                            return (pos[int(root)] if int(root) < len(pos) else None), tail
                        return kw.get(root), tail
                    for _, field, spec, _ in string.Formatter().parse(c.func.value.value):
                        if field is None:
                            continue
                        val, tail = lookup(field)
                        uses_fmt = False
                        for _, f2, _, _ in string.Formatter().parse(spec or ""):
                            if f2 is not None:
                                v2, _ = lookup(f2)
                                uses_fmt = uses_fmt or (v2 is not None and _is_fmt_name(v2))
                        if not uses_fmt or val is None:
                            continue
                        node = val
                        for attr in [t for t in tail.split(".") if t]:
                            node = ast.Attribute(value=node, attr=attr, ctx=ast.Load())
                        txt = _src(src, val)
                        if tail and not isinstance(val, (ast.Name, ast.Attribute, ast.Call)):
                            txt = f"({txt})"
                        sites.append((f"{fn}:{func.name}", txt + tail, kind_of(node, c.lineno)))
    return sorted(set(sites))


# ---- consumers of dates: every place a clock READING (not the instant) of a date is taken

CONSUMER_FILES = ("propagators/base.py", "propagators/sgp4.py", "propagators/sgp4beta.py", "propagators/kepler.py", "propagators/j2.py",
                  "propagators/keplernum.py", "propagators/cw.py", "propagators/listeners.py", "orbits/ephem.py", "orbits/man.py",
                  "utils/interp.py", "env/solarsystem.py", "io/tle.py")
READING_ATTRS = ("datetime", "mjd", "jd", "julian_century", "strftime", "isoformat", "timetuple")


def consumer_reading_sites():
    """every expression in the date-consuming modules that takes a clock READING of a date — `.datetime`, `.mjd`, `.jd`,
    `.julian_century`, `strftime` / a `%`-format spec — with the scale it is taken in: `converted:<SCALE>` when the receiver is
    `<expr>.change_scale("<SCALE>")` (directly, or a local name every assignment of which in the function is such a
    conversion or a reading of one), else `own-scale` (the reading then depends on the label the caller chose).
    `_mjd` / `_datetime` / comparisons / subtraction are the instant and are not listed."""
    sites = []
    for rel in CONSUMER_FILES:
        path = os.path.join(core.REPO, "beyond", rel)
        if not os.path.exists(path):
            raise RuntimeError(f"beyond/{rel}: file not found")
        src = open(path).read()
        tree = ast.parse(src)
        funcs = [n for n in ast.walk(tree) if isinstance(n, (ast.FunctionDef, ast.Lambda))]
        for func in funcs:
            assigns = {}
            for n in ast.walk(func):
                if isinstance(n, ast.Assign):
                    for t in n.targets:
                        if isinstance(t, ast.Name):
                            assigns.setdefault(t.id, []).append(n.value)
                elif isinstance(n, (ast.AugAssign, ast.For, ast.comprehension)) and isinstance(getattr(n, "target", None), ast.Name):
                    assigns.setdefault(n.target.id, []).append(None)
            params = {a.arg for a in (func.args.args + func.args.kwonlyargs + func.args.posonlyargs)}

            def conv(node, depth=0):
                """the scale the value of `node` has been converted to, or None"""
                if isinstance(node, ast.Call) and isinstance(node.func, ast.Attribute) and node.func.attr == "change_scale" \
                        and len(node.args) == 1 and not node.keywords and isinstance(node.args[0], ast.Constant) and isinstance(node.args[0].value, str):
                    return node.args[0].value
                if isinstance(node, ast.Attribute) and node.attr in READING_ATTRS:
                    return conv(node.value, depth)
                if isinstance(node, ast.Name) and depth < 3 and node.id in assigns and None not in assigns[node.id]:
                    # a parameter re-assigned (`date = date.change_scale("TDB")`) is converted from that statement on; readings are
                    # listed with the conversion only when every assignment converts to the same scale
                    got = {conv(v, depth + 1) for v in assigns[node.id] if not (isinstance(v, ast.Name) and v.id == node.id)}
                    if len(got) == 1 and None not in got:
                        return got.pop()
                return None
            name = getattr(func, "name", "<lambda>")
            own = [n for n in ast.walk(func)]
            for n in own:
                recv = None
                if isinstance(n, ast.Attribute) and n.attr in READING_ATTRS and isinstance(n.ctx, ast.Load):
                    if isinstance(n.value, ast.Name) and n.value.id in ("datetime", "_dtm"):
                        continue                                     # the module `datetime`
                    recv = [n.value]
                elif isinstance(n, ast.FormattedValue) and n.format_spec is not None and "%" in (ast.get_source_segment(src, n.format_spec) or _src(src, n)):
                    recv = [n.value]
                elif isinstance(n, ast.Call) and isinstance(n.func, ast.Attribute) and n.func.attr == "format" and isinstance(n.func.value, ast.Constant) \
                        and isinstance(n.func.value.value, str) and ":%" in n.func.value.value:
                    fmt = n.func.value.value
                    for r in ([a for a in n.args if "{:%" in fmt] + [k.value for k in n.keywords if k.arg and "{" + k.arg + ":%" in fmt]):
                        sc = conv(r)
                        sites.append((f"{rel}:{name}", f"<format with a % field>.format({_src(src, r)})", f"converted:{sc}" if sc else "own-scale"))
                for r in recv or []:
                    sc = conv(r)
                    sites.append((f"{rel}:{name}", _src(src, n), f"converted:{sc}" if sc else "own-scale"))
    return sorted(set(sites))


def extract_ccsds_dates():
    tree = ast.parse(open(os.path.join(_ccsds_dir(), "commons.py")).read())
    brs = parse_date_branches(tree)
    sites = parse_date_call_sites()
    if not sites:
        raise RuntimeError("no call of parse_date found in beyond/io/ccsds")
    wsites = writer_epoch_sites()
    if not any(k == "head" for _, _, k in wsites):
        raise RuntimeError("no epoch emission found in the CCSDS writers")
    rsites = consumer_reading_sites()
    txt = ["/- GENERATED by harness/props/C04.py from beyond/io/ccsds/*.py and the date-consuming modules (AST) — do not edit. -/",
           "namespace BeyondVerif.Generated",
           "/-- `parse_date`: the `Date.strptime(string, FMT, scale=scale)` calls in the order the `try … except ValueError` cascade",
           "tries them: (format, is the scale parameter handed on?) -/",
           "def parseDateBranches : List (String × Bool) := [" + ", ".join(f"({_lean_str(f)}, {'true' if s_ else 'false'})" for f, s_ in brs) + "]",
           "/-- every call of `parse_date` in beyond/io/ccsds: (file:function:call text, the scale argument is the message's TIME_SYSTEM?) -/",
           "def parseDateCallSites : List (String × Bool) := [" + ",\n  ".join(f"({_lean_str(w)}, {'true' if o else 'false'})" for w, o in sites) + "]",
           "/-- every expression the writers format as an epoch: (file:function, expression, kind) — head = the date that decides",
           "TIME_SYSTEM, converted = `in_scale(date, head.scale)` with the head of the same segment, creation = `Date.now()` of the header,",
           "foreign-scale = converted to another scale than the segment's TIME_SYSTEM, raw = a date in its own scale -/",
           "def writerEpochSites : List (String × String × String) := [" + ",\n  ".join(f"({_lean_str(w)}, {_lean_str(e)}, {_lean_str(k)})" for w, e, k in wsites) + "]",
           "/-- every expression of the date-consuming modules (propagators, ephemeris, interpolator, maneuvers, listeners, Sun/Moon, TLE",
           "writer) that takes a clock READING of a date (`.datetime`, `.mjd`, `.jd`, `.julian_century`, `strftime`, a `%` format):",
           "(file:function, expression, `converted:<SCALE>` when taken after `change_scale(\"<SCALE>\")`, else `own-scale`) -/",
           "def consumerReadingSites : List (String × String × String) := [" + ",\n  ".join(f"({_lean_str(w)}, {_lean_str(e)}, {_lean_str(k)})" for w, e, k in rsites) + "]",
           "end BeyondVerif.Generated", ""]
    if core.write_if_changed(os.path.join(core.LEAN, "BeyondVerif", "Generated", "CcsdsDates.lean"), "\n".join(txt)):
        return ["Generated/CcsdsDates.lean"]
    return []


# ---------------------------------------------------------------- correspondence: the real Date vs C03's integer model

UNIFORM = ("UTC", "TAI", "TT", "GPS")
T0 = _dtm.datetime(1858, 11, 17)
ENVS = ("real", "zero", "const")
DAY_US = 86400 * 10**6
MOCK_EOP = dict(x=-0.00951054166666622, y=0.31093590624999734, dpsi=-94.19544791666682, deps=-10.295645833333051,
                dy=-0.10067361111115315, dx=-0.06829513888889051, lod=1.6242802083331438, ut1_utc=0.0175602, tai_utc=36.0)


def real_env(name):
    """context manager putting the real library in one of the three EOP environments of Drv/C04.lean:
    real = IERS tables of tests/data/pole; zero = every lookup gives the all-zero record; const = the constant record the
    library's own test-suite mocks EopDb.get with"""
    import contextlib
    from unittest import mock
    from harness import env
    env.use_real_eop()
    if name == "real":
        return contextlib.nullcontext()
    from beyond.dates.eop import EopDb, Eop
    rec = Eop(**(MOCK_EOP if name == "const" else {k: 0 for k in MOCK_EOP}))
    return mock.patch.object(EopDb, "get", new=lambda mjd, dbname=None: rec)


def minus_utc(scale, day, envname):
    """label clock minus UTC clock in microseconds, good to 1 s (used only to place readings next to boundaries)"""
    from harness.props import C03
    tai = {"real": (C03.leap_at(day) or 0) // 10, "zero": 0, "const": 36 * 10**6}[envname]
    return {"UTC": 0, "UT1": 0, "TAI": tai, "TT": tai + 32184000, "TDB": tai + 32184000, "GPS": tai - 19000000}[scale]


def gen_reading(rng, scale, envname):
    """a clock reading of `scale` (integer µs since the MJD origin), boundary-heavy: just after / before midnight of the
    own scale, either side of UTC midnight (the EOP tables are indexed by UTC day), either side of TAI midnight (where the
    stored `_d` / `_s` wrap), leap-second days, exact midnights"""
    from harness.props import C03
    _, _, first, last = C03.tables()
    if envname == "real":
        day = rng.randint(first + 2, last - 2)
        if rng.random() < 0.15:
            ld = rng.choice([d for d in C03.leap_days() if d > first + 3])
            day = ld + rng.choice([-1, 0, 0, 1])
    else:
        day = rng.randint(45000, 60000)
    off = minus_utc(scale, day, envname)
    tai_off = off - minus_utc("TAI", day, envname)           # label − TAI
    r = rng.random()
    if r < 0.20:
        tod = rng.randrange(0, 75 * 10**6)
    elif r < 0.35:
        tod = DAY_US - 1 - rng.randrange(0, 75 * 10**6)
    elif r < 0.55:
        tod = (off + rng.randint(-75 * 10**6, 75 * 10**6)) % DAY_US
    elif r < 0.70:
        tod = (tai_off + rng.randint(-2 * 10**6, 2 * 10**6)) % DAY_US
    elif r < 0.78:
        tod = rng.choice([0, 1, DAY_US - 1, off % DAY_US, (off - 1) % DAY_US, tai_off % DAY_US, 10**6, DAY_US // 2])
    else:
        tod = rng.randrange(DAY_US)
    return day * DAY_US + tod


def gen_delta(rng, tod, envname):
    """a timedelta (µs): small, landing elsewhere in the same own-scale day, landing on a midnight, whole days, long"""
    r = rng.random()
    if r < 0.25:
        return rng.randint(-150 * 10**6, 150 * 10**6)
    if r < 0.42:
        return rng.randrange(DAY_US) - tod                     # same own-scale day, any side of UTC midnight
    if r < 0.52:
        return rng.choice([-tod, -tod - 1, DAY_US - tod, DAY_US - tod - 1, -tod + 1])
    if r < 0.62:
        return rng.choice([0, 1, -1, 10**6, -10**6, DAY_US, -DAY_US])
    if r < 0.85:
        return rng.randint(-3 * DAY_US, 3 * DAY_US)
    return rng.randint(-200 * DAY_US, 200 * DAY_US)


def make_date(Date, dt, scale, form):
    """the constructor forms of Date for one clock reading: datetime, calendar fields, (day, seconds), Date.strptime"""
    if form == 0:
        return Date(dt, scale=scale)
    if form == 1:
        return Date(dt.year, dt.month, dt.day, dt.hour, dt.minute, dt.second, dt.microsecond, scale=scale)
    if form == 2:
        us = (dt - T0)
        return Date(us.days, us.seconds + us.microseconds / 1e6, scale=scale)
    return Date.strptime(dt.strftime("%Y-%m-%dT%H:%M:%S.%f"), "%Y-%m-%dT%H:%M:%S.%f", scale=scale)


def show(x):
    from harness.props import C03
    return C03.real_show(x)[3:]


def _real_err(e):
    from beyond.errors import EopError, UnknownScaleError, DateError
    if isinstance(e, (KeyError, EopError)):
        return "err missing-eop"
    if isinstance(e, UnknownScaleError):
        return "err unknown-scale"
    if isinstance(e, DateError):
        return "err unknown-conversion"
    raise e


def same_show(real, model, exact):
    from harness.props import C03
    if real == model:
        return True
    if real.startswith("err") or model.startswith("err"):
        return False
    return C03.same_reply("ok " + real, "ok " + model, exact)


def correspondence(ctx):
    """the real Date against the compiled model of Model/Date.lean (configuration regenerated from /repo), in three EOP
    environments, on operation HISTORIES: construct, then + / − timedelta, change_scale, copy-construct, in any order,
    every intermediate date compared in full (instant, own clock reading, offset, EOP record); DateRange iteration on full
    dates; differences / comparisons / hash; the CCSDS `parse_date` against Model/CcsdsDate.lean"""
    from harness.props import C03
    with real_env("real"):
        pass
    from beyond.dates import Date, timedelta
    out = Outcome()
    rng = ctx.rng
    _, _, first, last = C03.tables()
    lines, reals, metas = [], [], []

    # ---- histories
    n_hist = ctx.n(260, 3000)
    for envname in ENVS:
        with real_env(envname):
            for _ in range(n_hist if envname == "real" else n_hist // 4):
                nonuni = rng.random() < 0.15
                sc = rng.choice(["UT1", "TDB"]) if nonuni and rng.random() < 0.5 else rng.choice(UNIFORM)
                us = gen_reading(rng, sc, envname)
                ops, rep = [], []
                exact = sc in UNIFORM
                try:
                    x = make_date(Date, C03.dt_of(us), sc, rng.randrange(4))
                    rep.append(show(x))
                    nops = rng.choice([1, 1, 2, 3, 5]) if exact else 1
                    for k in range(nops):
                        r = rng.random()
                        tod = round(x.s * 1e6)
                        if r < 0.55:
                            t = gen_delta(rng, tod, envname)
                            ops.append(f"a{t}")
                            x = x + timedelta(microseconds=t)
                        elif r < 0.70:
                            t = gen_delta(rng, tod, envname)
                            ops.append(f"s{-t}")
                            x = x - timedelta(microseconds=-t)
                        elif r < 0.92:
                            last_op = k == nops - 1
                            to = rng.choice(["UT1", "TDB"]) if (nonuni and last_op and exact) else rng.choice(UNIFORM)
                            if to not in UNIFORM:
                                exact = False
                            ops.append(f"c{to}")
                            x = x.change_scale(to)
                        elif r < 0.97:
                            ops.append("n")
                            x = Date(x)
                        else:
                            ops.append("p")          # a copy made without the constructor: the same date
                            x = pickle.loads(pickle.dumps(x)) if rng.random() < 0.5 else copy.deepcopy(x)
                        rep.append(show(x))
                except Exception as e:  # noqa: BLE001
                    rep.append(_real_err(e))
                lines.append(f"c04.chain {envname} {sc} {us} " + " ".join(ops))
                reals.append(" | ".join(rep))
                metas.append(("history", exact, envname))
                out.count(key=lines[-1], kind="history", env=envname, exact=exact, ops=len(ops))

    # ---- DateRange on full dates (start + timedelta, step of either sign)
    for envname in ("real", "const"):
        with real_env(envname):
            for _ in range(ctx.n(60, 600) if envname == "real" else ctx.n(15, 150)):
                sc = rng.choice(UNIFORM)
                us = gen_reading(rng, sc, envname)
                step = rng.choice([1, -1]) * rng.choice([10**6, 10 * 10**6, 37 * 10**6, 600 * 10**6, rng.randint(1, 10**8), DAY_US, rng.randint(1, 3 * DAY_US)])
                n = rng.randint(0, 30)
                dur = n * step + (0 if rng.random() < 0.5 else (step // 3))
                if rng.random() < 0.06:
                    dur = -dur if dur else -step
                if rng.random() < 0.03:
                    step = 0
                incl = rng.random() < 0.5
                try:
                    start = Date(C03.dt_of(us), scale=sc)
                    rg = Date.range(start, timedelta(microseconds=dur), timedelta(microseconds=step), inclusive=incl)
                    items = list(itertools.islice(iter(rg), 80))       # a broken `+` may never reach the stop date
                    real = " | ".join(["ok"] + [show(d) for d in items]) if len(items) < 80 else "err runaway-iteration"
                except ValueError as e:
                    real = "err null-step" if "Null" in str(e) else "err incoherent"
                lines.append(f"c04.range {envname} {sc} {us} {dur} {step} {int(incl)}")
                reals.append(real)
                metas.append(("daterange", True, envname))
                out.count(key=lines[-1], kind="daterange", env=envname, step="0" if step == 0 else "+" if step > 0 else "-")

    # ---- difference, comparisons, hash of two dates under any two labels
    for envname in ENVS:
        with real_env(envname):
            for _ in range(ctx.n(100, 1500) if envname == "real" else ctx.n(30, 300)):
                sa, sb = rng.choice(UNIFORM), rng.choice(UNIFORM)
                ua = gen_reading(rng, sa, envname)
                day = ua // DAY_US
                delta = rng.choice([0, 0, 1, -1, 10**6, -10**6, rng.randint(-10**8, 10**8), rng.randint(-30 * DAY_US, 30 * DAY_US)])
                ub = ua - minus_utc(sa, day, envname) + minus_utc(sb, day, envname) + delta
                x, y = Date(C03.dt_of(ua), scale=sa), Date(C03.dt_of(ub), scale=sb)
                lines.append(f"c04.cmp {envname} {sa} {ua} {sb} {ub}")
                reals.append("ok %d %d %d %d %d %d %d" % (C03.td_us(y - x), y < x, y <= x, y == x, y >= x, y > x, hash(y) == hash(x)))
                metas.append(("compare", True, envname))
                out.count(key=lines[-1], nontrivial=sa != sb, kind="compare", env=envname, pair=f"{sa}-{sb}")

    # ---- parse_date: every spelling, every TIME_SYSTEM
    with real_env("real"):
        from beyond.io.ccsds.commons import parse_date
        for _ in range(ctx.n(250, 3000)):
            text, kind = gen_epoch_text(rng, first, last)
            sc = rng.choice(SCALES)
            try:
                real = show(parse_date(text, sc))
            except ValueError:
                real = "err value-error"
            except Exception as e:  # noqa: BLE001
                real = _real_err(e)
            lines.append(f"c04.pd real {sc} " + (",".join(str(ord(c)) for c in text) or "-"))
            reals.append(real)
            metas.append(("parse-date", sc in UNIFORM, "real"))
            out.count(key=lines[-1], kind="parse-date", spelling=kind, reply=real.split()[0] if real.startswith("err") else "ok")

    replies = core.Driver().run(lines)
    for line, real, (kind, exact, envname), rep in zip(lines, reals, metas, replies):
        if kind == "history":
            r_, m_ = real.split(" | "), rep.split(" | ")
            ok = len(r_) == len(m_) and all(same_show(a_, b_, exact) for a_, b_ in zip(r_, m_))
        elif kind == "parse-date":
            ok = same_show(real, rep, exact)
        else:
            ok = real == rep
        if not ok:
            out.fail("c04-" + kind, f"{kind}: the real Date and the model of Model/Date.lean differ (EOP environment: {envname})", line, observed=real[:600], expected=rep[:600])
        out.sample({"request": line[:200], "model": rep[:200]}, limit=4)
    return out


def gen_epoch_text(rng, first, last):
    """an epoch as a CCSDS message may spell it (and near misses): calendar or day-of-year, with or without fraction of
    second, padded or not — returns (text, kind)"""
    import datetime as _dt
    day = rng.randint(first + 2, last - 2)
    base = _dt.datetime(1858, 11, 17) + _dt.timedelta(days=day, seconds=rng.randrange(86400), microseconds=rng.choice([0, 0, 500000, rng.randrange(10**6)]))
    r = rng.random()
    if r < 0.08:
        base = base.replace(month=12, day=31) if rng.random() < 0.5 else base.replace(month=2, day=28)
    doy = rng.random() < 0.4
    nd = rng.choice([None, None, 1, 3, 6, 6, 6, 7])
    date = f"{base.year:04d}-{base.timetuple().tm_yday:03d}" if doy else f"{base.year:04d}-{base.month:02d}-{base.day:02d}"
    kind = ("doy" if doy else "cal") + ("-nofrac" if nd is None else f"-frac{nd}")
    frac = "" if nd is None else "." + (f"{base.microsecond:06d}" + "0")[:nd]
    hms = f"{base.hour:02d}:{base.minute:02d}:{base.second:02d}"
    sep = "T"
    r = rng.random()
    if r < 0.30:
        v = rng.randrange(14)
        kind += f"-variant{v}"
        if v == 0:
            sep = "t"
        elif v == 1:
            sep = " "
        elif v == 2:
            date = (f"{base.year}-{base.timetuple().tm_yday}" if doy else f"{base.year}-{base.month}-{base.day}")
            hms = f"{base.hour}:{base.minute}:{base.second}"
        elif v == 3:
            date = f"{base.year:04d}-13-01" if not doy else f"{base.year:04d}-367"
        elif v == 4:
            date = f"{base.year:04d}-{rng.choice([2, 4, 6, 9, 11]):02d}-31" if not doy else f"{base.year:04d}-366"
        elif v == 5:
            date = f"{base.year:04d}-02-29" if not doy else f"{base.year:04d}-000"
        elif v == 6:
            hms = f"{base.hour:02d}:{base.minute:02d}:{rng.choice([60, 61, 62])}"
        elif v == 7:
            hms = f"24:{base.minute:02d}:{base.second:02d}"
        elif v == 8:
            frac += "Z"
        elif v == 9:
            date = " " + date
        elif v == 10:
            return "", "empty"
        elif v == 11:
            date = f"{base.year % 100:02d}" + date[4:]
        elif v == 12:
            hms = f"{base.hour:02d}:{base.minute:02d}"
        else:
            date = date.replace("-", "/")
    return date + sep + hms + frac, kind


# ---------------------------------------------------------------- oracle on the real API

TLES = [
    """ISS (ZARYA)
1 25544U 98067A   18124.55610684  .00001524  00000-0  30197-4 0  9997
2 25544  51.6421 236.2139 0003381  47.8509  47.6767 15.54198229111731""",
    """MOLNIYA 1-90
1 24960U 97054A   18123.22759647  .00000163  00000-0  24467-3 0  9999
2 24960  62.6812 182.7824 6470982 294.8616  12.8538  3.18684355160009""",
    """SENTINEL
1 27421U 02021A   15290.39156189  .00000174  00000-0  10000-3 0  9996
2 27421  98.4973 341.4832 0001168 101.4896  26.7296 14.20902451697482""",
]


def relabel(obj, scale):
    o = obj.copy()
    o.date = obj.date.change_scale(scale)
    return o


def vec(x):
    import numpy as np
    return np.array(x, dtype=float)


def oracle(ctx, widened):
    import numpy as np
    from harness import env
    env.use_real_eop()
    from beyond.dates import Date, timedelta
    from beyond.io.tle import Tle
    from beyond.propagators import get_propagator
    from beyond.propagators.sgp4beta import Sgp4Beta
    from beyond.env.solarsystem import get_body
    out = Outcome()
    rng = ctx.rng
    big = widened or ctx.thorough
    ninst = 12 if big else 3

    def cmp(op, inst, lab_date, lab_epoch, got, ref, vtol_scale=8000.0, extra=None, vel_rtol=0.0, dates=(), pos_atol=0.0, vel_atol=0.0):
        """positions within |v| x 3 µs (UT1/TDB conversions are rounded to the µs) + 1e-6 m"""
        if callable(got):
            try:
                got = got()
            except Exception as e:  # noqa: BLE001  (the UTC-labelled baseline did not raise)
                out.count(key=(op, inst, lab_date, lab_epoch), op=op, label=f"{lab_date}/{lab_epoch}")
                out.fail(f"{op}:label-dependent", f"{op}: raises for date label {lab_date} / epoch label {lab_epoch} but not for the same instant labelled UTC",
                         {"op": op, "instant": inst, "date_label": lab_date, "epoch_label": lab_epoch, **(extra or {})}, observed=repr(e), expected=[float(x) for x in vec(ref)])
                return
        g, r = vec(got), vec(ref)
        slack = 3e-6 if ("UT1" in (lab_date, lab_epoch) or "TDB" in (lab_date, lab_epoch)) else 1e-9
        tol = np.array([vtol_scale * slack + 1e-6 + pos_atol] * 3 + [vtol_scale * slack * 1.2e-3 + 1e-9 + vel_rtol * vtol_scale + pos_atol * 1.2e-3 + vel_atol] * 3)[: len(g)]
        out.count(key=(op, inst, lab_date, lab_epoch), nontrivial=(lab_date, lab_epoch) != ("UTC", "UTC"), op=op, label=f"{lab_date}/{lab_epoch}")
        if g.shape != r.shape or not np.all(np.abs(g - r) <= tol):
            fam = f"{op}:label-dependent"
            if any(label_day_differs(x) for x in dates):
                fam = "eop-day-by-label-scale"
            out.fail(fam, f"{op}: result depends on the scale label (date label {lab_date}, epoch label {lab_epoch})",
                     {"op": op, "instant": inst, "date_label": lab_date, "epoch_label": lab_epoch, **(extra or {})},
                     observed=[float(x) for x in g], expected=[float(x) for x in r])

    for ti, text in enumerate(TLES):
        tle = Tle(text)
        orb0 = tle.orbit()
        instants = [timedelta(seconds=rng.uniform(-3, 3) * 86400) for _ in range(ninst)]
        # boundary instants: within the scale offsets (TAI-UTC, TT-UTC, GPS-UTC, |UT1-UTC|) of a UTC midnight and of a New Year,
        # with fractional seconds — where the calendar fields (day, year) of the same instant differ from one label to another
        from beyond.dates import Date as _Date
        ny = _Date(orb0.date.datetime.year + 1, 1, 1)
        some_day = _Date(int(orb0.date.mjd) + rng.randint(2, 20), 0.0)
        deltas = [-69.4, -68.3, -37.5, -36.6, -35.4, -32.684, -31.7, -19.5, -18.4, -17.6, -0.6, -0.316, 0.25, 0.9, 17.7, 18.6, 31.684, 32.5, 36.5, 68.7]
        picks = deltas if big else rng.sample(deltas, 5)
        for base in (ny, some_day):
            for dl in picks:
                instants.append((base + timedelta(seconds=dl)) - orb0.date)
        for k, dt in enumerate(instants):
            d_utc = orb0.date + dt
            inst = f"tle{ti}+{dt.total_seconds():.3f}s"
            # ---- analytical propagators
            for pname in ("Sgp4", "Kepler", "J2"):
                form = "tle" if pname == "Sgp4" else "keplerian_mean"
                base_orb = orb0.copy(form=form)
                base_orb.propagator = get_propagator(pname)()
                ref = base_orb.propagate(d_utc).copy(form="cartesian", frame="TEME")
                for ld in SCALES:
                    for le in (SCALES if big or ld == "UTC" or ld == "TAI" else ["UTC", "TT"]):
                        o = relabel(base_orb, le)
                        o.propagator = get_propagator(pname)()
                        cmp(pname, inst, ld, le, lambda: o.propagate(d_utc.change_scale(ld)).copy(form="cartesian", frame="TEME"), ref)
                        if ld == "UTC" and le in ("UTC", "TAI", "TT", "GPS"):
                            # the same request as a timedelta from the (relabelled) epoch — uniform scales only: a timedelta added to a
                            # UT1/TDB epoch is that many seconds of UT1/TDB, which legitimately differs from SI seconds
                            cmp(pname + "-timedelta", inst, "timedelta", le, lambda: o.propagate(dt).copy(form="cartesian", frame="TEME"), ref)
            # ---- native SGP4 (near-Earth TLEs only)
            if ti != 1:
                s = Sgp4Beta(); s.orbit = orb0
                ref = s.propagate(d_utc)
                for ld in SCALES:
                    for le in ("UTC", "TAI", "TT"):
                        s2 = Sgp4Beta(); s2.orbit = relabel(orb0, le)
                        cmp("Sgp4Beta", inst, ld, le, lambda: s2.propagate(d_utc.change_scale(ld)), ref)
            # ---- frame conversion of a state dated with a label
            sv = orb0.propagate(d_utc).copy(form="cartesian", frame="TEME")
            for target in ("ITRF", "EME2000", "GCRF", "PEF"):
                ref = sv.copy(frame=target)
                for ld in SCALES:
                    rl = relabel(sv, ld)
                    got = lambda: rl.copy(frame=target)  # noqa: E731
                    # Earth-fixed targets: the sidereal angle is computed from a Julian date held in ONE double (resolution 4e-5 s,
                    # i.e. about 2 cm at LEO); the rounding differs with the path the date took — numerical noise, not a label effect
                    cmp(f"frame-TEME-{target}", inst, ld, "-", got, ref, dates=[rl.date], pos_atol=0.05 if target in ("ITRF", "PEF", "TIRF") else (2e-5 if target == "GCRF" else 0.0),
                        # TEME -> GCRF is routed through the Earth-fixed frames (tree TEME-TOD-PEF-ITRF-TIRF-CIRF-GCRF): the noise cancels to ~1e-5 m / 1e-7 m/s
                        vel_atol=2e-7 if target == "GCRF" else 0.0)
            # ---- TLE writing: identical text
            ref_txt = str(Tle.from_orbit(orb0.propagate(d_utc).copy(form="tle"), norad_id=tle.norad_id, cospar_id=tle.cospar_id))
            for ld in SCALES:
                o = relabel(orb0.propagate(d_utc), ld)
                txt = str(Tle.from_orbit(o.copy(form="tle"), norad_id=tle.norad_id, cospar_id=tle.cospar_id))
                out.count(key=("tle-write", inst, ld), nontrivial=ld != "UTC", op="tle-write", label=ld)
                same = txt == ref_txt
                if not same and ld in ("UT1", "TDB"):
                    # 1e-8 day printed resolution = 864 µs; a ±1 µs conversion error may flip the last digit
                    same = _tle_epoch_close(txt, ref_txt)
                if not same:
                    out.fail("tle-write:label-dependent", "Tle.from_orbit text depends on the scale label of the orbit's date",
                             {"instant": inst, "date_label": ld}, observed=txt, expected=ref_txt)
    # ---- numerical propagator, CW, ephemeris interpolation, events, CCSDS, Sun/Moon
    numerical(out, rng, cmp, big)
    clohessy(out, rng, cmp, big)
    ephem_and_events(out, rng, cmp, big)
    ccsds(out, rng, big)
    bodies(out, rng, cmp, big)
    eop_lookup(out, rng, big)
    date_arith(out, rng, big)
    iteration(out, rng, big)
    ccsds_spellings(out, rng, big)
    ccsds_mixed(out, rng, big)
    ccsds_segments(out, rng, big)
    histories(out, rng, cmp, big)
    coincident_readings(out, rng, cmp, big)
    out.sample({"operation": "Sgp4.propagate", "instant": "tle0+…s", "labels": "6 x 6", "compared_with": "UTC/UTC baseline"})
    return out


def label_day_differs(date):
    """the day number of the date in its own scale differs from its UTC day number (the EOP tables are indexed by UTC day)"""
    u = date.change_scale("UTC")
    return int(date.d + date.s / 86400.0) != int(u.d + u.s / 86400.0)


def _tle_epoch_close(a, b):
    la, lb = a.splitlines(), b.splitlines()
    if len(la) != len(lb):
        return False
    try:
        ea, eb = float(la[-2][20:32]), float(lb[-2][20:32])
    except ValueError:
        return False
    return abs(ea - eb) <= 2e-8 and la[-1][:60] == lb[-1][:60]


def numerical(out, rng, cmp, big):
    from beyond.dates import timedelta
    from beyond.io.tle import Tle
    from beyond.propagators.keplernum import KeplerNum
    from beyond.env.solarsystem import get_body
    orb0 = Tle(TLES[0]).orbit().copy(form="cartesian", frame="EME2000")
    for k in range(3 if big else 1):
        dt = timedelta(seconds=rng.choice([1800.0, 5400.0, 4321.5]))
        d_utc = orb0.date + dt
        base = orb0.copy(); base.propagator = KeplerNum(timedelta(seconds=60), get_body("Earth"))
        ref = base.propagate(d_utc)
        for ld in SCALES:
            for le in (SCALES if big else ["UTC", "TT", "UT1"]):
                o = relabel(orb0, le); o.propagator = KeplerNum(timedelta(seconds=60), get_body("Earth"))
                cmp("KeplerNum", f"num+{dt.total_seconds()}", ld, le, lambda: o.propagate(d_utc.change_scale(ld)), ref)


def clohessy(out, rng, cmp, big):
    from beyond.dates import Date, timedelta
    from beyond.orbits import Orbit
    from beyond.propagators.cw import ClohessyWiltshire
    from beyond.orbits.man import ImpulsiveMan
    from beyond.frames.frames import HillFrame
    hill = HillFrame(orientation="QSW")
    d0 = Date(2016, 3, 1, 10, 0, 0)
    for k in range(3 if big else 1):
        t = rng.choice([600.0, 2500.0, 7000.25])
        tm = t * 0.4
        def mk(le, lm):
            prop = ClohessyWiltshire(6.9e6, frame=hill)
            o = Orbit([-600.0, -1500.0, 10.0, 0.0, 1.0, 0.01], d0.change_scale(le), "cartesian", "Hill", prop)
            o.maneuvers = [ImpulsiveMan((d0 + timedelta(seconds=tm)).change_scale(lm), [0.0, 0.1, 0.0])]
            return o
        ref = mk("UTC", "UTC").propagate(d0 + timedelta(seconds=t))
        for ld in SCALES:
            for le in (SCALES if big else ["UTC", "TAI", "TDB"]):
                lm = rng.choice(SCALES)
                cmp("CW", f"cw+{t}", ld, le, lambda: mk(le, lm).propagate((d0 + timedelta(seconds=t)).change_scale(ld)), ref, vtol_scale=10.0)


def ephem_and_events(out, rng, cmp, big):
    import numpy as np
    from beyond.dates import Date, timedelta
    from beyond.io.tle import Tle
    from beyond.propagators.listeners import NodeListener, ApsideListener
    orb0 = Tle(TLES[0]).orbit()
    start = orb0.date + timedelta(hours=1)
    step = timedelta(seconds=60)
    n = 60
    ref_eph = orb0.ephem(start=start, stop=step * n, step=step)
    q_dates = [start + timedelta(seconds=s) for s in (0.0, 30.0, 1234.567, 59 * 60.0, 60 * 60.0)]
    ref_pts = [ref_eph.interpolate(d) for d in q_dates]
    for le in (SCALES if big else ["UTC", "TAI", "UT1"]):
        eph = orb0.ephem(start=start.change_scale(le), stop=step * n, step=step)
        for ld in SCALES:
            for qi, (qd, rp) in enumerate(zip(q_dates, ref_pts)):
                if qi in (0, len(q_dates) - 1) and (ld in ("UT1", "TDB") or le in ("UT1", "TDB")):
                    # the first/last table date converted through UT1/TDB is the same instant only to within 1 µs
                    # (resolution of the conversion, C03): it may fall just outside the table — not a label effect
                    continue
                try:
                    got = eph.interpolate(qd.change_scale(ld))
                except Exception as e:  # noqa: BLE001  (the UTC-labelled baseline did not raise)
                    out.count(key=("Ephem.interpolate", qi, ld, le), op="Ephem.interpolate", label=f"{ld}/{le}")
                    out.fail("Ephem.interpolate:label-dependent", f"Ephem.interpolate raises for the instant labelled {ld} (ephemeris in {le}) but not for the same instant in UTC",
                             {"op": "Ephem.interpolate", "offset_s": (qd - start).total_seconds(), "date_label": ld, "epoch_label": le}, observed=repr(e), expected=[float(x) for x in rp])
                    continue
                cmp("Ephem.interpolate", f"eph+{(qd - start).total_seconds()}", ld, le, got, rp)
    # events: node and apside crossings found with start/stop given in another scale
    def events(ld, le):
        o = relabel(orb0, le)
        o.propagator = orb0.propagator.__class__()
        res = []
        for p in o.iter(start=start.change_scale(ld), stop=timedelta(hours=3), step=timedelta(seconds=180), listeners=[NodeListener(), ApsideListener()]):
            if p.event:
                res.append((str(p.event.info), p.date))
        return res
    ref = events("UTC", "UTC")
    for ld in SCALES:
        for le in (["UTC", "TT"] if not big else SCALES):
            try:
                got = events(ld, le)
            except Exception as e:  # noqa: BLE001
                got = [("exception " + repr(e), start)]
            out.count(key=("events", ld, le), nontrivial=(ld, le) != ("UTC", "UTC"), op="events", label=f"{ld}/{le}")
            ok = len(got) == len(ref) and all(a[0] == b[0] and abs((a[1] - b[1]).total_seconds()) <= 2e-5 for a, b in zip(got, ref))
            if not ok:
                out.fail("events:label-dependent", "event stream depends on the scale label of start date / epoch",
                         {"date_label": ld, "epoch_label": le}, observed=[(a, str(b)) for a, b in got][:6], expected=[(a, str(b)) for a, b in ref][:6])


def ccsds(out, rng, big):
    from beyond.dates import timedelta
    from beyond.io.tle import Tle
    from beyond.io import ccsds as io_ccsds
    orb0 = Tle(TLES[0]).orbit().copy(form="cartesian", frame="EME2000")
    sv0 = orb0.propagate(orb0.date + timedelta(seconds=4321.123456))
    start = orb0.date + timedelta(hours=1)
    for ld in SCALES:
        for fmt in ("kvn", "xml"):
            o = relabel(sv0, ld)
            try:
                back = io_ccsds.loads(io_ccsds.dumps(o, fmt=fmt))
                ok = abs((back.date - sv0.date).total_seconds()) <= 1.5e-6 and all(abs(a - b) <= 1.1e-3 for a, b in zip(back, sv0))
                obs = str(back.date)
            except Exception as e:  # noqa: BLE001
                ok, obs = False, repr(e)
            out.count(key=("opm", ld, fmt), nontrivial=ld != "UTC", op="ccsds-opm-" + fmt, label=ld)
            if not ok:
                out.fail(f"ccsds-opm:label-dependent", "OPM written from a date in this scale does not read back as the same instant/state",
                         {"date_label": ld, "fmt": fmt}, observed=obs, expected=str(sv0.date))
            eph = orb0.ephem(start=start.change_scale(ld), stop=timedelta(minutes=5), step=timedelta(seconds=60))
            try:
                back = io_ccsds.loads(io_ccsds.dumps(eph, fmt=fmt))
                ok = len(back) == len(eph) and all(abs((a.date - b.date).total_seconds()) <= 1.5e-6 for a, b in zip(back, eph))
                obs = str(back.start)
            except Exception as e:  # noqa: BLE001
                ok, obs = False, repr(e)
            out.count(key=("oem", ld, fmt), nontrivial=ld != "UTC", op="ccsds-oem-" + fmt, label=ld)
            if not ok:
                out.fail(f"ccsds-oem:label-dependent", "OEM written from dates in this scale does not read back as the same instants",
                         {"date_label": ld, "fmt": fmt}, observed=obs, expected=str(eph.start))


def bodies(out, rng, cmp, big):
    from beyond.dates import Date, timedelta
    from beyond.env.solarsystem import get_body
    for name in ("Sun", "Moon"):
        body = get_body(name)
        for k in range(4 if big else 2):
            d = Date(2005 + 3 * k, 1 + 2 * k, 9, 3, 4, 5)
            ref = body.propagate(d)
            for ld in SCALES:
                got = lambda: body.propagate(d.change_scale(ld))  # noqa: E731
                # the velocity is a central difference over ±1 day *of the label scale*: a day of UT1 differs from a day of
                # TAI by the daily change of UT1-UTC (~1 ms), i.e. 2e-8 relative — inherent to Date arithmetic, not a label effect
                cmp(f"body-{name}", str(d), ld, "-", got, ref, vtol_scale=3.0e4 if name == "Sun" else 1100.0, vel_rtol=5e-8)


def eop_lookup(out, rng, big):
    """the Earth-orientation record attached to a Date must be that of the instant, whatever the label"""
    from beyond.dates import Date, timedelta
    for k in range(40 if big else 8):
        mjd = rng.randint(50000, 57400)
        for off in (-10.0, 10.0, rng.uniform(-36, -1), rng.uniform(3600, 80000)):
            d = Date(mjd, 0.0) + timedelta(seconds=off)      # UTC
            for ld in SCALES[1:4]:
                e = d.change_scale(ld)
                out.count(key=("eop", mjd, off, ld), op="eop-lookup", label=ld)
                if (e.eop.ut1_utc, e.eop.x, e.eop.y) != (d.eop.ut1_utc, d.eop.x, d.eop.y):
                    out.fail("eop-day-by-label-scale" if label_day_differs(e) else "eop-lookup:label-dependent", "EOP record (UT1-UTC, pole) is chosen by the day number of the label scale: within TAI-UTC (resp. TT-UTC, GPS-UTC) seconds before UTC midnight a relabelled date gets the next day's record",
                             {"utc": str(d), "label": ld}, observed=[e.eop.ut1_utc, e.eop.x, e.eop.y], expected=[d.eop.ut1_utc, d.eop.x, d.eop.y])


# ---------------------------------------------------------------- date + timedelta: the result depends on the instant only

def eop_tuple(d):
    e = d.eop
    return (e.x, e.y, e.dx, e.dy, e.deps, e.dpsi, e.lod, e.ut1_utc, e.tai_utc)


def _itrf(date):
    """a fixed inertial state dated `date`, expressed in the Earth-fixed frame (reads date.eop: UT1-UTC, pole, LOD)"""
    from beyond.orbits import StateVector
    sv = StateVector([7000e3, 100e3, -2000e3, 300.0, 7400.0, 1000.0], date, "cartesian", "EME2000")
    return vec(sv.copy(frame="ITRF"))[:3]


def date_arith(out, rng, big):
    """theorems add_carries_record_of_utc_day / add_function_of_instant / add_after_relabel on the real Date with the
    real EOP tables: `date + t` (and `date - t`, `Date(date)`) is compared with the same clock reading constructed
    directly in the same label, and with the same instant handled under the UTC label — instant, full EOP record, UTC
    calendar reading, Earth-fixed position of a state dated with the result.  Boundary-heavy: operands just after midnight
    of their own scale (still the previous UTC day), either side of UTC and TAI midnight, leap-second days, sums that stay
    in the own-scale day but cross UTC midnight and vice versa, negative timedeltas"""
    import numpy as np
    from harness.props import C03
    from beyond.dates import Date, timedelta
    with real_env("real"):
        _, _, first, last = C03.tables()
        leap = [d for d in C03.leap_days() if d > first + 3]
        days = [rng.randint(first + 2, last - 2) for _ in range(6 if big else 2)] + [leap[-1], rng.choice(leap)] + ([leap[-2], leap[-1] - 1] if big else [])
        for day in days:
            for lab in SCALES:
                off = minus_utc(lab, day, "real")
                tai_off = off - minus_utc("TAI", day, "real")
                tods = [0, 10 * 10**6, rng.randrange(0, 70 * 10**6), DAY_US - rng.randrange(1, 70 * 10**6), (off - 5 * 10**6) % DAY_US, (off + 5 * 10**6) % DAY_US,
                        (tai_off - 500000 + rng.randrange(10**6)) % DAY_US, rng.randrange(DAY_US)]
                if not big:
                    tods = tods[:2] + rng.sample(tods[2:], 3)
                for tod in tods:
                    us = day * DAY_US + tod
                    cands = [60 * 10**6, 600 * 10**6, -60 * 10**6, -tod - 10**6, DAY_US - tod - 1, rng.randrange(DAY_US) - tod, 3 * 3600 * 10**6 + 1, DAY_US, -DAY_US, rng.randint(-10 * DAY_US, 10 * DAY_US)]
                    for t in (cands if big else cands[:2] + rng.sample(cands[2:], 3)):
                        _check_add(out, np, C03, Date, timedelta, lab, us, t)


def _check_add(out, np, C03, Date, timedelta, lab, us, t):
    inp = {"label": lab, "reading_us": us, "reading": str(C03.dt_of(us)), "timedelta_us": t}
    uniform = lab in UNIFORM
    a = Date(C03.dt_of(us), scale=lab)
    fam = f"date-add:result-depends-on-history:{lab}"
    for op, r in (("add", lambda: a + timedelta(microseconds=t)), ("sub", lambda: a - timedelta(microseconds=-t)), ("add-of-copy", lambda: Date(a) + timedelta(microseconds=t))):
        out.count(key=("date-" + op, lab, us, t), nontrivial=lab != "UTC", op="date-" + op, label=lab)
        try:
            r = r()
            direct = Date(C03.dt_of(us + t), scale=lab)
        except Exception as e:  # noqa: BLE001
            out.fail(fam, f"Date {op}: raises", inp, observed=repr(e), expected="a date")
            return
        # (1) same label: the sum is the date constructed at the moved clock reading — same instant, same record
        di = abs(C03.td_us(r - direct))
        if di > (0 if uniform else 1) or eop_tuple(r) != eop_tuple(direct) or abs(r._offset - direct._offset) > 1e-9 or r.scale.name != lab:
            out.fail(fam, f"Date {op}: `date {'+' if op != 'sub' else '-'} timedelta` is not the date constructed directly at the same clock reading in the same scale (instant / EOP record / offset differ)",
                     {**inp, "op": op}, observed={"date": str(r), "instant_diff_us": di, "eop": eop_tuple(r), "offset": r._offset}, expected={"date": str(direct), "eop": eop_tuple(direct), "offset": direct._offset})
            return
        # reading the sum twice (cached properties) gives what a fresh object gives
        tol_us = 0 if uniform else 2        # UT1 / TDB: `_s` and `_offset` are rounded separately to the microsecond
        if abs(C03.td_us(r.datetime - direct.datetime)) > tol_us or abs((r.d - direct.d) * 86400.0 + r.s - direct.s) > 1e-6 + tol_us * 1e-6:
            out.fail(fam, f"Date {op}: clock reading of the sum differs from that of the directly constructed date", {**inp, "op": op}, observed=[str(r.datetime), r.d, r.s], expected=[str(direct.datetime), direct.d, direct.s])
            return
    if not uniform:
        return
    # (2) the same instant under the UTC label, the same timedelta: same instant, same record, same UTC reading, same Earth-fixed position
    au = a.change_scale("UTC")
    u = au + timedelta(microseconds=t)
    r = a + timedelta(microseconds=t)
    if a.eop.tai_utc != r.eop.tai_utc or a.eop.tai_utc != u.eop.tai_utc or au.eop.tai_utc != a.eop.tai_utc:
        return        # a leap second between operand and sum: t seconds of UTC clock are not t seconds of TAI (documented: not handled)
    out.count(key=("date-add-vs-utc", lab, us, t), nontrivial=lab != "UTC", op="date-add-vs-utc", label=lab)
    ru = r.change_scale("UTC")
    obs = {"sum": str(r), "sum_as_utc": str(ru), "eop": eop_tuple(r)}
    exp = {"utc_sum": str(u), "eop": eop_tuple(u)}
    if C03.td_us(r - u) != 0 or eop_tuple(r) != eop_tuple(u) or ru.datetime != u.datetime or eop_tuple(ru) != eop_tuple(u):
        out.fail(fam, "the same instant + the same timedelta under another label: instant / EOP record / UTC calendar reading of the sum depend on the label of the operand",
                 {**inp, "op": "add-vs-utc-label"}, observed=obs, expected=exp)
        return
    pr, pu = _itrf(r), _itrf(u)
    if not np.all(np.abs(pr - pu) <= 0.05):
        out.fail(fam, "Earth-fixed position of a state dated `date + t` depends on the label of the operand", {**inp, "op": "itrf"}, observed=[float(x) for x in pr], expected=[float(x) for x in pu])


def iteration(out, rng, big):
    """DateRange / Ephem / propagator iteration started from a non-UTC label at the midnight of that label, stepping
    across UTC midnight: every date yielded carries the record of its instant, every point converts to the Earth-fixed
    frame as the UTC-labelled run does"""
    import numpy as np
    from harness.props import C03
    from beyond.dates import Date, timedelta
    from beyond.io.tle import Tle
    with real_env("real"):
        orb0 = Tle(TLES[2]).orbit()
        d0 = int(orb0.date.mjd)
        for lab in ("TAI", "TT", "GPS"):
            for day in ([d0 + 1, d0 + rng.randint(2, 9)] if big else [d0 + rng.randint(1, 5)]):
                off = minus_utc(lab, day, "real")
                for tod, step in ((0, 10), (max(off, 0) // 10**6 * 10**6 + 3 * 10**6, -10), (rng.randrange(0, 30) * 10**6, 7)):
                    start = Date(C03.dt_of(day * DAY_US + tod), scale=lab)
                    n = 9
                    for kind in ("daterange", "ephem"):
                        inp = {"label": lab, "start": str(start), "step_s": step, "n": n, "kind": kind}
                        fam = f"iteration:{kind}:label-dependent:{lab}"
                        if kind == "daterange":
                            got = list(itertools.islice(iter(Date.range(start, timedelta(seconds=step * n), timedelta(seconds=step))), 4 * n))
                            ref = list(itertools.islice(iter(Date.range(start.change_scale("UTC"), timedelta(seconds=step * n), timedelta(seconds=step))), 4 * n))
                            bad = len(got) != len(ref)
                            for g, r in zip(got, ref):
                                out.count(key=("iter", kind, lab, str(start), step, str(r)), op="iteration-" + kind, label=lab)
                                if C03.td_us(g - r) != 0 or eop_tuple(g) != eop_tuple(r) or g.change_scale("UTC").datetime != r.datetime:
                                    bad = True
                                    inp["at"] = str(g)
                                    break
                            if bad:
                                out.fail(fam, "dates yielded by Date.range started from this label do not carry the instant / EOP record of the UTC-labelled run", inp,
                                         observed=[(str(g), g.eop.ut1_utc) for g in got][:10], expected=[(str(r), r.eop.ut1_utc) for r in ref][:10])
                        elif step > 0:
                            got = list(itertools.islice(orb0.iter(start=start, stop=timedelta(seconds=step * n), step=timedelta(seconds=step)), 4 * n))
                            ref = list(itertools.islice(orb0.iter(start=start.change_scale("UTC"), stop=timedelta(seconds=step * n), step=timedelta(seconds=step)), 4 * n))
                            bad = len(got) != len(ref)
                            obs = exp = None
                            for g, r in zip(got, ref):
                                out.count(key=("iter", kind, lab, str(start), step, str(r.date)), op="iteration-" + kind, label=lab)
                                pg, pr = vec(g.copy(form="cartesian", frame="ITRF"))[:3], vec(r.copy(form="cartesian", frame="ITRF"))[:3]
                                if C03.td_us(g.date - r.date) != 0 or not np.all(np.abs(pg - pr) <= 0.05):
                                    bad, obs, exp = True, [float(x) for x in pg], [float(x) for x in pr]
                                    inp["at"] = str(g.date)
                                    break
                            if bad:
                                out.fail(fam, "Earth-fixed positions of the points of an ephemeris started from this label differ from the UTC-labelled run", inp, observed=obs, expected=exp)


# ---------------------------------------------------------------- CCSDS: every legal spelling of an epoch, every TIME_SYSTEM

EPOCH_RE = r"(\d{4})-(\d{2})-(\d{2})T(\d{2}):(\d{2}):(\d{2})\.(\d{6})"


def respell(text, how):
    """the same message with every epoch (but the header's CREATION_DATE) spelled another way the Blue Books allow:
    full = 6 decimals (what beyond writes), trim = trailing zeros of the fraction dropped, nofrac = no decimal fraction
    (whole seconds only), doy = day-of-year with fraction, doy-trim"""
    import re
    import datetime as _dt

    def sub(m):
        y, mo, d, h, mi, s_, f = m.groups()
        date = f"{y}-{mo}-{d}"
        if how.startswith("doy"):
            date = f"{y}-{_dt.date(int(y), int(mo), int(d)).timetuple().tm_yday:03d}"
        frac = "." + f
        if how in ("trim", "doy-trim"):
            frac = "." + (f.rstrip("0") or "0")
        if how == "nofrac":
            if int(f):
                raise ValueError("fraction of second is not zero")
            frac = ""
        return f"{date}T{h}:{mi}:{s_}{frac}"
    return "\n".join(line if "CREATION_DATE" in line else re.sub(EPOCH_RE, sub, line) for line in text.split("\n"))


SPELLINGS = ("full", "trim", "nofrac", "doy", "doy-trim")


def ccsds_spellings(out, rng, big):
    """theorems parseDate_scale_reaches_date / parseDate_reading_label_free on the real readers: one OPM (state epoch,
    two maneuvers) and one OEM (points, a covariance epoch) are written with every TIME_SYSTEM, every epoch respelled in
    each notation the Blue Books allow, and read back: instants of all epochs and the interpolated position at a fixed
    instant are compared with the UTC original"""
    import numpy as np
    from beyond.dates import Date, timedelta
    from beyond.io.tle import Tle
    from beyond.io import ccsds as io_ccsds
    from beyond.orbits import Ephem
    from beyond.orbits.cov import Cov
    from beyond.orbits.man import ImpulsiveMan, ContinuousMan
    with real_env("real"):
        orb0 = Tle(TLES[2]).orbit()
        t0 = Date(int(orb0.date.mjd) + 2, 50400.0)      # whole seconds: every spelling is legal
        sv0 = orb0.propagate(t0).copy(form="cartesian", frame="EME2000")
        m1, m2 = t0 + timedelta(seconds=3600), t0 + timedelta(seconds=7200)
        pts = [orb0.propagate(t0 + timedelta(seconds=60 * i)).copy(form="cartesian", frame="EME2000") for i in range(12)]
        ref_eph = Ephem([p.copy() for p in pts])
        when = t0 + timedelta(seconds=330.5)
        ref_pos = vec(ref_eph.interpolate(when))[:3]
        omm0 = orb0.copy()
        omm0.date = Date(int(orb0.date.mjd), 3600.0 * rng.randrange(24))      # mean elements dated at a whole second
        for lab in SCALES:
            sv = relabel(sv0, lab)
            sv.maneuvers = [ImpulsiveMan(m1.change_scale(lab), [1.0, 0.0, 0.0]), ContinuousMan(m2.change_scale(lab), timedelta(seconds=60), dv=[0.0, 1.0, 0.0], date_pos="start")]
            lp = []
            for i, p in enumerate(pts):
                q = relabel(p, lab)
                if i == 2:
                    q.cov = Cov(q, np.eye(6) * 4.0, "EME2000")
                lp.append(q)
            eph = Ephem(lp)
            slack = 3e-6 if lab in ("UT1", "TDB") else 0.0
            for fmt in (("kvn", "xml") if big or lab in ("TAI", "TT") else ("kvn",)):
                texts = {"opm": io_ccsds.dumps(sv, fmt=fmt), "oem": io_ccsds.dumps(eph, fmt=fmt), "omm": io_ccsds.dumps(relabel(omm0, lab), fmt=fmt)}
                for how in SPELLINGS:
                    for kind, text in texts.items():
                        inp = {"message": kind, "fmt": fmt, "TIME_SYSTEM": lab, "spelling": how}
                        fam = f"ccsds-read:{kind}:{how}:label-dependent"
                        out.count(key=("ccsds-read", kind, fmt, lab, how), nontrivial=lab != "UTC" or how != "full", op=f"ccsds-read-{kind}", label=lab, spelling=how)
                        if lab in ("UT1", "TDB") and how == "nofrac":
                            continue          # the clock reading of a whole UTC second in UT1 / TDB has a fraction
                        try:
                            txt = respell(text, how)
                        except ValueError:
                            continue
                        inp["first_epoch"] = next((ln.strip() for ln in txt.split("\n") if "EPOCH" in ln or (kind == "oem" and ln[:4].isdigit())), "")
                        try:
                            back = io_ccsds.loads(txt)
                        except Exception as e:  # noqa: BLE001
                            # a notation the readers do not know at all (whatever the TIME_SYSTEM) is not a label effect
                            try:
                                io_ccsds.loads(respell(io_ccsds.dumps({"opm": sv0, "oem": ref_eph, "omm": omm0}[kind], fmt=fmt), how))
                                utc_ok = True
                            except Exception:  # noqa: BLE001
                                utc_ok = False
                            if utc_ok:
                                out.fail(fam, f"{kind.upper()} with epochs in this notation is rejected for TIME_SYSTEM = {lab} but read for UTC", inp, observed=repr(e), expected="the same message")
                            else:
                                out.tally(f"notation-not-supported={kind}:{how}")
                            continue
                        if kind == "omm":
                            if abs((back.date - omm0.date).total_seconds()) > slack + 1e-9:
                                out.fail(fam, "OMM: the epoch written in this notation is read as another instant", inp, observed=str(back.date), expected=str(omm0.date.change_scale(lab)))
                        elif kind == "opm":
                            got = [back.date] + [getattr(m, "date", None) or m.start for m in back.maneuvers]
                            exp = [t0, m1, m2]
                            ok = len(got) == 3 and all(abs((g - e).total_seconds()) <= slack + 1e-9 for g, e in zip(got, exp))
                            if not ok:
                                out.fail(fam, "OPM: epochs (state, maneuvers) written in this notation are read as other instants than the same message in the notation beyond writes / in UTC", inp,
                                         observed=[str(g) for g in got], expected=[str(e.change_scale(lab)) for e in exp])
                        else:
                            got = [p.date for p in back]
                            ok = len(got) == len(pts) and all(abs((g - p.date).total_seconds()) <= slack + 1e-9 for g, p in zip(got, pts)) and back[2].cov is not None
                            pos = vec(back.interpolate(when))[:3] if ok else None
                            if not ok or not np.all(np.abs(pos - ref_pos) <= 8000.0 * slack + 2e-3):
                                out.fail(fam, "OEM: points written in this notation are read as other instants (interpolated position at a fixed instant differs)", inp,
                                         observed={"start": str(back.start), "pos": None if pos is None else [float(x) for x in pos]}, expected={"start": str(t0.change_scale(lab)), "pos": [float(x) for x in ref_pos]})


def ccsds_mixed(out, rng, big):
    """theorems ccsds_epoch_roundtrip / ccsds_writers_convert_to_time_system on the real writers (finding
    ccsds-mixed-scale-epochs, fixed by aa1842c; the family stays alive): one message, epochs under different labels — an OPM
    whose maneuver dates carry another label than the state's date, an OEM whose points, a TDM whose observations carry
    different labels (an OMM has a single epoch).  dumps then loads must give the instants back, STOP_TIME included"""
    from beyond.dates import Date, timedelta
    from beyond.io.tle import Tle
    from beyond.io import ccsds as io_ccsds
    from beyond.orbits import Ephem
    from beyond.orbits.man import ImpulsiveMan, ContinuousMan
    from beyond.utils.measures import MeasureSet, Range
    with real_env("real"):
        orb0 = Tle(TLES[2]).orbit()
        t0 = Date(int(orb0.date.mjd) + 2, 50400.0) + timedelta(microseconds=rng.randrange(10**6))
        sv0 = orb0.propagate(t0).copy(form="cartesian", frame="EME2000")
        m1, m2 = t0 + timedelta(seconds=3600), t0 + timedelta(seconds=7200)
        pts = [orb0.propagate(t0 + timedelta(seconds=60 * i)).copy(form="cartesian", frame="EME2000") for i in range(6)]
        labs = list(UNIFORM)
        for head in (labs if big else ["UTC", rng.choice(labs[1:])]):
            for other in labs:
                for fmt in (("kvn", "xml") if big else (rng.choice(["kvn", "xml"]),)):
                    # OPM
                    sv = relabel(sv0, head)
                    sv.maneuvers = [ImpulsiveMan(m1.change_scale(other), [1.0, 0.0, 0.0]), ContinuousMan(m2.change_scale(other), timedelta(seconds=60), dv=[0.0, 1.0, 0.0], date_pos="start")]
                    # OEM: first point decides TIME_SYSTEM, the others carry the other label
                    eph = Ephem([relabel(p, head if i == 0 else other) for i, p in enumerate(pts)])
                    # TDM: the first observation decides TIME_SYSTEM
                    tdm = MeasureSet([Range(["Toulouse", "1998-067A", "Toulouse"], (t0 + timedelta(seconds=10 * i)).change_scale(head if i == 0 else other), 1000e3 + i) for i in range(5)])
                    for kind, obj, exp in (("opm-maneuver", sv, [t0, m1, m2]), ("oem-point", eph, [p.date for p in pts]), ("tdm-observation", tdm, [t0 + timedelta(seconds=10 * i) for i in range(5)])):
                        out.count(key=("ccsds-mixed", kind, head, other, fmt), nontrivial=head != other, op="ccsds-mixed-" + kind, label=f"{head}/{other}")
                        inp = {"message": kind, "fmt": fmt, "TIME_SYSTEM_from": head, "other_epochs_labelled": other}
                        try:
                            back = io_ccsds.loads(io_ccsds.dumps(obj, fmt=fmt))
                            got = ([back.date] + [getattr(m, "date", None) or m.start for m in back.maneuvers]) if kind == "opm-maneuver" else [p.date for p in back]
                            if kind != "opm-maneuver" and fmt == "kvn":
                                # STOP_TIME of the segment, as written, read in the segment's TIME_SYSTEM
                                import re as _re
                                txt_ = io_ccsds.dumps(obj, fmt=fmt)
                                stop = _re.search(r"STOP_TIME\s*=\s*(\S+)", txt_).group(1)
                                got.append(Date.strptime(stop, "%Y-%m-%dT%H:%M:%S.%f", scale=head))
                                exp = exp + [exp[-1]]
                        except Exception as e:  # noqa: BLE001
                            out.fail(f"ccsds-write:{kind}:label-dependent", "dumps/loads raises", inp, observed=repr(e), expected=[str(e_) for e_ in exp])
                            continue
                        moved = [round((g - e).total_seconds(), 6) for g, e in zip(got, exp)]
                        if len(got) != len(exp) or any(abs(m) > 1.5e-6 for m in moved):
                            # the narrow family of the finding: each epoch written as its own-scale clock reading under the
                            # head's TIME_SYSTEM, i.e. displaced by exactly (other − head) of the scale offsets
                            d_exp = (minus_utc(other, int(t0.mjd), "real") - minus_utc(head, int(t0.mjd), "real")) / 1e6
                            # (an Ephem sorts its points by date on reading: compare as sets of instants)
                            pred = sorted((e_ - t0).total_seconds() + (0.0 if i == 0 else d_exp) for i, e_ in enumerate(exp))
                            seen = sorted((g - t0).total_seconds() for g in got)
                            is_known = head != other and len(got) == len(exp) and all(abs(a_ - b_) <= 2e-6 for a_, b_ in zip(pred, seen))
                            out.fail("ccsds-mixed-scale-epochs" if is_known else f"ccsds-write:{kind}:label-dependent",
                                     "epochs labelled with another scale than the date that decides TIME_SYSTEM are written as clock readings of their own scale: read back, they are other instants",
                                     inp, observed={"moved_s": moved, "read": [str(g) for g in got][:4]}, expected={"moved_s": [0.0] * len(exp), "written": [str(e_) for e_ in exp][:4]})


def ccsds_segments(out, rng, big):
    """messages made of SEVERAL objects: `dumps([ephem1, ephem2, ephem3])` (one OEM segment each, each with its own
    TIME_SYSTEM) and a TDM over several paths (one segment per path), the labels of the segments drawn independently, and
    inside a segment the label of the later epochs drawn independently of its first.  Every instant of every segment must
    be read back; every segment's START_TIME / STOP_TIME, read in that segment's TIME_SYSTEM, must be its first / last"""
    import re
    from beyond.dates import Date, timedelta
    from beyond.io.tle import Tle
    from beyond.io import ccsds as io_ccsds
    from beyond.orbits import Ephem
    from beyond.utils.measures import MeasureSet, Range
    with real_env("real"):
        orb0 = Tle(TLES[2]).orbit()
        t0 = Date(int(orb0.date.mjd) + 3, 40000.0) + timedelta(microseconds=rng.randrange(10**6))
        labs = list(UNIFORM)
        combos = [("UTC", "TAI"), ("UTC", "TT", "GPS"), ("TAI", "UTC"), ("TT", "TT", "UTC")] + [tuple(rng.choice(labs) for _ in range(rng.choice([2, 3]))) for _ in range(8 if big else 2)]
        for heads in combos:
            inner = [rng.choice([h, h, rng.choice(labs)]) for h in heads]         # label of the later epochs of each segment
            segs_t = [[t0 + timedelta(seconds=1800 * k + 60 * i) for i in range(5)] for k in range(len(heads))]
            ephs = [Ephem([relabel(orb0.propagate(d).copy(form="cartesian", frame="EME2000"), h if i == 0 else inn) for i, d in enumerate(ts)])
                    for ts, h, inn in zip(segs_t, heads, inner)]
            paths = [["Toulouse", "1998-067A", "Toulouse"], ["Kourou", "1998-067A", "Kourou"], ["Perth", "1998-067A", "Perth"]]
            tdm = MeasureSet([Range(paths[k], d.change_scale(h if i == 0 else inn), 1000e3 + i) for k, (ts, h, inn) in enumerate(zip(segs_t, heads, inner)) for i, d in enumerate(ts)])
            for fmt in (("kvn", "xml") if big else (rng.choice(["kvn", "xml"]),)):
                for kind, obj in (("oem-segments", ephs), ("tdm-paths", tdm)):
                    out.count(key=("ccsds-segments", kind, heads, tuple(inner), fmt), nontrivial=len(set(heads)) > 1, op="ccsds-" + kind, label="/".join(heads))
                    inp = {"message": kind, "fmt": fmt, "segment_labels": list(heads), "later_epochs_labelled": inner, "first_instant": str(t0)}
                    fam = f"ccsds-write:{kind}:label-dependent"
                    try:
                        txt = io_ccsds.dumps(obj, fmt=fmt)
                        back = io_ccsds.loads(txt)
                        back = back if isinstance(back, list) else [back]
                        got = [[x.date for x in seg] for seg in back]
                    except Exception as e:  # noqa: BLE001
                        out.fail(fam, "dumps/loads of a message of several segments raises", inp, observed=repr(e), expected="the instants written")
                        continue
                    moved = [[round((g - e).total_seconds(), 6) for g, e in zip(sorted(gs), es)] for gs, es in zip(got, segs_t)]
                    if [len(g) for g in got] != [len(e) for e in segs_t] or any(abs(m) > 1.5e-6 for seg in moved for m in seg):
                        out.fail(fam, "a message of several segments, each with its own TIME_SYSTEM: the instants of a segment are not read back (epochs expressed in another scale than the segment's TIME_SYSTEM)",
                                 inp, observed={"moved_s": moved, "TIME_SYSTEMs": re.findall(r"TIME_SYSTEM(?:\s*=\s*|>)(\w+)", txt)}, expected={"moved_s": [[0.0] * 5] * len(heads), "TIME_SYSTEMs": list(heads)})
                        continue
                    # START_TIME / STOP_TIME of every segment, read in that segment's TIME_SYSTEM
                    tsys = re.findall(r"TIME_SYSTEM(?:\s*=\s*|>)(\w+)", txt)
                    starts = re.findall(r"START_TIME(?:\s*=\s*|>)([0-9T:.\-]+)", txt)
                    stops = re.findall(r"STOP_TIME(?:\s*=\s*|>)([0-9T:.\-]+)", txt)
                    if len(tsys) == len(starts) == len(stops) == len(heads):
                        bounds = [[round((Date.strptime(a, "%Y-%m-%dT%H:%M:%S.%f", scale=sc) - es[0]).total_seconds(), 6), round((Date.strptime(b, "%Y-%m-%dT%H:%M:%S.%f", scale=sc) - es[-1]).total_seconds(), 6)]
                                  for sc, a, b, es in zip(tsys, starts, stops, segs_t)]
                    else:
                        bounds = None
                    if tsys != list(heads) or bounds is None or any(abs(m) > 1.5e-6 for bd in bounds for m in bd):
                        out.fail(fam, "a message of several segments: TIME_SYSTEM / START_TIME / STOP_TIME of a segment do not describe that segment", inp,
                                 observed={"TIME_SYSTEMs": tsys, "start_stop_moved_s": bounds}, expected={"TIME_SYSTEMs": list(heads), "start_stop_moved_s": [[0.0, 0.0]] * len(heads)})


# ---------------------------------------------------------------- histories on ONE object across leap seconds / UTC day boundaries

def tle_at(day_of_year, yy):
    """the ISS TLE re-dated to noon of the given day (checksum recomputed)"""
    from beyond.io.tle import Tle
    name, l1, l2 = TLES[0].splitlines()
    l1 = l1[:18] + f"{yy:02d}{day_of_year:03d}.50000000" + l1[32:68]
    l1 += str(Tle._checksum(l1))
    return Tle("\n".join([name, l1, l2]))


def histories(out, rng, cmp, big):
    """every date-consuming operation driven through a HISTORY on one object — the same bound propagator / ephemeris /
    body asked for several instants in turn, all given in one non-UTC label, before and after a leap second and before and
    after an ordinary UTC midnight, in ascending, descending and alternating order, with the real EOP tables — each
    result compared with the same instant labelled UTC on a fresh object.  (A per-object memo of anything derived from
    the first date — the shift to UTC, the EOP record, the day number — shows here and nowhere else.)"""
    import numpy as np
    from harness.props import C03
    from beyond.dates import Date, timedelta
    from beyond.propagators import get_propagator
    from beyond.propagators.sgp4beta import Sgp4Beta
    from beyond.env.solarsystem import get_body
    from beyond.orbits import Ephem, StateVector
    with real_env("real"):
        # boundary = 00:00:00 UTC of `mjd`; the TLE is dated noon of the day before
        cases = [("leap-2017-01-01", 57754, 366, 16), ("leap-2015-07-01", 57204, 181, 15), ("midnight-2016-04-10", 57488, 100, 16)]
        if not big:
            cases = [cases[0], rng.choice(cases[1:])]
        for bname, mjd, doy, yy in cases:
            leap = bname.startswith("leap")
            B = Date(mjd, 0.0)
            tle = tle_at(doy, yy)
            orb0 = tle.orbit()
            # instants: the property excludes the 2 minutes around a leap second
            near = [-150.0, 150.0] if leap else [-20.0, 36.5, -50.0, 70.0]
            offs = sorted([-7200.0 - rng.randrange(600), -900.0, 900.0, 5400.0 + rng.randrange(600)] + near)
            orders = {"ascending": offs, "descending": offs[::-1], "alternating": [x for pair in zip(offs[:len(offs) // 2], offs[::-1]) for x in pair]}
            if not big:
                orders.pop("alternating")
            inst = {o_: B + timedelta(seconds=o_) for o_ in offs}

            def sgp4(form="tle", pname="Sgp4"):
                o = orb0.copy(form=form)
                o.propagator = get_propagator(pname)()
                return o

            def beta():
                b_ = Sgp4Beta(); b_.orbit = orb0
                return b_
            eph_pts = [sgp4().propagate(B + timedelta(seconds=300.0 * k)).copy(form="cartesian", frame="EME2000") for k in range(-30, 31)]
            sv0 = StateVector([7000e3, 100e3, -2000e3, 300.0, 7400.0, 1000.0], B, "cartesian", "EME2000")

            def at(sv, d):
                sv = sv.copy(); sv.date = d
                return sv
            ops = {
                "Sgp4": (lambda: sgp4(), lambda o, d: o.propagate(d).copy(form="cartesian", frame="TEME"), {}),
                "Kepler": (lambda: sgp4("keplerian_mean", "Kepler"), lambda o, d: o.propagate(d).copy(form="cartesian", frame="TEME"), {}),
                "J2": (lambda: sgp4("keplerian_mean", "J2"), lambda o, d: o.propagate(d).copy(form="cartesian", frame="TEME"), {}),
                "Sgp4Beta": (beta, lambda o, d: o.propagate(d), {}),
                "Ephem.interpolate": (lambda: Ephem([p.copy() for p in eph_pts]), lambda o, d: o.interpolate(d), {}),
                "frame-EME2000-ITRF": (lambda: sv0, lambda o, d: at(o, d).copy(frame="ITRF"), {"pos_atol": 0.05}),
                # the lunar theory takes a Julian date held in one double (resolution 4e-5 s, i.e. 4 cm of Moon motion): a UT1 / TDB
                # reading 1 µs away may round to the neighbouring double — numerical noise, not a label effect
                "body-Moon": (lambda: get_body("Moon"), lambda o, d: o.propagate(d), {"vtol_scale": 1100.0, "vel_rtol": 5e-8, "pos_atol": 0.06}),
            }
            if leap:
                # the body's velocity is a central difference over ±1 day of the label's clock: a UTC day holding a leap second
                # is 86401 s long, a TAI day is not — the documented limitation (leap seconds are not handled), not a label effect
                ops.pop("body-Moon")
            if not big:
                for k in rng.sample([k_ for k_ in ("Kepler", "J2", "Ephem.interpolate", "body-Moon") if k_ in ops], 2):
                    ops.pop(k)
            labels = SCALES[1:] if big else ["TAI"] + rng.sample(["TT", "GPS", "UT1", "TDB"], 2)
            for op, (make, call, tol) in ops.items():
                ref = {o_: call(make(), inst[o_]) for o_ in offs}            # UTC label, a fresh object per instant
                for lab in labels:
                    for oname, seq in orders.items():
                        obj = make()
                        for pos_, o_ in enumerate(seq):
                            d = inst[o_].change_scale(lab)
                            cmp(f"history-{op}", f"{bname}{o_:+.0f}s#{oname}:{pos_}", lab, "-", (lambda obj=obj, d=d: call(obj, d)), ref[o_],
                                extra={"boundary": f"{B} ({bname})", "sequence_offsets_s": seq[:pos_ + 1], "order": oname, "date": str(d),
                                       "what": "one object asked for these instants in turn, all labelled " + lab}, **tol)
            # iteration of one bound propagator across the boundary, started in each label: every point against a fresh UTC run
            for lab in labels:
                for start_off, step in ((-330.0, 60.0), (330.0, -60.0)):
                    o = sgp4()
                    start = (B + timedelta(seconds=start_off)).change_scale(lab)
                    pts = list(itertools.islice(o.iter(start=start, stop=timedelta(seconds=step * 11), step=timedelta(seconds=step)), 40))
                    for k, p_ in enumerate(pts):
                        du = p_.date.change_scale("UTC")
                        if leap and abs((du - B).total_seconds()) < 125:
                            continue
                        ref_ = sgp4().propagate(du).copy(form="cartesian", frame="TEME")
                        cmp("history-Sgp4.iter", f"{bname}{start_off:+.0f}s/{step:+.0f}s:{k}", lab, "-", p_.copy(form="cartesian", frame="TEME"), ref_,
                            extra={"boundary": f"{B} ({bname})", "start": str(start), "step_s": step, "point": k, "date": str(p_.date)})


# ---------------------------------------------------------------- oracle: coincident clock readings under two labels

def reading_as(Date, d, lab):
    """the date of label `lab` that SHOWS what `d` shows in its own scale (same calendar fields to the µs, other instant)"""
    return Date(d.datetime, scale=lab)


def coincident_readings(out, rng, cmp, big):
    """the clock reading is not the instant.  Every object that HOLDS dates — the tabulated points of an ephemeris, the
    epoch of an orbit, the date of a maneuver, the previous request on a bound object — is asked for a date whose
    own-scale reading (calendar fields to the µs) is exactly the reading of a held date under ANOTHER label, i.e. an
    instant the scale offset (TAI 36/37 s, GPS 17/18 s, TT/TDB ~69 s, UT1 < 1 s) away from it.  Anything that recognises
    dates by what they show (`.datetime`, calendar fields, `strftime` text — an index of the nodes, a memo of the last
    request, an `epoch reached` shortcut) instead of by the instant answers for the wrong instant here, and nowhere in
    the `convert the date and compare` families: converting a held date keeps the instant and changes the reading.
    Reference: a fresh object asked for the same instant relabelled in the holder's own scale / in UTC."""
    import numpy as np
    from beyond.dates import Date, timedelta
    from beyond.io.tle import Tle
    from beyond.orbits import Ephem, Orbit, StateVector
    from beyond.orbits.man import ImpulsiveMan
    from beyond.propagators import get_propagator
    from beyond.propagators.sgp4beta import Sgp4Beta
    from beyond.propagators.keplernum import KeplerNum
    from beyond.propagators.cw import ClohessyWiltshire
    from beyond.frames.frames import HillFrame
    from beyond.env.solarsystem import get_body
    with real_env("real"):
        tle = Tle(TLES[0])
        orb0 = tle.orbit()

        def bound(pname, form, epoch_label="UTC"):
            o = relabel(orb0.copy(form=form), epoch_label)
            o.propagator = KeplerNum(timedelta(seconds=30), get_body("Earth")) if pname == "KeplerNum" else get_propagator(pname)()
            return o

        # ---- A. ephemerides: the request shows the reading of a tabulated point
        src = bound("Sgp4", "tle")
        table_labels = SCALES if big else ["UTC", rng.choice(SCALES[1:])]
        for le in table_labels:
            for step_s in ([60.0, 12.0, 1.0] if big else [rng.choice([60.0, 30.0, 12.0, 1.0])]):
                n = max(41, int(2 * 150 / step_s) + 17)
                # the table starts on a whole minute OF ITS OWN SCALE (what `orb.ephem(start=Date(..., scale=le))` produces)
                first = Date(2018, 5, 4, 14 + rng.randrange(6), rng.randrange(60), 0, scale=le)
                pts = [src.propagate(first + timedelta(seconds=step_s * k)).copy(form="cartesian", frame="TEME") for k in range(n)]
                for method, order in ((("lagrange", 8), ("linear", None), ("lagrange", 3)) if big else (("lagrange", 8), ("linear", None))):
                    kw = {"method": method} if order is None else {"method": method, "order": order}

                    def fresh(pts=pts, kw=kw):
                        return Ephem([p.copy() for p in pts], **kw)
                    shared = fresh()
                    nodes = rng.sample(range(n // 2 - 4, n // 2 + 5), 4 if big else 2)
                    for ld in SCALES:
                        if ld == le:
                            continue
                        for k in nodes:
                            q = reading_as(Date, pts[k].date, ld)
                            lo, hi = pts[5].date, pts[-6].date
                            if not (lo < q < hi):
                                continue
                            inst = f"table[{le},{step_s:g}s,{method}{order or ''}]node{k}-read-as-{ld}"
                            extra = {"table_first": str(first), "table_step_s": step_s, "table_points": n, "method": method, "order": order,
                                     "node_shown": str(pts[k].date), "request": str(q), "same_instant_in_table_scale": str(q.change_scale(le)),
                                     "what": "the request shows the clock reading of a tabulated point under another label; its instant is the scale offset away"}
                            ref = fresh().interpolate(q.change_scale(le))
                            cmp("coincident-Ephem.interpolate", inst, ld, le, (lambda q=q: fresh().interpolate(q)), ref, extra=extra)
                            # one ephemeris asked for the node itself, then for the look-alike, then for the node again
                            at_node = fresh().interpolate(pts[k].date)
                            for pos_, (d_, r_) in enumerate(((pts[k].date, at_node), (q, ref), (pts[k].date, at_node))):
                                cmp("coincident-history-Ephem.interpolate", f"{inst}:{pos_}", ld if pos_ == 1 else le, le,
                                    (lambda d_=d_: shared.interpolate(d_)), r_, extra=extra)
                            if ld != "UTC" and le != "UTC":
                                cmp("coincident-Ephem.interpolate", inst + "/utc", "UTC", le, (lambda q=q: fresh().interpolate(q.change_scale("UTC"))), ref, extra=extra)
                            if (method, order) == ("lagrange", 8) and step_s >= 12.0:
                                # against the source of the table itself (interpolation error of an 8-point Lagrange polynomial on a LEO: < 1 m)
                                cmp("coincident-Ephem.interpolate-vs-source", inst, ld, le, (lambda q=q: fresh().interpolate(q)),
                                    src.propagate(q.change_scale("UTC")).copy(form="cartesian", frame="TEME"), extra=extra, pos_atol=5.0, vel_atol=0.05)
                    # iteration of the ephemeris from a look-alike of a node: resampled, and `step=None` (the tabulated points from there on)
                    ld = rng.choice([s_ for s_ in SCALES if s_ != le])
                    k = n // 2
                    q = reading_as(Date, pts[k].date, ld)
                    for mode in ("resample", "dates", "own-step"):
                        def run(start, mode=mode):
                            e = fresh()
                            if mode == "resample":
                                return list(e.iter(start=start, stop=timedelta(seconds=2.5 * step_s), step=timedelta(seconds=step_s)))
                            if mode == "dates":
                                return list(e.iter(dates=[start, start + timedelta(seconds=step_s), start]))
                            return list(e.iter(start=start, stop=pts[k + 8].date))
                        try:
                            got = run(q)
                            ref_ = run(q.change_scale(le))
                            ok = len(got) == len(ref_) and all(abs((a.date - b.date).total_seconds()) <= 3e-6 and np.all(np.abs(vec(a) - vec(b)) <= 0.05) for a, b in zip(got, ref_))
                            obs = [(str(a.date), [float(x) for x in a[:3]]) for a in got[:3]]
                            exp = [(str(a.date), [float(x) for x in a[:3]]) for a in ref_[:3]]
                        except Exception as e:  # noqa: BLE001
                            ok, obs, exp = False, repr(e), "no exception"
                        out.count(key=("coincident-Ephem.iter", le, step_s, method, order, mode, ld), nontrivial=True, op="coincident-Ephem.iter", label=f"{ld}/{le}")
                        if not ok:
                            out.fail("coincident-Ephem.iter:label-dependent", "Ephem.iter started from a date that shows the reading of a tabulated point under another label differs from the same start relabelled",
                                     {"table_first": str(first), "table_step_s": step_s, "method": method, "order": order, "mode": mode, "start": str(q), "same_instant_in_table_scale": str(q.change_scale(le))},
                                     observed=obs, expected=exp)

        # ---- B. propagators: the request shows the reading of the orbit's epoch
        hill = HillFrame(orientation="QSW")
        props = [("Sgp4", "tle"), ("Kepler", "keplerian_mean"), ("J2", "keplerian_mean"), ("KeplerNum", "cartesian"), ("Sgp4Beta", "tle")]
        for pname, form in (props if big else rng.sample(props, 3)):
            for le in (SCALES if big else rng.sample(SCALES, 2)):
                for ld in (SCALES if big else rng.sample(SCALES, 3)):
                    if ld == le:
                        continue

                    def mk(le_=le):
                        if pname == "Sgp4Beta":
                            b_ = Sgp4Beta(); b_.orbit = relabel(orb0, le_)
                            return b_
                        o = bound(pname, "tle" if form == "tle" else form, le_)
                        if pname == "KeplerNum":
                            o = relabel(orb0.copy(form="cartesian", frame="EME2000"), le_)
                            o.propagator = KeplerNum(timedelta(seconds=30), get_body("Earth"))
                        return o

                    def call(o, d):
                        r = o.propagate(d)
                        return r if pname in ("Sgp4Beta", "KeplerNum") else r.copy(form="cartesian", frame="TEME")
                    epoch = relabel(orb0, le).date
                    q = reading_as(Date, epoch, ld)
                    ref = call(mk("UTC"), q.change_scale("UTC"))
                    extra = {"epoch": str(epoch), "request": str(q), "same_instant_utc": str(q.change_scale("UTC")),
                             "what": "the request shows the clock reading of the orbit's epoch under another label"}
                    cmp(f"coincident-{pname}", f"epoch[{le}]-read-as-{ld}", ld, le, (lambda q=q: call(mk(), q)), ref, extra=extra)
                    # one bound object: the epoch itself, the look-alike, the epoch again
                    obj = mk()
                    ref0 = call(mk("UTC"), epoch.change_scale("UTC"))
                    for pos_, (d_, r_) in enumerate(((epoch, ref0), (q, ref), (epoch, ref0))):
                        cmp(f"coincident-history-{pname}", f"epoch[{le}]-read-as-{ld}:{pos_}", ld if pos_ == 1 else le, le, (lambda d_=d_: call(obj, d_)), r_, extra=extra)

        # ---- C. maneuvers: the request shows the reading of the maneuver's date (just before / just after it)
        d0 = Date(2016, 3, 1, 10, 0, 0)
        for lm in (SCALES if big else rng.sample(SCALES, 2)):
            for ld in (SCALES if big else rng.sample(SCALES, 3)):
                if ld == lm:
                    continue

                def mkcw(lm_):
                    prop = ClohessyWiltshire(6.9e6, frame=hill)
                    o = Orbit([-600.0, -1500.0, 10.0, 0.0, 1.0, 0.01], d0, "cartesian", "Hill", prop)
                    o.maneuvers = [ImpulsiveMan((d0 + timedelta(seconds=900)).change_scale(lm_), [0.0, 0.1, 0.0])]
                    return o
                m = mkcw(lm).maneuvers[0].date
                q = reading_as(Date, m, ld)
                if not (q > d0):
                    continue
                cmp("coincident-CW-maneuver", f"man[{lm}]-read-as-{ld}", ld, lm, (lambda q=q: mkcw(lm).propagate(q)), mkcw("UTC").propagate(q.change_scale("UTC")),
                    vtol_scale=10.0, extra={"maneuver": str(m), "request": str(q), "same_instant_utc": str(q.change_scale("UTC"))})

        # ---- D. any bound object: a request, then its look-alike under another label, then the request again
        sv0 = StateVector([7000e3, 100e3, -2000e3, 300.0, 7400.0, 1000.0], orb0.date, "cartesian", "EME2000")

        def at(sv, d):
            sv = sv.copy(); sv.date = d
            return sv
        ops = {
            "frame-EME2000-ITRF": (lambda: sv0, lambda o, d: at(o, d).copy(frame="ITRF"), {"pos_atol": 0.05}),
            "frame-TEME-EME2000": (lambda: sv0.copy(frame="TEME"), lambda o, d: at(o, d).copy(frame="EME2000"), {}),
            "body-Moon": (lambda: get_body("Moon"), lambda o, d: o.propagate(d), {"vtol_scale": 1100.0, "vel_rtol": 5e-8, "pos_atol": 0.06}),
            "body-Sun": (lambda: get_body("Sun"), lambda o, d: o.propagate(d), {"vtol_scale": 3.0e4, "vel_rtol": 5e-8, "pos_atol": 2.0}),
        }
        for op, (make, call, tol) in (ops.items() if big else rng.sample(sorted(ops.items()), 2)):
            p = orb0.date + timedelta(seconds=rng.randrange(86400), microseconds=rng.choice([0, 0, 250000, rng.randrange(10**6)]))
            for lab in (SCALES[1:] if big else rng.sample(SCALES[1:], 2)):
                q = reading_as(Date, p, lab)
                obj = make()
                seq = [(p, "UTC"), (q, lab), (p, "UTC"), (q, lab)]
                for pos_, (d_, l_) in enumerate(seq):
                    cmp(f"coincident-history-{op}", f"{p}-read-as-{lab}:{pos_}", l_, "-", (lambda d_=d_: call(obj, d_)), call(make(), d_.change_scale("UTC")),
                        extra={"sequence": [str(x) for x, _ in seq[:pos_ + 1]], "what": "one object asked for a date and for the date of another label showing the same clock reading"}, **tol)
