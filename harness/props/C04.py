"""C04 — results depend on the instant, never on the Date's scale label."""
import ast
import math
import os

from harness import core
from harness.core import Outcome

ID = "C04"
LEAN_TARGETS = ["BeyondVerif.Props.C04"]
THEOREMS = [
    "BeyondVerif.C04.instant_label_free",
    "BeyondVerif.C04.relabel_same_instant",
    "BeyondVerif.C04.delta_label_independent",
    "BeyondVerif.C04.utcFields_label_independent",
    "BeyondVerif.C04.tdiff_label_independent",
    "BeyondVerif.C04.tle_epoch_label_independent",
    "BeyondVerif.C04.eop_day_label_independent",
    "BeyondVerif.C04.eop_day_own_scale_depends_on_label",
]
LEVEL_TEXT = ("Lean theorems over an integer-microsecond model of Date (value = instant in the reference scale + a label): every date-handling step "
              "used by the date-consuming operations (time since epoch, UTC calendar fields handed to SGP4, the TLE epoch field, ordering/equality) "
              "is a function of the instant alone, for all instants and all pairs of labels; the EOP day lookup, which used the day number of the label scale (finding, "
              "fixed by fc514f7), is now by UTC day and proved label-free; the old behaviour keeps a kernel-checked regression witness. The model is tied to the "
              "code by a correspondence run on Date/timedelta operations and by an oracle sweep of every date-consuming public operation x 6 labels "
              "for the argument date x 6 labels for the epoch on the real API.")
LEVEL_NOTE = ("the theorems cover the date-handling layer only; that each operation uses the date only through those steps is established by the "
              "oracle sweep on the real API, not by proof; UT1/TDB conversions are within 1 us, so results are compared with |v| x 3 us tolerance")
TECHNIQUE = "Lean 4 proof over an integer-microsecond date model; differential correspondence; exhaustive label x label sweep of the real operations"
TRUSTED = ["harness: relabelling is done with Date.change_scale on the real API; EOP tables from tests/data/pole"]
ASSUMPTIONS = ["instants are at least 2 minutes away from a leap second (documented: leap seconds are not handled)",
               "dates exact to the microsecond; UT1 and TDB offsets rounded to the microsecond as timedelta does"]
NOT_COVERED = ["that every public operation consumes its date only through the modelled steps is checked by the label sweep on the real API, not proved"]
OPEN = []
RULE = ("oracle: for each operation (SGP4, native SGP4, Kepler, J2, numerical, CW, Sun/Moon, frame conversion, ephemeris interpolation, event detection, "
        "TLE writing, CCSDS OPM/OEM writing+reading) the result for the instant labelled UTC is compared with the result for the same instant in each of "
        "the other 5 scales, for the argument date and for the object's epoch; non-trivial = label differs from UTC; distinct = (operation, instant, labels)")

SCALES = ["UTC", "TAI", "TT", "GPS", "UT1", "TDB"]


def extract(ctx):
    """the configuration of the date model (scale graph, `_scale_*` methods, second EOP lookup, IERS tables: C03's
    extractor) and the cascade of formats of the CCSDS `parse_date` with its call sites"""
    from harness.props import C03
    ch = list(C03.extract(ctx) or [])
    ch += extract_ccsds_dates()
    return ch


# ---------------------------------------------------------------- extract: beyond/io/ccsds -> Generated/CcsdsDates.lean

def _ccsds_dir():
    return os.path.join(core.REPO, "beyond", "io", "ccsds")


def _lean_str(s):
    return '"' + s.replace("\\", "\\\\").replace('"', '\\"') + '"'


def parse_date_branches(tree):
    """the `Date.strptime(string, FMT, scale=scale)` calls of `parse_date` in the order the `try … except ValueError`
    cascade tries them: [(format string, scale handed on?)].  RuntimeError when the function is not such a cascade."""
    consts = {}
    for st in tree.body:
        if isinstance(st, ast.Assign) and len(st.targets) == 1 and isinstance(st.targets[0], ast.Name) and isinstance(st.value, ast.Constant) and isinstance(st.value.value, str):
            consts[st.targets[0].id] = st.value.value
    fn = next((f for f in tree.body if isinstance(f, ast.FunctionDef) and f.name == "parse_date"), None)
    if fn is None:
        raise RuntimeError("commons.py: no function parse_date")
    params = [a.arg for a in fn.args.args]
    if len(params) != 2:
        raise RuntimeError("parse_date: expected the parameters (string, scale)")
    p_str, p_scale = params

    def branch(st):
        if not isinstance(st, (ast.Assign, ast.Return)) or not isinstance(st.value, ast.Call):
            raise RuntimeError(f"parse_date: line {st.lineno}: not a Date.strptime call")
        c = st.value
        if not (isinstance(c.func, ast.Attribute) and c.func.attr == "strptime" and isinstance(c.func.value, ast.Name) and c.func.value.id == "Date"):
            raise RuntimeError(f"parse_date: line {st.lineno}: not a Date.strptime call")
        if not (len(c.args) >= 2 and isinstance(c.args[0], ast.Name) and c.args[0].id == p_str):
            raise RuntimeError(f"parse_date: line {st.lineno}: first argument is not the text")
        f = c.args[1]
        if isinstance(f, ast.Name) and f.id in consts:
            fmt = consts[f.id]
        elif isinstance(f, ast.Constant) and isinstance(f.value, str):
            fmt = f.value
        else:
            raise RuntimeError(f"parse_date: line {st.lineno}: format is not a module constant")
        cands = list(c.args[2:3]) + [k.value for k in c.keywords if k.arg == "scale"]
        if any(k.arg is None for k in c.keywords) or len(cands) > 1:
            raise RuntimeError(f"parse_date: line {st.lineno}: scale argument not understood")
        if cands and not (isinstance(cands[0], ast.Name) and cands[0].id == p_scale):
            raise RuntimeError(f"parse_date: line {st.lineno}: the scale handed on is not the parameter")
        return fmt, bool(cands)

    def walk(stmts):
        stmts = [s_ for s_ in stmts if not (isinstance(s_, ast.Expr) and isinstance(s_.value, ast.Constant))]
        if not stmts:
            raise RuntimeError("parse_date: empty block")
        head, rest = stmts[0], stmts[1:]
        for r in rest:
            if not (isinstance(r, ast.Return) and isinstance(r.value, ast.Name)):
                raise RuntimeError(f"parse_date: line {r.lineno}: statement not understood")
        if isinstance(head, ast.Try):
            if head.orelse or head.finalbody or len(head.handlers) != 1 or len(head.body) != 1:
                raise RuntimeError(f"parse_date: line {head.lineno}: try block not understood")
            h = head.handlers[0]
            if not (isinstance(h.type, ast.Name) and h.type.id == "ValueError"):
                raise RuntimeError(f"parse_date: line {h.lineno}: handler is not `except ValueError`")
            return [branch(head.body[0])] + walk(h.body)
        return [branch(head)]

    return walk(fn.body)


def parse_date_call_sites():
    """every call of parse_date in beyond/io/ccsds: (file:line, the scale argument is the message's TIME_SYSTEM?) — the
    argument is either an expression reading TIME_SYSTEM or a local name every assignment of which, in the enclosing
    function, reads TIME_SYSTEM"""
    sites = []
    for fn in sorted(os.listdir(_ccsds_dir())):
        if not fn.endswith(".py"):
            continue
        src = open(os.path.join(_ccsds_dir(), fn)).read()
        tree = ast.parse(src)
        for func in [n for n in ast.walk(tree) if isinstance(n, ast.FunctionDef)]:
            assigns = {}
            for n in ast.walk(func):
                if isinstance(n, ast.Assign):
                    for t in n.targets:
                        if isinstance(t, ast.Name):
                            assigns.setdefault(t.id, []).append(ast.get_source_segment(src, n.value) or "")
            for c in ast.walk(func):
                if isinstance(c, ast.Call) and isinstance(c.func, ast.Name) and c.func.id == "parse_date":
                    ok = False
                    if len(c.args) == 2 and not c.keywords:
                        a = c.args[1]
                        seg = ast.get_source_segment(src, a) or ""
                        if "TIME_SYSTEM" in seg:
                            ok = True
                        elif isinstance(a, ast.Name) and assigns.get(a.id) and all("TIME_SYSTEM" in v for v in assigns[a.id]):
                            ok = True
                    sites.append((f"{fn}:{func.name}:{c.lineno}", ok))
    return sorted(set(sites))


def extract_ccsds_dates():
    tree = ast.parse(open(os.path.join(_ccsds_dir(), "commons.py")).read())
    brs = parse_date_branches(tree)
    sites = parse_date_call_sites()
    if not sites:
        raise RuntimeError("no call of parse_date found in beyond/io/ccsds")
    txt = ["/- GENERATED by harness/props/C04.py from beyond/io/ccsds/*.py (AST) — do not edit. -/",
           "namespace BeyondVerif.Generated",
           "/-- `parse_date`: the `Date.strptime(string, FMT, scale=scale)` calls in the order the `try … except ValueError` cascade",
           "tries them: (format, is the scale parameter handed on?) -/",
           "def parseDateBranches : List (String × Bool) := [" + ", ".join(f"({_lean_str(f)}, {'true' if s_ else 'false'})" for f, s_ in brs) + "]",
           "/-- every call of `parse_date` in beyond/io/ccsds: (file:function:line, the scale argument is the message's TIME_SYSTEM?) -/",
           "def parseDateCallSites : List (String × Bool) := [" + ",\n  ".join(f"({_lean_str(w)}, {'true' if o else 'false'})" for w, o in sites) + "]",
           "end BeyondVerif.Generated", ""]
    if core.write_if_changed(os.path.join(core.LEAN, "BeyondVerif", "Generated", "CcsdsDates.lean"), "\n".join(txt)):
        return ["Generated/CcsdsDates.lean"]
    return []


# ---------------------------------------------------------------- correspondence: Date arithmetic vs the integer model

def correspondence(ctx):
    """the integer-µs date layer used by the C04 theorems against the real Date: time differences and UTC fields"""
    from harness import env
    env.use_real_eop()
    from beyond.dates import Date, timedelta
    out = Outcome()
    rng = ctx.rng
    reqs, meta = [], []
    for _ in range(ctx.n(400, 5000)):
        mjd = rng.randint(47000, 57500)
        us = rng.randrange(130 * 10**6, 86400 * 10**6 - 130 * 10**6)
        l1, l2 = rng.choice(SCALES[:4]), rng.choice(SCALES[:4])
        d_utc = Date(mjd, 0.0) + timedelta(microseconds=us)
        a = d_utc.change_scale(l1)
        dt_us = rng.randrange(-30 * 86400 * 10**6, 30 * 86400 * 10**6)
        b = (d_utc + timedelta(microseconds=dt_us)).change_scale(l2)
        # offsets of the two labels w.r.t. TAI in µs at those dates (the model takes them as inputs: they are C03's subject)
        oa = round(a._offset * 1e6)
        ob = round(b._offset * 1e6)
        # readings in own scale, integer µs since MJD 0
        ra = a.d * 86400 * 10**6 + round(a.s * 1e6)
        rb = b.d * 86400 * 10**6 + round(b.s * 1e6)
        real = round((b - a).total_seconds() * 1e6)
        reqs.append(f"c04.delta {ra} {oa} {rb} {ob}")
        meta.append((real, {"a": str(a), "b": str(b)}))
        out.count(key=reqs[-1], nontrivial=l1 != l2, kind=f"delta-{l1}-{l2}")
    # EOP day: the record attached to a date is that of int(UTC mjd), whatever the label (dates away from leap seconds)
    for _ in range(ctx.n(200, 2000)):
        mjd = rng.randint(47000, 57400)
        us = rng.choice([rng.randrange(0, 86400 * 10**6), rng.randrange(86400 * 10**6 - 70 * 10**6, 86400 * 10**6), rng.randrange(0, 70 * 10**6)])
        lab = rng.choice(SCALES[1:4])
        d_utc = Date(mjd, 0.0) + timedelta(microseconds=us)
        a = d_utc.change_scale(lab)
        real_day = next((k for k in range(mjd - 1, mjd + 3) if (a.eop.ut1_utc, a.eop.x) == (Date(k, 43200.0).eop.ut1_utc, Date(k, 43200.0).eop.x)), None)
        ra = a.d * 86400 * 10**6 + round(a.s * 1e6)
        reqs.append(f"c04.eopday {ra} {round(a._offset * 1e6)} {round(d_utc._offset * 1e6)}")
        meta.append((real_day, {"date": str(a)}))
        out.count(key=reqs[-1], kind=f"eopday-{lab}", window=us < 70 * 10**6 or us > 86400 * 10**6 - 70 * 10**6)
    replies = core.Driver().run(reqs)
    for req, (real, inp), rep in zip(reqs, meta, replies):
        if rep != str(real):
            out.fail("c04-" + req.split()[0].split(".")[1], "date-handling step differs between Date and the integer model: " + req.split()[0], inp, observed=real, expected=rep)
        out.sample({"request": req, "impl_us": real, "model": rep}, limit=3)
    return out


# ---------------------------------------------------------------- oracle on the real API

TLES = [
    """ISS (ZARYA)
1 25544U 98067A   18124.55610684  .00001524  00000-0  30197-4 0  9997
2 25544  51.6421 236.2139 0003381  47.8509  47.6767 15.54198229111731""",
    """MOLNIYA 1-90
1 24960U 97054A   18123.22759647  .00000163  00000-0  24467-3 0  9999
2 24960  62.6812 182.7824 6470982 294.8616  12.8538  3.18684355160009""",
    """SENTINEL
1 27421U 02021A   15290.39156189  .00000174  00000-0  10000-3 0  9996
2 27421  98.4973 341.4832 0001168 101.4896  26.7296 14.20902451697482""",
]


def relabel(obj, scale):
    o = obj.copy()
    o.date = obj.date.change_scale(scale)
    return o


def vec(x):
    import numpy as np
    return np.array(x, dtype=float)


def oracle(ctx, widened):
    import numpy as np
    from harness import env
    env.use_real_eop()
    from beyond.dates import Date, timedelta
    from beyond.io.tle import Tle
    from beyond.propagators import get_propagator
    from beyond.propagators.sgp4beta import Sgp4Beta
    from beyond.env.solarsystem import get_body
    out = Outcome()
    rng = ctx.rng
    big = widened or ctx.thorough
    ninst = 12 if big else 3

    def cmp(op, inst, lab_date, lab_epoch, got, ref, vtol_scale=8000.0, extra=None, vel_rtol=0.0, dates=(), pos_atol=0.0, vel_atol=0.0):
        """positions within |v| x 3 µs (UT1/TDB conversions are rounded to the µs) + 1e-6 m"""
        if callable(got):
            try:
                got = got()
            except Exception as e:  # noqa: BLE001  (the UTC-labelled baseline did not raise)
                out.count(key=(op, inst, lab_date, lab_epoch), op=op, label=f"{lab_date}/{lab_epoch}")
                out.fail(f"{op}:label-dependent", f"{op}: raises for date label {lab_date} / epoch label {lab_epoch} but not for the same instant labelled UTC",
                         {"op": op, "instant": inst, "date_label": lab_date, "epoch_label": lab_epoch, **(extra or {})}, observed=repr(e), expected=[float(x) for x in vec(ref)])
                return
        g, r = vec(got), vec(ref)
        slack = 3e-6 if ("UT1" in (lab_date, lab_epoch) or "TDB" in (lab_date, lab_epoch)) else 1e-9
        tol = np.array([vtol_scale * slack + 1e-6 + pos_atol] * 3 + [vtol_scale * slack * 1.2e-3 + 1e-9 + vel_rtol * vtol_scale + pos_atol * 1.2e-3 + vel_atol] * 3)[: len(g)]
        out.count(key=(op, inst, lab_date, lab_epoch), nontrivial=(lab_date, lab_epoch) != ("UTC", "UTC"), op=op, label=f"{lab_date}/{lab_epoch}")
        if g.shape != r.shape or not np.all(np.abs(g - r) <= tol):
            fam = f"{op}:label-dependent"
            if any(label_day_differs(x) for x in dates):
                fam = "eop-day-by-label-scale"
            out.fail(fam, f"{op}: result depends on the scale label (date label {lab_date}, epoch label {lab_epoch})",
                     {"op": op, "instant": inst, "date_label": lab_date, "epoch_label": lab_epoch, **(extra or {})},
                     observed=[float(x) for x in g], expected=[float(x) for x in r])

    for ti, text in enumerate(TLES):
        tle = Tle(text)
        orb0 = tle.orbit()
        instants = [timedelta(seconds=rng.uniform(-3, 3) * 86400) for _ in range(ninst)]
        # boundary instants: within the scale offsets (TAI-UTC, TT-UTC, GPS-UTC, |UT1-UTC|) of a UTC midnight and of a New Year,
        # with fractional seconds — where the calendar fields (day, year) of the same instant differ from one label to another
        from beyond.dates import Date as _Date
        ny = _Date(orb0.date.datetime.year + 1, 1, 1)
        some_day = _Date(int(orb0.date.mjd) + rng.randint(2, 20), 0.0)
        deltas = [-69.4, -68.3, -37.5, -36.6, -35.4, -32.684, -31.7, -19.5, -18.4, -17.6, -0.6, -0.316, 0.25, 0.9, 17.7, 18.6, 31.684, 32.5, 36.5, 68.7]
        picks = deltas if big else rng.sample(deltas, 5)
        for base in (ny, some_day):
            for dl in picks:
                instants.append((base + timedelta(seconds=dl)) - orb0.date)
        for k, dt in enumerate(instants):
            d_utc = orb0.date + dt
            inst = f"tle{ti}+{dt.total_seconds():.3f}s"
            # ---- analytical propagators
            for pname in ("Sgp4", "Kepler", "J2"):
                form = "tle" if pname == "Sgp4" else "keplerian_mean"
                base_orb = orb0.copy(form=form)
                base_orb.propagator = get_propagator(pname)()
                ref = base_orb.propagate(d_utc).copy(form="cartesian", frame="TEME")
                for ld in SCALES:
                    for le in (SCALES if big or ld == "UTC" or ld == "TAI" else ["UTC", "TT"]):
                        o = relabel(base_orb, le)
                        o.propagator = get_propagator(pname)()
                        cmp(pname, inst, ld, le, lambda: o.propagate(d_utc.change_scale(ld)).copy(form="cartesian", frame="TEME"), ref)
                        if ld == "UTC" and le in ("UTC", "TAI", "TT", "GPS"):
                            # the same request as a timedelta from the (relabelled) epoch — uniform scales only: a timedelta added to a
                            # UT1/TDB epoch is that many seconds of UT1/TDB, which legitimately differs from SI seconds
                            cmp(pname + "-timedelta", inst, "timedelta", le, lambda: o.propagate(dt).copy(form="cartesian", frame="TEME"), ref)
            # ---- native SGP4 (near-Earth TLEs only)
            if ti != 1:
                s = Sgp4Beta(); s.orbit = orb0
                ref = s.propagate(d_utc)
                for ld in SCALES:
                    for le in ("UTC", "TAI", "TT"):
                        s2 = Sgp4Beta(); s2.orbit = relabel(orb0, le)
                        cmp("Sgp4Beta", inst, ld, le, lambda: s2.propagate(d_utc.change_scale(ld)), ref)
            # ---- frame conversion of a state dated with a label
            sv = orb0.propagate(d_utc).copy(form="cartesian", frame="TEME")
            for target in ("ITRF", "EME2000", "GCRF", "PEF"):
                ref = sv.copy(frame=target)
                for ld in SCALES:
                    rl = relabel(sv, ld)
                    got = lambda: rl.copy(frame=target)  # noqa: E731
                    # Earth-fixed targets: the sidereal angle is computed from a Julian date held in ONE double (resolution 4e-5 s,
                    # i.e. about 2 cm at LEO); the rounding differs with the path the date took — numerical noise, not a label effect
                    cmp(f"frame-TEME-{target}", inst, ld, "-", got, ref, dates=[rl.date], pos_atol=0.05 if target in ("ITRF", "PEF", "TIRF") else (2e-5 if target == "GCRF" else 0.0),
                        # TEME -> GCRF is routed through the Earth-fixed frames (tree TEME-TOD-PEF-ITRF-TIRF-CIRF-GCRF): the noise cancels to ~1e-5 m / 1e-7 m/s
                        vel_atol=2e-7 if target == "GCRF" else 0.0)
            # ---- TLE writing: identical text
            ref_txt = str(Tle.from_orbit(orb0.propagate(d_utc).copy(form="tle"), norad_id=tle.norad_id, cospar_id=tle.cospar_id))
            for ld in SCALES:
                o = relabel(orb0.propagate(d_utc), ld)
                txt = str(Tle.from_orbit(o.copy(form="tle"), norad_id=tle.norad_id, cospar_id=tle.cospar_id))
                out.count(key=("tle-write", inst, ld), nontrivial=ld != "UTC", op="tle-write", label=ld)
                same = txt == ref_txt
                if not same and ld in ("UT1", "TDB"):
                    # 1e-8 day printed resolution = 864 µs; a ±1 µs conversion error may flip the last digit
                    same = _tle_epoch_close(txt, ref_txt)
                if not same:
                    out.fail("tle-write:label-dependent", "Tle.from_orbit text depends on the scale label of the orbit's date",
                             {"instant": inst, "date_label": ld}, observed=txt, expected=ref_txt)
    # ---- numerical propagator, CW, ephemeris interpolation, events, CCSDS, Sun/Moon
    numerical(out, rng, cmp, big)
    clohessy(out, rng, cmp, big)
    ephem_and_events(out, rng, cmp, big)
    ccsds(out, rng, big)
    bodies(out, rng, cmp, big)
    eop_lookup(out, rng, big)
    out.sample({"operation": "Sgp4.propagate", "instant": "tle0+…s", "labels": "6 x 6", "compared_with": "UTC/UTC baseline"})
    return out


def label_day_differs(date):
    """the day number of the date in its own scale differs from its UTC day number (the EOP tables are indexed by UTC day)"""
    u = date.change_scale("UTC")
    return int(date.d + date.s / 86400.0) != int(u.d + u.s / 86400.0)


def _tle_epoch_close(a, b):
    la, lb = a.splitlines(), b.splitlines()
    if len(la) != len(lb):
        return False
    try:
        ea, eb = float(la[-2][20:32]), float(lb[-2][20:32])
    except ValueError:
        return False
    return abs(ea - eb) <= 2e-8 and la[-1][:60] == lb[-1][:60]


def numerical(out, rng, cmp, big):
    from beyond.dates import timedelta
    from beyond.io.tle import Tle
    from beyond.propagators.keplernum import KeplerNum
    from beyond.env.solarsystem import get_body
    orb0 = Tle(TLES[0]).orbit().copy(form="cartesian", frame="EME2000")
    for k in range(3 if big else 1):
        dt = timedelta(seconds=rng.choice([1800.0, 5400.0, 4321.5]))
        d_utc = orb0.date + dt
        base = orb0.copy(); base.propagator = KeplerNum(timedelta(seconds=60), get_body("Earth"))
        ref = base.propagate(d_utc)
        for ld in SCALES:
            for le in (SCALES if big else ["UTC", "TT", "UT1"]):
                o = relabel(orb0, le); o.propagator = KeplerNum(timedelta(seconds=60), get_body("Earth"))
                cmp("KeplerNum", f"num+{dt.total_seconds()}", ld, le, lambda: o.propagate(d_utc.change_scale(ld)), ref)


def clohessy(out, rng, cmp, big):
    from beyond.dates import Date, timedelta
    from beyond.orbits import Orbit
    from beyond.propagators.cw import ClohessyWiltshire
    from beyond.orbits.man import ImpulsiveMan
    from beyond.frames.frames import HillFrame
    hill = HillFrame(orientation="QSW")
    d0 = Date(2016, 3, 1, 10, 0, 0)
    for k in range(3 if big else 1):
        t = rng.choice([600.0, 2500.0, 7000.25])
        tm = t * 0.4
        def mk(le, lm):
            prop = ClohessyWiltshire(6.9e6, frame=hill)
            o = Orbit([-600.0, -1500.0, 10.0, 0.0, 1.0, 0.01], d0.change_scale(le), "cartesian", "Hill", prop)
            o.maneuvers = [ImpulsiveMan((d0 + timedelta(seconds=tm)).change_scale(lm), [0.0, 0.1, 0.0])]
            return o
        ref = mk("UTC", "UTC").propagate(d0 + timedelta(seconds=t))
        for ld in SCALES:
            for le in (SCALES if big else ["UTC", "TAI", "TDB"]):
                lm = rng.choice(SCALES)
                cmp("CW", f"cw+{t}", ld, le, lambda: mk(le, lm).propagate((d0 + timedelta(seconds=t)).change_scale(ld)), ref, vtol_scale=10.0)


def ephem_and_events(out, rng, cmp, big):
    import numpy as np
    from beyond.dates import Date, timedelta
    from beyond.io.tle import Tle
    from beyond.propagators.listeners import NodeListener, ApsideListener
    orb0 = Tle(TLES[0]).orbit()
    start = orb0.date + timedelta(hours=1)
    step = timedelta(seconds=60)
    n = 60
    ref_eph = orb0.ephem(start=start, stop=step * n, step=step)
    q_dates = [start + timedelta(seconds=s) for s in (0.0, 30.0, 1234.567, 59 * 60.0, 60 * 60.0)]
    ref_pts = [ref_eph.interpolate(d) for d in q_dates]
    for le in (SCALES if big else ["UTC", "TAI", "UT1"]):
        eph = orb0.ephem(start=start.change_scale(le), stop=step * n, step=step)
        for ld in SCALES:
            for qi, (qd, rp) in enumerate(zip(q_dates, ref_pts)):
                if qi in (0, len(q_dates) - 1) and (ld in ("UT1", "TDB") or le in ("UT1", "TDB")):
                    # the first/last table date converted through UT1/TDB is the same instant only to within 1 µs
                    # (resolution of the conversion, C03): it may fall just outside the table — not a label effect
                    continue
                try:
                    got = eph.interpolate(qd.change_scale(ld))
                except Exception as e:  # noqa: BLE001  (the UTC-labelled baseline did not raise)
                    out.count(key=("Ephem.interpolate", qi, ld, le), op="Ephem.interpolate", label=f"{ld}/{le}")
                    out.fail("Ephem.interpolate:label-dependent", f"Ephem.interpolate raises for the instant labelled {ld} (ephemeris in {le}) but not for the same instant in UTC",
                             {"op": "Ephem.interpolate", "offset_s": (qd - start).total_seconds(), "date_label": ld, "epoch_label": le}, observed=repr(e), expected=[float(x) for x in rp])
                    continue
                cmp("Ephem.interpolate", f"eph+{(qd - start).total_seconds()}", ld, le, got, rp)
    # events: node and apside crossings found with start/stop given in another scale
    def events(ld, le):
        o = relabel(orb0, le)
        o.propagator = orb0.propagator.__class__()
        res = []
        for p in o.iter(start=start.change_scale(ld), stop=timedelta(hours=3), step=timedelta(seconds=180), listeners=[NodeListener(), ApsideListener()]):
            if p.event:
                res.append((str(p.event.info), p.date))
        return res
    ref = events("UTC", "UTC")
    for ld in SCALES:
        for le in (["UTC", "TT"] if not big else SCALES):
            try:
                got = events(ld, le)
            except Exception as e:  # noqa: BLE001
                got = [("exception " + repr(e), start)]
            out.count(key=("events", ld, le), nontrivial=(ld, le) != ("UTC", "UTC"), op="events", label=f"{ld}/{le}")
            ok = len(got) == len(ref) and all(a[0] == b[0] and abs((a[1] - b[1]).total_seconds()) <= 2e-5 for a, b in zip(got, ref))
            if not ok:
                out.fail("events:label-dependent", "event stream depends on the scale label of start date / epoch",
                         {"date_label": ld, "epoch_label": le}, observed=[(a, str(b)) for a, b in got][:6], expected=[(a, str(b)) for a, b in ref][:6])


def ccsds(out, rng, big):
    from beyond.dates import timedelta
    from beyond.io.tle import Tle
    from beyond.io import ccsds as io_ccsds
    orb0 = Tle(TLES[0]).orbit().copy(form="cartesian", frame="EME2000")
    sv0 = orb0.propagate(orb0.date + timedelta(seconds=4321.123456))
    start = orb0.date + timedelta(hours=1)
    for ld in SCALES:
        for fmt in ("kvn", "xml"):
            o = relabel(sv0, ld)
            try:
                back = io_ccsds.loads(io_ccsds.dumps(o, fmt=fmt))
                ok = abs((back.date - sv0.date).total_seconds()) <= 1.5e-6 and all(abs(a - b) <= 1.1e-3 for a, b in zip(back, sv0))
                obs = str(back.date)
            except Exception as e:  # noqa: BLE001
                ok, obs = False, repr(e)
            out.count(key=("opm", ld, fmt), nontrivial=ld != "UTC", op="ccsds-opm-" + fmt, label=ld)
            if not ok:
                out.fail(f"ccsds-opm:label-dependent", "OPM written from a date in this scale does not read back as the same instant/state",
                         {"date_label": ld, "fmt": fmt}, observed=obs, expected=str(sv0.date))
            eph = orb0.ephem(start=start.change_scale(ld), stop=timedelta(minutes=5), step=timedelta(seconds=60))
            try:
                back = io_ccsds.loads(io_ccsds.dumps(eph, fmt=fmt))
                ok = len(back) == len(eph) and all(abs((a.date - b.date).total_seconds()) <= 1.5e-6 for a, b in zip(back, eph))
                obs = str(back.start)
            except Exception as e:  # noqa: BLE001
                ok, obs = False, repr(e)
            out.count(key=("oem", ld, fmt), nontrivial=ld != "UTC", op="ccsds-oem-" + fmt, label=ld)
            if not ok:
                out.fail(f"ccsds-oem:label-dependent", "OEM written from dates in this scale does not read back as the same instants",
                         {"date_label": ld, "fmt": fmt}, observed=obs, expected=str(eph.start))


def bodies(out, rng, cmp, big):
    from beyond.dates import Date, timedelta
    from beyond.env.solarsystem import get_body
    for name in ("Sun", "Moon"):
        body = get_body(name)
        for k in range(4 if big else 2):
            d = Date(2005 + 3 * k, 1 + 2 * k, 9, 3, 4, 5)
            ref = body.propagate(d)
            for ld in SCALES:
                got = lambda: body.propagate(d.change_scale(ld))  # noqa: E731
                # the velocity is a central difference over ±1 day *of the label scale*: a day of UT1 differs from a day of
                # TAI by the daily change of UT1-UTC (~1 ms), i.e. 2e-8 relative — inherent to Date arithmetic, not a label effect
                cmp(f"body-{name}", str(d), ld, "-", got, ref, vtol_scale=3.0e4 if name == "Sun" else 1100.0, vel_rtol=5e-8)


def eop_lookup(out, rng, big):
    """the Earth-orientation record attached to a Date must be that of the instant, whatever the label"""
    from beyond.dates import Date, timedelta
    for k in range(40 if big else 8):
        mjd = rng.randint(50000, 57400)
        for off in (-10.0, 10.0, rng.uniform(-36, -1), rng.uniform(3600, 80000)):
            d = Date(mjd, 0.0) + timedelta(seconds=off)      # UTC
            for ld in SCALES[1:4]:
                e = d.change_scale(ld)
                out.count(key=("eop", mjd, off, ld), op="eop-lookup", label=ld)
                if (e.eop.ut1_utc, e.eop.x, e.eop.y) != (d.eop.ut1_utc, d.eop.x, d.eop.y):
                    out.fail("eop-day-by-label-scale" if label_day_differs(e) else "eop-lookup:label-dependent", "EOP record (UT1-UTC, pole) is chosen by the day number of the label scale: within TAI-UTC (resp. TT-UTC, GPS-UTC) seconds before UTC midnight a relabelled date gets the next day's record",
                             {"utc": str(d), "label": ld}, observed=[e.eop.ut1_utc, e.eop.x, e.eop.y], expected=[d.eop.ut1_utc, d.eop.x, d.eop.y])
