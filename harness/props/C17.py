"""C17 — local orbital frames and maneuvers follow their definitions."""
import ast
import math
import os

from harness import core, py2lean, instantiate
from harness.core import Outcome, f2b, b2f

ID = "C17"
LEAN_TARGETS = ["BeyondVerif.Props.C17", "BeyondVerif.Props.C17Burn", "BeyondVerif.Props.C17Struct", "BeyondVerif.Props.C17Reuse", "BeyondVerif.Props.C17Gauss", "BeyondVerif.Witness.C17"]
THEOREMS = [
    "BeyondVerif.C17.storeRet_history_free",
    "BeyondVerif.C17.plain_history_free",
    "BeyondVerif.C17.kepCont_history_free",
    "BeyondVerif.C17.kepImp_history_free",
    "BeyondVerif.C17.kepCont_shared_eq_new",
    "BeyondVerif.C17.kepContAccel_history_free",
    "BeyondVerif.C17.qsw_axes",
    "BeyondVerif.C17.tnw_axes",
    "BeyondVerif.C17.qsw_proper_rotation",
    "BeyondVerif.C17.tnw_proper_rotation",
    "BeyondVerif.C17.dv_magnitude",
    "BeyondVerif.C17.dv_direction",
    "BeyondVerif.C17.accel_of_dv_magnitude",
    "BeyondVerif.C17.kepManDv_magnitude",
    "BeyondVerif.C17.orbit_frame_origin",
    "BeyondVerif.C17.orbit_frame_origin_same_centre",
    "BeyondVerif.C17.orbit_frame_relative_position",
    "BeyondVerif.C17.origin_displaced_if_linked_to_parent_centre",
    "BeyondVerif.C17.frameToC_same_centre",
    "BeyondVerif.C17.orbit_frame_roundtrip",
    "BeyondVerif.C17.orbit_frame_roundtrip_back",
    "BeyondVerif.C17.reregistration_wins",
    "BeyondVerif.C17.registration_local",
    "BeyondVerif.C17.conversions_leave_no_trace",
    "BeyondVerif.C17.impulse_window_once",
    "BeyondVerif.C17.impulse_applied_within_one_step",
    "BeyondVerif.C17.several_impulses_once",
    "BeyondVerif.C17.impulse_outside_never",
    "BeyondVerif.C17.thrust_window",
    "BeyondVerif.C17.thrust_windows_tile",
    "BeyondVerif.C17.dkep2dv_triangle",
    "BeyondVerif.C17.dkep2dv_zero",
    "BeyondVerif.C17.dkep2dv_first_order_a",
    "BeyondVerif.C17.dkep2dv_dv_a",
    "BeyondVerif.C17.dkep2aol_splits",
    "BeyondVerif.C17.kepContAccel_magnitude",
    "BeyondVerif.C17.into_uses_latest_partial",
    "BeyondVerif.C17W.stale_axes_after_reregistration_under_farther_parent",
    "BeyondVerif.C17W.reregistration_under_same_or_nearer_parent_is_fine",
    "BeyondVerif.C17.tableaux_consistent",
    "BeyondVerif.C17.thrust_time_by_stage_counts",
    "BeyondVerif.C17.whole_steps_thrust_time",
    "BeyondVerif.C17.whole_steps_full_dv",
    "BeyondVerif.C17.whole_steps_full_dv_rk4",
    "BeyondVerif.C17.whole_steps_full_dv_euler",
    "BeyondVerif.C17.first_date_burn_thrust_time",
    "BeyondVerif.C17.first_date_burn_rk4",
    "BeyondVerif.C17.burn_thrust_time_within_one_step",
    "BeyondVerif.C17.burn_within_one_step_rk4",
    "BeyondVerif.C17.burn_within_one_step_euler",
    "BeyondVerif.C17.accel_program",
    "BeyondVerif.C17.accel_thrust_once",
    "BeyondVerif.C17.thrust_independent_of_bodies",
    "BeyondVerif.C17.accepted_spelling_selects_local",
    "BeyondVerif.C17.other_names_select_identity",
    "BeyondVerif.C17.keplerian_continuous_is_tnw",
    "BeyondVerif.C17.orbit2frame_names",
    "BeyondVerif.C17.reference_never_modified",
    "BeyondVerif.C17.repeated_conversions_agree",
    "BeyondVerif.C17.conversion_reads_latest",
    "BeyondVerif.C17.gauss_inclination",
    "BeyondVerif.C17.gauss_node",
    "BeyondVerif.C17.dkep2dv_first_order_i",
    "BeyondVerif.C17.dkep2dv_first_order_Omega",
    "BeyondVerif.C17.dkep2dv_closed_form",
    "BeyondVerif.C17W.short_burn_delivers_nothing",
    "BeyondVerif.C17W.straddling_burn_delivers_too_much",
    "BeyondVerif.C17W.half_step_burn_rk4",
    "BeyondVerif.C17W.whole_step_burn_rk4",
]
LEVEL_TEXT = ("Lean theorems about code translated from the source on every run: to_qsw/to_tnw (local.py) are proper rotations (M M^T = 1, det = 1) with rows "
              "(r^ | v^, w^ x first, w^) for every state with r x v != 0; a QSW/TNW/inertial maneuver vector is projected with exactly its magnitude and "
              "components, every spelling the constructors accept for a local frame selecting that frame's matrix (name tables regenerated from the constructors, "
              "the `in (...)` tests, to_local and orbit2frame); the orbit-attached frame puts its orbit at the origin — whatever body the orbit is around and whatever the parent, with the centre of the new frame linked as "
              "orbit2frame's add_link call says (read from the AST) — and round-trips, no operation of a session writes "
              "to the reference object and repeated conversions read the same; over integer microseconds, for every partition of a span "
              "into positive steps (fixed or adaptive) ImpulsiveMan.check fires in exactly one step, the one containing the date (delay < that step), for each "
              "of several maneuvers independently; ContinuousMan.check is start <= t < stop and the step loop, with the Butcher nodes/weights regenerated and stage dates "
              "rounded as Python rounds them, delivers exactly n*h*accel for a burn of n whole fixed steps from a grid date with one step before it (every tableau with "
              "nodes in [0,1] and weights summing to 1, every n, h, direction), (n - closing weight)*h from the first date, and within one step of the duration for any "
              "burn (Euler, RK4); _accel's loop program, regenerated from the AST, adds the thrust once per evaluation whatever the number of bodies; dkep2dv (man.py) "
              "yields, for every input, the velocity v_final rotated by dangle (law of cosines), realises da to first order (HasDerivAt = 1) and, through to_tnw and the "
              "inclination / node slices of _cartesian_to_keplerian, di and dOmega to first order at the argument of latitude of dkep2aol (Gauss equations as HasDerivAt "
              "at every argument of latitude, finite for r, vt > 0, 0 < i < pi). "
              "a Keplerian maneuver object called on any history of states returns, at each call, the projection on the current state of the level computed from the current state (statement lists of KeplerianContinuousMan.accel / KeplerianImpulsiveMan.dv regenerated, run as a state machine from any stored vector). "
              "Projection, attached frame, registry and step loop are hand-modelled and tied by differential correspondence with the real classes and KeplerNum.")
LEVEL_NOTE = ("proof (partial): 'a continuous burn delivers its full delta-v' is false of the code for burns not aligned with the steps and for rk4 burns starting on the "
              "first date (two open findings, kernel-checked witnesses, exact deficit proved); 'converts to and from its parent frame without loss' is false after a name is "
              "registered again under a farther parent (open finding, witness; into_uses_latest_partial covers registrations under one parent); the burn theorems are for a "
              "constant (inertial) thrust vector, a QSW/TNW burn's direction follows the state (oracle only); first-order realisation of (di, dOmega) is one-sided in the "
              "scale of the request (dv_w = |.| >= 0) and exact only where the speed is all transverse (factor v/vt otherwise, stated); "
              "R -> double gap covered by tolerance-bounded correspondence; Lean kernel + propext/Classical.choice/Quot.sound; py2lean translator and harness trusted")
TECHNIQUE = ("Lean 4 proof (ring/linear_combination identities on 3-vectors, HasDerivAt / HasDerivWithinAt chains through arccos, arctan, sqrt, induction over step lists "
             "and stage lists with omega/nlinarith, decide on regenerated tableaux and name tables, kernel decide witnesses) over formulas, tables and loop structure "
             "regenerated from the Python AST; differential correspondence (incl. operation histories on one object) for the hand-modelled parts")
TRUSTED = [
    "harness/py2lean.py: translate_vec_function (to_qsw, to_tnw -> Generated/Local{F,R}.lean), translate_slice (dkep2dv -> Generated/Dkep{F,R}.lean), "
    "Tr.expr (dkep2aol, ImpulsiveMan.check, ContinuousMan.check -> Generated/ManWindow.lean), TrFn (i, node arguments of _cartesian_to_keplerian -> Generated/KepPlane{F,R}.lean)",
    "harness/props/C17.py extractors, each refusing shapes it does not know: Butcher nodes as exact float ratios and weights over a common denominator from the live "
    "KeplerNum.BUTCHER (-> Generated/ManWindow.lean); the loop nesting of KeplerNum._accel and its attraction term matched verbatim (-> Generated/AccelLoopSrc.lean, "
    "Generated/AccelSrc{F,R}.lean); constructor normalisation, `in (...)` tuples, to_local's if/elif chain, orbit2frame's check, the centre orbit2frame links the new centre under "
    "(first argument of center_obj.add_link), the statement lists of KeplerianContinuousMan.accel / KeplerianImpulsiveMan.dv and the absence of assignments to self in "
    "ImpulsiveMan.dv / ContinuousMan.accel (-> Generated/FrameNames.lean)",
    "lean/templates/Vec3.tpl (numpy cross / norm / matrix-vector products on 3-vectors), lean/templates/Man.tpl (to_local dispatch, projection, attached frame, accelOf, "
    "kepContAccel), lean/BeyondVerif/Model/ManWin.lean (step loop of KeplerNum._iter/_make_step, divRound = datetime._divide_and_round, thrustUnits), "
    "lean/BeyondVerif/Model/AccelLoop.lean (interpreter of the loop program), lean/BeyondVerif/Model/ManObj.lean (meaning of store / return in a method of a maneuver object), lean/BeyondVerif/Model/FrameName.lean (reading of the name tables), "
    "lean/BeyondVerif/Model/FrameReg.lean (a frame name means its latest registration, except that a conversion into it reaches the nearest node of that name; "
    "conversions leave no trace; the store of reference objects): hand-written, tied by the correspondence run",
    "lean/BeyondVerif/Lemmas/Gauss.lean: the parametrisation of a state by (r, vr, vt, i, Omega, u) (the formulas of _keplerian_to_cartesian's position, hand-written)",
    "numpy / libm double arithmetic vs R: tolerance 1e-9 relative (1e-12 for rotation entries; dv_t of dkep2dv up to 64 ulp of the speed)",
    "Date comparisons are exact at millisecond granularity (Date compares float MJD, resolution ~0.6 us: property C03)",
]
ASSUMPTIONS = [
    "theorems are over R (frames, dkep2dv, Gauss) and over Z microseconds (windows, quadrature); the implementation computes in IEEE doubles and compares dates as float MJD",
    "np.linalg.inv(expand(M^T)) in Orientation.convert_to is modelled as expand(M) (justified by qsw/tnw_proper_rotation, tied by correspondence)",
    "steps of a propagation are positive (forward propagation); KeplerNum does not apply impulses on backward steps (check is never true for step < 0)",
    "impulses falling in the same step are applied one after the other in list order, each in the local axes of the state it finds (oracle mirrors this)",
    "the burn theorems are for equal steps (fixed-step methods, or an embedded pair whose tolerance is never exceeded) and a thrust vector constant in the frame of the "
    "propagation (frame=None); stage dates are `step * c` rounded to the microsecond as timedelta.__mul__(float) rounds (tied exactly by correspondence)",
    "first-order realisation of (di, dOmega) is stated at the argument of latitude given by dkep2aol, one-sidedly in the scale s >= 0 of the request, with the factor v/vt "
    "(1 at an apsis / on a circular orbit, flight-path angle 0, as the docstring prescribes); 0 < i < pi",
    "frame names are ASCII (str.upper = Char.toUpper per character; 'ſ'.upper() == 'S' in Python is outside the model)",
    "a bare StateVector given as reference is used at its own date unless it is expressed in EME2000 and the parent is EME2000 (the library converts it at its own date and "
    "uses the result at the date of the call: frames / property C02); sessions of the registry model start from registries emptied by the harness (forget_frames)",
]
NOT_COVERED = [
    "delivered delta-v of a QSW/TNW continuous burn (thrust direction following the state from stage to stage) and of any burn under the adaptive step control: oracle only "
    "(gravity-free propagations, bound of one step's worth)",
    "the second-order remainder of the realised (da, di, dOmega): oracle only (error within 20 x second order on 1e-7..0.3 rad)",
    "states interpolated by Ephem (orb.propagate(date), iter with a step other than the propagator's) within 4 steps of an impulse are Lagrange-interpolated "
    "across the velocity jump (measured: 67 % error of the jump one half step after it, 0.5 m/s of a 1 m/s impulse visible one half step before its date); "
    "the theorems and the oracle speak about the integration grid (real steps) only; interpolation is property C09",
    "an Orbit without propagator given as reference of orbit2frame raises UnknownPropagatorError at the first conversion (hasattr(offset, 'propagate') is true): not in the "
    "statement; a rotating parent (ITRF) gives other QSW/TNW axes (velocity relative to the rotating frame): the docstring asks for an inertial parent",
    "frames attached to orbits around other bodies: positions of the centres relative to one another are taken from the library (solarsystem / JPL propagators, "
    "property C18); with a local orientation and the default parent the QSW/TNW axes are those of the orbit as seen from the Earth (sv.copy(frame=parent)), as the code has it",
    "frame names the code does not know as local (RSW, LVLH, RTN, any typo) are silently taken as 'the axes of the orbit's frame' by ImpulsiveMan / ContinuousMan "
    "(other_names_select_identity states it; the property statement speaks of QSW/TNW/inertial only; CCSDS files: property C13)",
]
OPEN = [
    "C17-continuous-burn-step-sampling, C17-burn-from-first-date, C17-reregistered-under-other-parent (open findings with proposed fixes)",
    "variable steps: for a burn whose start and stop fall on an adaptive grid the delivered thrust time is duration + B1 * (step before the burn - last step of the burn) "
    "(B1 = weight of the stages dated at the end of a step): derived on paper, not stated in Lean",
]
RULE = ("correspondence: to_local on random elliptic/hyperbolic/retrograde states (radii 1 m .. 3.8e8 m) and an unknown tag; ImpulsiveMan.dv / ContinuousMan.accel "
        "(accel= and dv=, every date_pos) for tags QSW/TNW/lowercase/None/other, each maneuver object evaluated on a first state, a second one and the first again; "
        "KeplerianImpulsiveMan.dv, KeplerianContinuousMan.accel (durations with fractional seconds and above a day), dkep2dv, dkep2aol on increments 1e-3 m..2e6 m; ONE Keplerian "
        "maneuver object (continuous / impulsive) called on 2-5 different orbits in turn, first one revisited, vs the state machine of its regenerated statement list (c17.kseq); "
        "1e-7..0.3 rad; orbit2frame sessions (names registered — under the default and under other parents —, used at recurring dates, re-registered from another orbit / "
        "orientation / parent, used again: binding from the registry model, values from frameTo/frameFrom); world sessions over Orbit / Ephem / StateVector references in "
        "EME2000, MOD, TOD, TEME, ITRF, cartesian or keplerian, registered by orbit2frame or as_frame (what each conversion reads, the reference object compared bit for "
        "bit after every operation); ImpulsiveMan.check on real Dates over random step lists (ms granularity; on/off grid, outside the span, zero/negative "
        "steps); impulses applied per step by the real KeplerNum loop (instrumented dv, 4 methods, up to 4 maneuvers); ContinuousMan.check at the stage dates of the "
        "4 Butcher tableaux; `step * c` for every node on random steps (1 us .. 1000 s, odd, tiny); delivered delta-v of gravity-free propagations with all four tableaux "
        "(burns of whole steps incl. from the first date, at stage dates +-1 ms, anywhere) vs the quadrature model; KeplerNum._accel with 0..4 attracting bodies (Earth, Moon, "
        "Sun, fixed fake bodies, repeated) and 0..3 maneuvers (on, off, impulsive); 29+ frame names through ImpulsiveMan, ContinuousMan, to_local, orbit2frame; inclination / "
        "node slices vs the keplerian form; frames attached (orbit2frame / as_frame, orientation None / QSW / TNW, default / EME2000 / MOD / the body's own frame as parent) "
        "to orbits around the Moon and the Sun (solarsystem frames), companion given in the orbit's frame, EME2000 or the parent, vs the model with centres — all against the compiled Lean model; non-trivial = non-zero vector / increment; distinct = distinct request. "
        "oracle: theorem statements on the real API incl. per-step velocity jumps of KeplerNum vs a maneuver-free step from the same state, delivered delta-v of "
        "continuous burns in a gravity-free KeplerNum (incl. from the first date), thrust part of _accel vs number of bodies, every case variant of QSW/TNW vs the upper-case "
        "spelling (bitwise), maneuver objects re-used on another state vs fresh ones, arguments in keplerian/spherical form left untouched, date_pos placing start/median/stop, "
        "references of three classes in five frames unchanged after conversions and repeated conversions bitwise equal, re-registration under other parents, origin (zero position and velocity) and companion's relative position (difference of the two states in the parent "
        "frame, rotated by the axes of the definition) for reference orbits around the Moon, the Sun (solarsystem) and Mars, Venus, Moon, Sun of the JPL kernel of "
        "tests/data/jpl (in a process of its own), "
        "|KeplerianContinuousMan.accel| x duration = |dkep2dv|, realised da/di/dOmega vs requested to first order; every maneuver class / constructor form: one object "
        "evaluated on several states = a new object per state (bitwise), one plan shared by two satellites (same list, Orbit.copy() + state update) propagated by KeplerNum = "
        "plans of new objects, da realised by each propagated da-only Keplerian maneuver (rk4 whole-step burns, impulses)")

LOCAL_PY = os.path.join(core.REPO, "beyond", "frames", "local.py")
MAN_PY = os.path.join(core.REPO, "beyond", "orbits", "man.py")
KN_PY = os.path.join(core.REPO, "beyond", "propagators", "keplernum.py")
FRAMES_PY = os.path.join(core.REPO, "beyond", "frames", "frames.py")
ORIENT_PY = os.path.join(core.REPO, "beyond", "frames", "orient.py")
FORMS_PY = os.path.join(core.REPO, "beyond", "orbits", "forms.py")
MU = 3.986004418e14


# ---------------------------------------------------------------- extraction from the source

DKEP_INPUTS = ["μ", "a", "i", "v", "da", "di", "dOmega"]   # `µ` is NFKC-normalised to the Greek letter by Python's parser
DKEP_OUTPUTS = [("dv_a", "dkepDvA"), ("dangle", "dkepDangle"), ("v_final", "dkepVFinal"), ("dv_t", "dkepDvT"), ("dv_w", "dkepDvW")]


def _ret_of(tree, qualname):
    fn = py2lean.find_function(tree, qualname)
    rets = [s for s in fn.body if isinstance(s, ast.Return)]
    if len(rets) != 1:
        raise py2lean.Untranslatable(f"{qualname}: expected a single top-level return")
    return fn, rets[0].value


def _n(node):
    """source text of a node, blanks removed, identifiers NFKC-normalised as Python's parser does"""
    import unicodedata
    return unicodedata.normalize("NFKC", ast.unparse(node)).replace(" ", "")


def _body_nodoc(fn):
    b = list(fn.body)
    if b and isinstance(b[0], ast.Expr) and isinstance(b[0].value, ast.Constant) and isinstance(b[0].value.value, str):
        b = b[1:]
    return b


def _lstr(x):
    """a name as the Lean list of its characters"""
    if not x.isascii() or not x.isprintable() or "'" in x or "\\" in x:
        raise py2lean.Untranslatable(f"frame name {x!r} is not plain ASCII")
    return "[" + ", ".join(f"'{c}'" for c in x) + "]"


# ---- (a) Butcher tableaux: nodes as the exact ratios of the floats (so that `step * c` rounds as in Python), weights as
#          integers over their common denominator
def extract_butcher():
    from fractions import Fraction
    from math import lcm
    from beyond.propagators.keplernum import KeplerNum
    lines = []
    for meth in ("euler", "rk4", "rkf54", "dopri54"):
        tb = KeplerNum.BUTCHER[meth]
        cc = [float(c) for c in tb["c"]]
        bb = [float(b) for b in tb["b"]]
        if len(cc) != len(bb):
            raise RuntimeError(f"Butcher tableau {meth}: {len(cc)} nodes for {len(bb)} weights")
        ratios = [c.as_integer_ratio() for c in cc]
        lines.append(f"def butcherC_{meth} : List (Int × Int) := [" + ", ".join(f"({a}, {b})" for a, b in ratios) + "]")
        fb = [Fraction(b).limit_denominator(1000000) for b in bb]
        if any(abs(float(f) - b) > 1e-15 for f, b in zip(fb, bb)):
            raise RuntimeError("Butcher weights are not small fractions")
        den = lcm(*[f.denominator for f in fb])
        lines.append(f"def butcherW_{meth} : List Int := [" + ", ".join(str(int(f * den)) for f in fb) + "]")
        lines.append(f"def butcherD_{meth} : Int := {den}")
    return "\n".join(lines)


# ---- (b) loop structure of KeplerNum._accel
GRAV_STMTS = ["orb_body=body.propagate(orb.date)", "orb_body.frame=orb.frame", "diff=orb_body[:3]-orb[:3]", "norm=linalg.norm(diff)**3",
              "new_body[3:]+=body.μ*diff/norm"]
THRUST_TEST = "isinstance(man,ContinuousMan)andman.check(orb.date)"
THRUST_ADD = "new_body[3:]+=man.accel(orb)"


def _accel_block(stmts, in_body, in_man, depth):
    """items of one loop body: ('grav',) | ('thrust',) | ('bodies', [...]) | ('mans', [...]); refuses anything else"""
    items = []
    k = 0
    while k < len(stmts):
        st = stmts[k]
        if _n(st) == GRAV_STMTS[0]:
            got = [_n(x) for x in stmts[k:k + len(GRAV_STMTS)]]
            if got != GRAV_STMTS:
                raise py2lean.Untranslatable(f"_accel: the attraction of a body is no longer computed by {GRAV_STMTS}: {got}")
            if not in_body:
                raise py2lean.Untranslatable("_accel: attraction computed outside `for body in self.bodies`")
            items.append(("grav",))
            k += len(GRAV_STMTS)
            continue
        if isinstance(st, ast.If):
            if _n(st.test) != THRUST_TEST or st.orelse or [_n(x) for x in st.body] != [THRUST_ADD]:
                raise py2lean.Untranslatable("_accel: unknown conditional " + _n(st)[:120])
            if not in_man:
                raise py2lean.Untranslatable("_accel: thrust added outside `for man in self.orbit.maneuvers`")
            items.append(("thrust",))
            k += 1
            continue
        if isinstance(st, ast.For):
            if depth >= 2:
                raise py2lean.Untranslatable("_accel: loops nested more than two deep")
            items.append(_accel_loop(st, in_body, in_man, depth))
            k += 1
            continue
        raise py2lean.Untranslatable(f"_accel: unknown statement at line {st.lineno}: " + _n(st)[:120])
    return items


def _accel_loop(st, in_body, in_man, depth):
    if st.orelse:
        raise py2lean.Untranslatable("_accel: for/else")
    head = (_n(st.target), _n(st.iter))
    if head == ("body", "self.bodies"):
        return ("bodies", _accel_block(st.body, True, in_man, depth + 1))
    if head == ("man", "self.orbit.maneuvers"):
        return ("mans", _accel_block(st.body, in_body, True, depth + 1))
    raise py2lean.Untranslatable(f"_accel: unknown loop `for {head[0]} in {head[1]}`")


def extract_accel_loop(tree):
    fn = py2lean.find_function(tree, "KeplerNum._accel")
    if [a.arg for a in fn.args.args] != ["self", "orb"]:
        raise py2lean.Untranslatable("_accel signature changed")
    body = _body_nodoc(fn)
    if [_n(x) for x in body[:2]] != ["new_body=zeros(6)", "new_body[:3]=orb[3:]"] or _n(body[-1]) != "returnnew_body":
        raise py2lean.Untranslatable("_accel: initialisation / return changed: " + str([_n(x) for x in body[:2]] + [_n(body[-1])]))
    tops = []
    for st in body[2:-1]:
        if not isinstance(st, ast.For):
            raise py2lean.Untranslatable(f"_accel: top-level statement that is not a loop at line {st.lineno}: " + _n(st)[:120])
        tops.append(_accel_loop(st, False, False, 0))

    def leaf(it):
        return "Leaf.grav" if it[0] == "grav" else "Leaf.thrust"

    def inner(it):
        if it[0] in ("grav", "thrust"):
            return f"Inner.leaf {leaf(it)}"
        if any(x[0] not in ("grav", "thrust") for x in it[1]):
            raise py2lean.Untranslatable("_accel: loops nested more than two deep")
        return ("Inner.overBodies [" if it[0] == "bodies" else "Inner.overMans [") + ", ".join(leaf(x) for x in it[1]) + "]"

    def top(it):
        return ("Top.overBodies [" if it[0] == "bodies" else "Top.overMans [") + ", ".join(inner(x) for x in it[1]) + "]"
    prog = "[" + ", ".join(top(t) for t in tops) + "]"
    text = ("/- GENERATED by harness/props/C17.py from beyond/propagators/keplernum.py (`KeplerNum._accel`: which loop contains which\n"
            "   accumulation, nesting as given by the indentation) — do not edit. -/\n"
            "import BeyondVerif.Model.AccelLoop\nnamespace BeyondVerif.Generated.AccelLoopSrc\nopen BeyondVerif.AccelLoop\n\n"
            "/-- the statements of `_accel` after `new_body = zeros(6); new_body[:3] = orb[3:]` and before `return new_body` -/\n"
            f"def accelProg : List Top := {prog}\n\nend BeyondVerif.Generated.AccelLoopSrc\n")
    grav = ("/-- `diff = orb_body[:3] - orb[:3]; norm = linalg.norm(diff) ** 3; body.µ * diff / norm` (statements matched verbatim) -/\n"
            "def gravTerm (mu : R) (bodyPos pos : V3) : V3 :=\n"
            "  let diff : V3 := V3.sub bodyPos pos\n"
            "  let norm : R := powi (V3.norm diff) 3\n"
            "  V3.divS (V3.smul mu diff) norm\n")
    return text, grav


# ---- (c) frame names: constructors, projections, to_local, orbit2frame
def _ctor_upper(tree, cls):
    fn = py2lean.find_function(tree, cls + ".__init__")
    upper, assigned = False, False
    for st in fn.body:
        txt = _n(st)
        if isinstance(st, ast.If) and _n(st.test) == "isinstance(frame,str)":
            if [_n(x) for x in st.body] != ["frame=frame.upper()"] or st.orelse or assigned:
                raise py2lean.Untranslatable(f"{cls}.__init__: unknown normalisation of `frame`: {txt}")
            upper = True
            continue
        if txt == "self.frame=frame":
            assigned = True
            continue
        for node in ast.walk(st):
            if (isinstance(node, ast.Name) and node.id == "frame" and isinstance(node.ctx, ast.Store)) or \
               (isinstance(node, ast.Attribute) and node.attr == "frame" and isinstance(node.ctx, ast.Store)):
                raise py2lean.Untranslatable(f"{cls}.__init__: `frame` is assigned in an unknown way: {txt[:100]}")
    if not assigned:
        raise py2lean.Untranslatable(f"{cls}.__init__ no longer stores self.frame = frame")
    return upper


def _proj_tags(tree, qual, vec):
    fn = py2lean.find_function(tree, qual)
    body = [s for s in _body_nodoc(fn) if not (isinstance(s, ast.Expr) and _n(s).startswith("log.debug("))]
    if len(body) != 4 or not isinstance(body[1], ast.If):
        raise py2lean.Untranslatable(f"{qual}: unknown shape")
    iff = body[1]
    t = iff.test
    ok = (_n(body[0]) == "orb=orb.copy(form='cartesian')" and isinstance(t, ast.Compare) and _n(t.left) == "self.frame" and len(t.ops) == 1
          and isinstance(t.ops[0], ast.In) and isinstance(t.comparators[0], (ast.Tuple, ast.List))
          and all(isinstance(e, ast.Constant) and isinstance(e.value, str) for e in t.comparators[0].elts)
          and [_n(x) for x in iff.body] == ["mat=to_local(self.frame,orb,expanded=False).T"] and [_n(x) for x in iff.orelse] == ["mat=np.identity(3)"]
          and _n(body[2]) == f"projected_{vec}=mat@self._{vec}" and _n(body[3]) == f"returnprojected_{vec}")
    if not ok:
        raise py2lean.Untranslatable(f"{qual}: the projection is no longer `to_local(self.frame, orb).T if self.frame in (...) else identity`: " + _n(fn)[:300])
    return [e.value for e in t.comparators[0].elts]


def _to_local_table(tree):
    fn = py2lean.find_function(tree, "to_local")
    if [a.arg for a in fn.args.args] != ["frame", "orbit", "expanded"]:
        raise py2lean.Untranslatable("to_local signature changed")
    body = _body_nodoc(fn)
    if len(body) != 3 or not isinstance(body[0], ast.If) or _n(body[1]).replace("\n", "") != "ifexpanded:m=expand(m)" or _n(body[2]) != "returnm":
        raise py2lean.Untranslatable("to_local: unknown shape " + str([_n(x)[:60] for x in body]))
    table = []
    node = body[0]
    while True:
        t = node.test
        if not (isinstance(t, ast.Compare) and len(t.ops) == 1 and isinstance(t.ops[0], ast.Eq) and isinstance(t.comparators[0], ast.Constant)
                and isinstance(t.comparators[0].value, str) and _n(t.left) in ("frame.upper()", "frame")):
            raise py2lean.Untranslatable("to_local: unknown test " + _n(t))
        if len(node.body) != 1 or _n(node.body[0]) not in ("m=to_qsw(orbit)", "m=to_tnw(orbit)"):
            raise py2lean.Untranslatable("to_local: unknown branch " + _n(node)[:100])
        table.append((t.comparators[0].value, _n(t.left) == "frame.upper()", 0 if "to_qsw" in _n(node.body[0]) else 1))
        if len(node.orelse) == 1 and isinstance(node.orelse[0], ast.If):
            node = node.orelse[0]
            continue
        if len(node.orelse) == 1 and isinstance(node.orelse[0], ast.Raise) and _n(node.orelse[0]).startswith("raiseValueError("):
            break
        raise py2lean.Untranslatable("to_local: the chain does not end in `raise ValueError`")
    return table


def _orbit2frame_tags(tree_frames, tree_orient):
    fn = py2lean.find_function(tree_frames, "orbit2frame")
    iff = [s for s in fn.body if isinstance(s, ast.If) and _n(s.test) == "orientationisNone"]
    if len(iff) != 1 or [_n(x) for x in iff[0].body] != ["orientation=ref_orbit.frame.orientation"] or len(iff[0].orelse) != 2:
        raise py2lean.Untranslatable("orbit2frame: unknown handling of `orientation`")
    chk, mk = iff[0].orelse
    t = chk.test if isinstance(chk, ast.If) else None
    if not (t is not None and isinstance(t, ast.Compare) and len(t.ops) == 1 and isinstance(t.ops[0], ast.NotIn) and _n(t.left) in ("orientation.upper()", "orientation")
            and isinstance(t.comparators[0], (ast.Tuple, ast.List)) and all(isinstance(e, ast.Constant) and isinstance(e.value, str) for e in t.comparators[0].elts)
            and len(chk.body) == 1 and isinstance(chk.body[0], ast.Raise) and _n(chk.body[0]).startswith("raiseValueError(") and not chk.orelse
            and _n(mk) == "orientation=orient.LocalOrbitalOrientation(name,ref_orbit,orientation,parent)"):
        raise py2lean.Untranslatable("orbit2frame: unknown check of the orientation name: " + _n(iff[0])[:300])
    ini = py2lean.find_function(tree_orient, "LocalOrbitalOrientation.__init__")
    tp = py2lean.find_function(tree_orient, "LocalOrbitalOrientation._to_parent")
    if "self.orient=orient" not in [_n(x) for x in ini.body] or _n(tp.body[-1]).replace("(", "").replace(")", "") != "returnlocal.to_localself.orient,sv,expanded=False.T,None":
        raise py2lean.Untranslatable("LocalOrbitalOrientation no longer hands its `orient` to to_local: " + _n(tp.body[-1]))
    return [e.value for e in t.comparators[0].elts], _n(t.left) == "orientation.upper()"


def _orbit2frame_centre_link(tree_frames):
    """which centre the Center of the new frame is linked under: the first argument of `center_obj.add_link(...)`"""
    fn = py2lean.find_function(tree_frames, "orbit2frame")
    tail = [_n(x) for x in fn.body if not isinstance(x, ast.If) and not (isinstance(x, ast.Expr) and isinstance(x.value, ast.Constant))]
    if len(tail) != 4 or tail[0] != "center_obj=center.Center(name,body=parent.center.body)" or tail[2] != "center_obj.offset_frame=ref_orbit.frame" \
            or tail[3] != "returnFrame(name,orientation,center_obj,exists_warning)":
        raise py2lean.Untranslatable("orbit2frame: the creation of the centre changed: " + str(tail))
    call = [x for x in fn.body if isinstance(x, ast.Expr) and isinstance(x.value, ast.Call) and _n(x.value.func) == "center_obj.add_link"]
    if len(call) != 1 or call[0].value.keywords or len(call[0].value.args) != 3:
        raise py2lean.Untranslatable("orbit2frame: center_obj.add_link(...) not found / changed")
    a0, a1, a2 = [_n(a) for a in call[0].value.args]
    if (a1, a2) != ("ref_orbit.frame.orientation", "ref_orbit") or a0 not in ("ref_orbit.frame.center", "parent.center"):
        raise py2lean.Untranslatable(f"orbit2frame: unknown link of the centre: add_link({a0}, {a1}, {a2})")
    return "CentreLink.refFrameCentre" if a0 == "ref_orbit.frame.center" else "CentreLink.parentCentre"


def extract_frame_names(tree_man, tree_local, tree_frames, tree_orient):
    imp_up, cont_up = _ctor_upper(tree_man, "ImpulsiveMan"), _ctor_upper(tree_man, "ContinuousMan")
    imp_tags, cont_tags = _proj_tags(tree_man, "ImpulsiveMan.dv", "dv"), _proj_tags(tree_man, "ContinuousMan.accel", "accel")
    table = _to_local_table(tree_local)
    o2f_tags, o2f_up = _orbit2frame_tags(tree_frames, tree_orient)
    link = _orbit2frame_centre_link(tree_frames)
    kc = py2lean.find_function(tree_man, "KeplerianContinuousMan.__init__")
    first = kc.body[0]
    if not (isinstance(first, ast.Assign) and _n(first.targets[0]) == "kwargs['frame']" and isinstance(first.value, ast.Constant) and isinstance(first.value.value, str)
            and _n(kc.body[-1]) == "super().__init__(date,duration,accel=np.zeros(3),**kwargs)"):
        raise py2lean.Untranslatable("KeplerianContinuousMan.__init__ no longer forces its frame: " + _n(kc)[:200])
    kd = py2lean.find_function(tree_man, "KeplerianImpulsiveMan.dv")
    if _n(kd.body[-1]) != "returnto_tnw(orb).T@self._dv":
        raise py2lean.Untranslatable("KeplerianImpulsiveMan.dv no longer returns to_tnw(orb).T @ self._dv")
    # the statement lists of the two Keplerian methods (what is written to the object, when, and what is returned)
    level = "dkep2dv(orb,da=self.da,di=self.di,dOmega=self.dOmega)"
    progs = {}
    for qual, stores, ret in (("KeplerianContinuousMan.accel", {"self._accel=" + level + "/self.duration.total_seconds()"}, "returnsuper().accel(orb)"),
                              ("KeplerianImpulsiveMan.dv", {"self._dv=" + level}, "returnto_tnw(orb).T@self._dv")):
        stmts = []
        for st in _body_nodoc(py2lean.find_function(tree_man, qual)):
            t = _n(st)
            if t in stores:
                stmts.append("CallStmt.store")
            elif t == ret:
                stmts.append("CallStmt.ret")
            else:
                raise py2lean.Untranslatable(f"{qual}: statement at line {st.lineno} is neither the unconditional assignment of the level computed from the state "
                                             f"of the call nor the return of its projection: {t[:160]}")
        progs[qual] = "[" + ", ".join(stmts) + "]"
    for cls, meth in (("ImpulsiveMan", "dv"), ("ContinuousMan", "accel")):
        for node in ast.walk(py2lean.find_function(tree_man, f"{cls}.{meth}")):
            if isinstance(node, (ast.Assign, ast.AugAssign, ast.AnnAssign)):
                for tg in (node.targets if isinstance(node, ast.Assign) else [node.target]):
                    if _n(tg).startswith("self"):
                        raise py2lean.Untranslatable(f"{cls}.{meth} writes to the maneuver object: {_n(node)[:160]}")
    b = lambda x: "true" if x else "false"   # noqa: E731
    sl = lambda xs: "[" + ", ".join(_lstr(x) for x in xs) + "]"   # noqa: E731
    return ("/- GENERATED by harness/props/C17.py from beyond/orbits/man.py, beyond/frames/local.py, beyond/frames/frames.py — do not edit. -/\n"
            "namespace BeyondVerif.Generated.FrameNames\n\n"
            "/-- `ImpulsiveMan.__init__` contains `if isinstance(frame, str): frame = frame.upper()` before `self.frame = frame` -/\n"
            f"def impCtorUpper : Bool := {b(imp_up)}\n"
            "/-- the same for `ContinuousMan.__init__` -/\n"
            f"def contCtorUpper : Bool := {b(cont_up)}\n"
            "/-- `ImpulsiveMan.dv`: `if self.frame in (...)` -/\n"
            f"def impDvTags : List (List Char) := {sl(imp_tags)}\n"
            "/-- `ContinuousMan.accel`: `if self.frame in (...)` -/\n"
            f"def contAccelTags : List (List Char) := {sl(cont_tags)}\n"
            "/-- `to_local`: the `if/elif` chain, `(constant, compared with frame.upper()?, 0 = to_qsw | 1 = to_tnw)`; else `raise ValueError` -/\n"
            "def toLocalTable : List (List Char × Bool × Nat) := [" + ", ".join(f"({_lstr(k)}, {b(u)}, {f})" for k, u, f in table) + "]\n"
            "/-- `orbit2frame`: `if orientation.upper() not in (...): raise ValueError` -/\n"
            f"def orbit2frameTags : List (List Char) := {sl(o2f_tags)}\n"
            f"def orbit2frameUpper : Bool := {b(o2f_up)}\n"
            "/-- `KeplerianContinuousMan.__init__`: `kwargs[\"frame\"] = …` -/\n"
            f"def kepContForcedFrame : List Char := {_lstr(first.value.value)}\n\n"
            "/-- a statement of a method evaluating a Keplerian maneuver on a state -/\n"
            "inductive CallStmt where\n  /-- `self._accel = dkep2dv(orb, …) / duration` resp. `self._dv = dkep2dv(orb, …)`, unconditional -/\n  | store\n"
            "  /-- `return` of the projection of the stored vector on the state of the call -/\n  | ret\n  deriving DecidableEq, Repr\n\n"
            "/-- `KeplerianContinuousMan.accel`, statement by statement -/\n"
            f"def kepContAccelProg : List CallStmt := {progs['KeplerianContinuousMan.accel']}\n"
            "/-- `KeplerianImpulsiveMan.dv`, statement by statement (`ImpulsiveMan.dv` / `ContinuousMan.accel` contain no assignment to `self`) -/\n"
            f"def kepImpDvProg : List CallStmt := {progs['KeplerianImpulsiveMan.dv']}\n\n"
            "/-- a centre the `Center` of a frame made by `orbit2frame` can be linked under -/\n"
            "inductive CentreLink where\n  /-- the centre of the frame the reference orbit is expressed in (`ref_orbit.frame.center`) -/\n  | refFrameCentre\n"
            "  /-- the centre of the `parent` argument (`parent.center`) -/\n  | parentCentre\n  deriving DecidableEq, Repr\n\n"
            "/-- `orbit2frame`: first argument of `center_obj.add_link(<centre>, ref_orbit.frame.orientation, ref_orbit)` -/\n"
            f"def centreLinkedTo : CentreLink := {link}\n\n"
            "end BeyondVerif.Generated.FrameNames\n")


# ---- (d) inclination and node direction as Form._cartesian_to_keplerian computes them
def extract_kep_plane(tree):
    fn = py2lean.find_function(tree, "Form._cartesian_to_keplerian")
    keep = {"r", "v", "h", "h_norm"}
    pre, i_val, om_val = [], None, None
    for st in fn.body:
        if not isinstance(st, ast.Assign) or len(st.targets) != 1:
            continue
        names = {x.id for x in ast.walk(st.targets[0]) if isinstance(x, ast.Name)}
        if names and names <= keep:
            pre.append(st)
        elif names == {"i"}:
            i_val = st.value
        elif names == {"Ω"} or names == {"Ω"}:
            om_val = st.value
    if i_val is None or om_val is None:
        raise py2lean.Untranslatable("_cartesian_to_keplerian: i / Ω not found")
    if not (isinstance(om_val, ast.BinOp) and isinstance(om_val.op, ast.Mod) and isinstance(om_val.left, ast.Call) and _n(om_val.left.func) in ("arctan2", "np.arctan2")
            and _n(om_val.right) == "2*np.pi" and len(om_val.left.args) == 2):
        raise py2lean.Untranslatable("_cartesian_to_keplerian: Ω is no longer arctan2(A, B) % (2π): " + _n(om_val))
    cargs = [f"c{k}" for k in range(6)]
    out = []
    for lean_name, val, doc in (("kepInc", i_val, "`i`"), ("kepNodeY", om_val.left.args[0], "first argument of the `arctan2` giving `Ω`"),
                                ("kepNodeX", om_val.left.args[1], "second argument of the `arctan2` giving `Ω`")):
        tr = py2lean.TrFn()
        tr.vecs["coord"] = list(cargs)
        body = tr.stmts(pre + [ast.Return(value=val)])
        out.append(f"/-- {doc} of `Form._cartesian_to_keplerian` (beyond/orbits/forms.py line {fn.lineno}) -/\ndef {lean_name} ({' '.join(cargs)} : R) : R :=\n{py2lean.indent(body)}\n")
    return "\n".join(out)


def extract(ctx):
    ch = []
    # 1. to_qsw / to_tnw (vector code) -> Generated/Local{F,R}.lean
    body = py2lean.translate_vec_function(LOCAL_PY, "to_qsw", "toQsw") + "\n" + py2lean.translate_vec_function(LOCAL_PY, "to_tnw", "toTnw")
    ch += py2lean.instantiate(core.LEAN, "Local", body, "beyond/frames/local.py", extra_imports=["Model.Vec3"])
    # 2. dkep2dv / dkep2aol (scalar code) -> Generated/Dkep{F,R}.lean
    tree = ast.parse(open(MAN_PY).read())
    fn, ret = _ret_of(tree, "dkep2dv")
    if ast.unparse(ret).replace(" ", "") != "np.array([dv_t,0,dv_w])":
        raise py2lean.Untranslatable("dkep2dv no longer returns np.array([dv_t, 0, dv_w]): " + ast.unparse(ret))
    first = fn.body[1] if isinstance(fn.body[0], ast.Expr) else fn.body[0]
    want = "μ,a,i,v=(orb.frame.center.body.mu,orb.infos.kep.a,orb.infos.kep.i,orb.infos.v)"
    if ast.unparse(first).replace(" ", "") != want:
        raise py2lean.Untranslatable("dkep2dv: inputs are no longer (mu, kep.a, kep.i, infos.v): " + ast.unparse(first))
    parts = []
    for py, lean in DKEP_OUTPUTS:
        parts.append(py2lean.translate_slice(MAN_PY, "dkep2dv", DKEP_INPUTS, [py], lean, consts={"orb.infos.v": "v"}))
    _, ret = _ret_of(tree, "dkep2aol")
    tr = py2lean.Tr(consts={"orb.infos.kep.i": "i"})
    parts.append(f"def dkep2aol (i di dOmega : R) : R :=\n  {tr.expr(ret)}\n")
    ch += py2lean.instantiate(core.LEAN, "Dkep", "\n".join(parts), "beyond/orbits/man.py")
    # 3. the two `check` windows, over integer microseconds -> Generated/ManWindow.lean (no Mathlib)
    _, r1 = _ret_of(tree, "ImpulsiveMan.check")
    _, r2 = _ret_of(tree, "ContinuousMan.check")
    t1 = py2lean.Tr(consts={"self.date": "manDate"}).expr(r1)
    t2 = py2lean.Tr(consts={"self.start": "start", "self.stop": "stop"}).expr(r2)
    a1 = [a.arg for a in py2lean.find_function(tree, "ImpulsiveMan.check").args.args]
    a2 = [a.arg for a in py2lean.find_function(tree, "ContinuousMan.check").args.args]
    if a1 != ["self", "date", "step"] or a2 != ["self", "date"]:
        raise py2lean.Untranslatable(f"check signatures changed: {a1} {a2}")
    butcher = extract_butcher()
    win = ("/- GENERATED by harness/props/C17.py from beyond/orbits/man.py (ImpulsiveMan.check, ContinuousMan.check) and\n"
           "   beyond/propagators/keplernum.py (Butcher nodes) — do not edit. Dates and steps are integer microseconds. -/\n"
           "namespace BeyondVerif.Generated\n\n"
           "/-- `ImpulsiveMan.check(date, step)` -/\n"
           f"def impCheck (manDate date step : Int) : Prop :=\n  {t1}\n\n"
           "instance (manDate date step : Int) : Decidable (impCheck manDate date step) := by unfold impCheck; exact inferInstance\n\n"
           "/-- `ContinuousMan.check(date)` -/\n"
           f"def contCheck (start stop date : Int) : Prop :=\n  {t2}\n\n"
           "instance (start stop date : Int) : Decidable (contCheck start stop date) := by unfold contCheck; exact inferInstance\n\n"
           "/-- `KeplerNum.BUTCHER`: nodes `c` as the exact ratios (numerator, denominator) of the floats, weights `b = W / D` -/\n" + butcher + "\n\nend BeyondVerif.Generated\n")
    if core.write_if_changed(os.path.join(core.LEAN, "BeyondVerif", "Generated", "ManWindow.lean"), win):
        ch.append("Generated/ManWindow.lean")
    # 4. loop structure of KeplerNum._accel -> Generated/AccelLoopSrc.lean (program) and Generated/AccelSrc{F,R}.lean (attraction term)
    prog, grav = extract_accel_loop(ast.parse(open(KN_PY).read()))
    if core.write_if_changed(os.path.join(core.LEAN, "BeyondVerif", "Generated", "AccelLoopSrc.lean"), prog):
        ch.append("Generated/AccelLoopSrc.lean")
    ch += py2lean.instantiate(core.LEAN, "AccelSrc", grav, "beyond/propagators/keplernum.py", extra_imports=["Model.Vec3"])
    # 5. frame names -> Generated/FrameNames.lean
    names = extract_frame_names(tree, ast.parse(open(LOCAL_PY).read()), ast.parse(open(FRAMES_PY).read()), ast.parse(open(ORIENT_PY).read()))
    if core.write_if_changed(os.path.join(core.LEAN, "BeyondVerif", "Generated", "FrameNames.lean"), names):
        ch.append("Generated/FrameNames.lean")
    # 6. inclination / node direction of the cartesian -> keplerian conversion -> Generated/KepPlane{F,R}.lean
    ch += py2lean.instantiate(core.LEAN, "KepPlane", extract_kep_plane(ast.parse(open(FORMS_PY).read())), "beyond/orbits/forms.py")
    ch += instantiate.main()
    return ch


# ---------------------------------------------------------------- generators

def rand_unit(rng):
    while True:
        v = [rng.gauss(0, 1) for _ in range(3)]
        n = math.sqrt(sum(x * x for x in v))
        if n > 1e-3:
            return [x / n for x in v]


def cross(a, b):
    return [a[1] * b[2] - a[2] * b[1], a[2] * b[0] - a[0] * b[2], a[0] * b[1] - a[1] * b[0]]


def norm(a):
    return math.sqrt(sum(x * x for x in a))


def gen_state(rng):
    """cartesian state with r x v != 0: LEO..GEO radii (sometimes unit scale), 0.3..1.6 circular speed (elliptic and
    hyperbolic), any direction; the angle between r and v is kept away from 0 and pi"""
    while True:
        scale = rng.choice([6.6e6, 7.0e6, 1.2e7, 2.66e7, 4.2164e7, 1.0, 3.8e8]) * rng.uniform(0.9, 1.1)
        r = [x * scale for x in rand_unit(rng)]
        vc = math.sqrt(MU / scale) if scale > 10 else 1.0
        speed = vc * rng.choice([rng.uniform(0.3, 1.0), rng.uniform(1.0, 1.4), rng.uniform(1.42, 1.6)])
        v = [x * speed for x in rand_unit(rng)]
        s = norm(cross(r, v)) / (norm(r) * norm(v))
        if s > 1e-3:
            return r + v


def state_kind(x):
    r, v = x[:3], x[3:]
    en = norm(v) ** 2 / 2 - MU / norm(r)
    h = cross(r, v)
    return ("hyperbolic" if en > 0 else "elliptic") + ("-retro" if h[2] < 0 else "-pro")


def gen_vec(rng):
    mag = 10 ** rng.uniform(-6, 3)
    k = rng.random()
    if k < 0.15:
        v = [0.0, 0.0, 0.0]
        v[rng.randrange(3)] = mag * rng.choice([-1, 1])
        return v
    return [x * mag for x in rand_unit(rng)]


# ---------------------------------------------------------------- correspondence (model vs implementation)

def ftoks(xs):
    return [f2b(float(v)) for v in xs]


def cmp_floats(out, family, what, inp, real, rep, atol, rtol=1e-9):
    if not rep or not rep[0].isdigit():
        out.fail(family, "model rejected the request: " + rep, inp, observed=[float(v) for v in real], expected=rep)
        return False
    model = [b2f(t) for t in rep.split()]
    if len(model) != len(real):
        out.fail(family, "model returned a different number of values", inp, observed=[float(v) for v in real], expected=model)
        return False
    for a, b in zip(real, model):
        if not core.close(float(a), b, rtol=rtol, atol=atol):
            out.fail(family, what, inp, observed=[float(v) for v in real], expected=model)
            return False
    return True


def ms_date(d0, ms):
    from beyond.dates import timedelta
    return d0 + timedelta(milliseconds=ms)


def correspondence(ctx):
    import numpy as np
    from beyond.dates import Date, timedelta
    from beyond.frames.local import to_local
    from beyond.frames.frames import orbit2frame
    from beyond.orbits.man import ImpulsiveMan, ContinuousMan, KeplerianImpulsiveMan, dkep2dv, dkep2aol
    from beyond.propagators.kepler import Kepler
    from beyond.propagators.keplernum import KeplerNum
    out = Outcome()
    rng = ctx.rng
    d0 = Date(2020, 5, 24)
    reqs, checks = [], []

    def add(req, fn):
        reqs.append(req)
        checks.append(fn)

    # 1. to_local
    for _ in range(ctx.n(400, 20000)):
        x = gen_state(rng)
        tag = rng.choice(["QSW", "TNW", "QSW", "TNW", "LVLH"])
        inp = {"frame": tag, "state": x}
        try:
            real = to_local(tag, np.array(x), expanded=False).flatten()
        except ValueError:
            real = "value-error"
        out.count(key=("local", tag, tuple(x)), kind="to_local-" + tag, state=state_kind(x))
        if isinstance(real, str):
            add(" ".join(["c17.local", tag] + ftoks(x)), lambda rep, inp=inp: rep == "value-error" or out.fail("c17-local", "model accepts a tag the code rejects", inp, observed="value-error", expected=rep))
        else:
            add(" ".join(["c17.local", tag] + ftoks(x)), lambda rep, inp=inp, real=real: cmp_floats(out, "c17-local", "to_local differs from the translated model", inp, real, rep, 1e-12))
    # 2. projections; every maneuver object is evaluated on a first state, on a second one, and on the first again
    #    (the model is a function of the current state: nothing of an earlier evaluation may survive in the object)
    for _ in range(ctx.n(300, 15000)):
        d = gen_vec(rng)
        tag = rng.choice(["QSW", "TNW", "qsw", None, "EME2000", "RSW"])
        up = tag.upper() if isinstance(tag, str) else None
        mt = up if up in ("QSW", "TNW") else "-"
        kind = rng.choice(["impulse", "accel", "accdv"])
        mag = norm(d)
        dur = rng.choice([1.0, 60.0, 90.5, 3600.0, 0.25, 172800.25])
        if kind == "impulse":
            man = ImpulsiveMan(d0, d, frame=tag)
        elif kind == "accel":
            man = ContinuousMan(d0, timedelta(seconds=60), accel=d, frame=tag)
        else:
            man = ContinuousMan(d0, timedelta(seconds=dur), dv=d, frame=tag, date_pos=rng.choice(["start", "stop", "median"]))
            mag /= dur
        xs = [gen_state(rng), gen_state(rng)]
        for visit, x in enumerate([xs[0], xs[1], xs[0]]):
            orb = mk_orbit(x)
            inp = {"kind": kind, "frame": tag, "state": x, "vector": d, "evaluation_of_this_object": visit}
            real = man.dv(orb) if kind == "impulse" else man.accel(orb)
            req = ["c17.accdv" if kind == "accdv" else "c17.proj", mt] + ftoks(x) + ftoks(d) + ([f2b(dur)] if kind == "accdv" else [])
            out.count(key=(kind, str(tag), tuple(x), tuple(d), visit), kind=f"proj-{kind}-{mt}", visit=visit)
            add(" ".join(req), lambda rep, inp=inp, real=real, mag=mag: cmp_floats(out, "c17-projection", "projected vector differs from the model", inp, real, rep, 1e-12 * mag + 1e-300))
    # 3. KeplerianImpulsiveMan.dv = to_tnw(orb).T @ _dv, and dkep2dv / dkep2aol themselves
    for _ in range(ctx.n(600, 30000)):
        da, di, dO = gen_incr(rng)
        if rng.random() < 0.5:   # well-conditioned half: large increments
            da, di, dO = da * 1e3 if abs(da) < 1e4 else da, di * 1e2 if abs(di) < 1e-3 else di, dO
        kep = [rng.choice([6.9e6, 7.2e6, 1.2e7, 2.66e7, 4.2164e7]) * rng.uniform(0.97, 1.03), rng.choice([0.0005, 0.01, 0.1, 0.4]), rng.uniform(0.05, 3.0),
               rng.uniform(0, 6.28), rng.uniform(0, 6.28), rng.uniform(0, 6.28)]
        if kep[0] * (1 - kep[1]) < 6.5e6:
            kep[1] = 0.01
        orbc = mk_orbit(kep, "keplerian").copy(form="cartesian")
        x = list(map(float, orbc))
        man = KeplerianImpulsiveMan(d0, da=da, di=di, dOmega=dO)
        real3 = man.dv(orbc)
        dvv = [float(v) for v in man._dv]
        inp = {"kep": kep, "da": da, "di": di, "dOmega": dO}
        mu, a, i, v = float(orbc.frame.center.body.mu), float(orbc.infos.kep.a), float(orbc.infos.kep.i), float(orbc.infos.v)
        finite = all(math.isfinite(t) for t in dvv)
        out.count(key=("dkep", tuple(kep), da, di, dO), kind="dkep2dv", finite=finite)
        if dvv[1] != 0:
            out.fail("c17-dkep", "second component of dkep2dv is not 0", inp, observed=dvv)
        if finite:
            add(" ".join(["c17.kepdv"] + ftoks(x) + [f2b(dvv[0]), f2b(dvv[2])]),
                lambda rep, inp=inp, real=real3, m=norm(dvv): cmp_floats(out, "c17-kepdv", "KeplerianImpulsiveMan.dv differs from to_tnw^T [dv_t, 0, dv_w]", inp, real, rep, 1e-12 * m + 1e-300))

        def chk(rep, inp=inp, dvv=dvv, v=v):
            if not rep[0].isdigit():
                out.fail("c17-dkep", "model rejected the request: " + rep, inp); return
            mdvt, mdvw = [b2f(t) for t in rep.split()]
            eps = 2.3e-16
            if not core.close(dvv[0], mdvt, rtol=1e-9, atol=64 * eps * v):
                out.fail("c17-dkep", "dv_t differs between dkep2dv and the translated model", inp, observed=dvv, expected=[mdvt, 0.0, mdvw]); return
            if not core.close(dvv[2], mdvw, rtol=1e-9, atol=1e-300):
                out.fail("c17-dkep", "dv_w differs between dkep2dv and the translated model", inp, observed=dvv, expected=[mdvt, 0.0, mdvw])
        add(" ".join(["c17.dkep"] + ftoks([mu, a, i, v, da, di, dO])), chk)
        from beyond.orbits.man import KeplerianContinuousMan
        kdur = rng.choice([60.0, 90.5, 600.0, 0.75, 172800.25])
        kman = KeplerianContinuousMan(d0, timedelta(seconds=kdur), da=da, di=di, dOmega=dO, date_pos=rng.choice(["start", "stop", "median"]))
        kreal = kman.accel(orbc)
        if finite:
            out.count(key=("kcont", tuple(kep), da, di, dO, kdur), kind="kep-continuous", duration=kdur)
            add(" ".join(["c17.kcont"] + ftoks(x) + ftoks([mu, a, i, v, da, di, dO, kdur])),
                lambda rep, inp=dict(inp, duration=kdur), real=kreal, m=norm(dvv) / kdur, v=v, kdur=kdur: cmp_floats(
                    out, "c17-kepcont", "KeplerianContinuousMan.accel differs from to_tnw^T (dkep2dv / duration)", inp, real, rep, 1e-12 * m + 64 * 2.3e-16 * v / kdur + 1e-300))
        real_aol = float(dkep2aol(orbc, di, dO))
        add(" ".join(["c17.aol"] + ftoks([i, di, dO])), lambda rep, inp=inp, r=real_aol: cmp_floats(out, "c17-aol", "dkep2aol differs from the model", inp, [r], rep, 1e-12))
    # 3b. ONE Keplerian maneuver object called on several different orbits in turn (the same plan given to several satellites,
    #     a second propagation from another state, Orbit.copy()): the statement list of the method, regenerated from the source,
    #     run as a state machine over the same history (theorems kepCont_history_free / kepImp_history_free: the k-th value is
    #     a function of the k-th state)
    from beyond.orbits.man import KeplerianContinuousMan
    for _ in range(ctx.n(150, 6000)):
        da, di, dO = gen_incr(rng)
        if rng.random() < 0.5:
            da, di, dO = da * 1e3 if abs(da) < 1e4 else da, di * 1e2 if abs(di) < 1e-3 else di, dO
        kind = rng.choice(["cont", "imp"])
        kdur = rng.choice([60.0, 90.5, 600.0, 0.75, 172800.25]) if kind == "cont" else 1.0
        keps = [gen_kep_state(rng) for _k in range(rng.choice([2, 3, 4]))]
        if rng.random() < 0.4:
            keps.append(keps[0])
        man = (KeplerianContinuousMan(d0, timedelta(seconds=kdur), da=da, di=di, dOmega=dO, date_pos=rng.choice(["start", "stop", "median"])) if kind == "cont"
               else KeplerianImpulsiveMan(d0, da=da, di=di, dOmega=dO))
        toks, reals, vs = [], [], []
        for kep in keps:
            orbc = mk_orbit(kep, "keplerian").copy(form="cartesian")
            reals.append([float(t) for t in (man.accel(orbc) if kind == "cont" else man.dv(orbc))])
            vs.append(float(orbc.infos.v))
            toks += ftoks(list(map(float, orbc))) + ftoks([float(orbc.frame.center.body.mu), float(orbc.infos.kep.a), float(orbc.infos.kep.i), float(orbc.infos.v)])
        finite = all(math.isfinite(t) for r in reals for t in r)
        out.count(key=("kseq", kind, str(keps), da, di, dO, kdur), kind="kep-object-history-" + kind, nontrivial=finite, visits=len(keps))
        if not finite:
            continue
        inp = {"kind": kind, "states_kep": keps, "da": da, "di": di, "dOmega": dO, "duration": kdur}

        def chk_seq(rep, inp=inp, reals=reals, vs=vs, kdur=kdur):
            t = rep.split()
            if len(t) != 3 * len(reals) or "none" in t or not t[0][0].isdigit():
                out.fail("c17-kep-object-history", "the state machine of the method returned nothing: " + rep[:80], inp); return
            for k, real in enumerate(reals):
                m = [b2f(x) for x in t[3 * k:3 * k + 3]]
                tol = 1e-9 * norm(real) + 64 * 2.3e-16 * vs[k] / kdur + 1e-300
                if not all(abs(a - b) <= tol for a, b in zip(real, m)):
                    out.fail("c17-kep-object-history", f"call no. {k} of one Keplerian maneuver object on a sequence of states differs from the state machine of its method "
                             "(level recomputed from the state of the call)", dict(inp, visit=k), observed=real, expected=m); return
        add(" ".join(["c17.kseq", kind] + ftoks([kdur, da, di, dO, 0.0, 0.0, 0.0]) + toks), chk_seq)
    # 4. orbit-attached frames, as sessions: names are registered, used at a few recurring dates, registered again from
    #    another orbit / with another orientation, used again at the same dates.  The registry model (Model/FrameReg.lean)
    #    says which (orientation, orbit) each conversion must use; the numeric model (frameTo / frameFrom) gives the values.
    from beyond.orbits import Orbit
    sess_reqs, sess_meta = [], []
    for sidx in range(ctx.n(10, 60)):
        forget_frames()
        _FRAME_SEQ[0] += 1
        # names are not shared between sessions: what an earlier session registered under a name stays in the orientation graph
        # (open finding C17-reregistered-under-other-parent) and the registry model of a session starts empty
        names = [f"C17S{_FRAME_SEQ[0]}{c}" for c in "ab"]
        orbits = [gen_ref_orbit(rng, d0) for _ in range(3)]
        dates = [d0 + timedelta(seconds=t) for t in (0.0, q6(rng.uniform(-3000, 3000)), q6(rng.uniform(0, 86400)))]
        toks, convs, bound = [], [], set()
        for _ in range(ctx.n(10, 14)):
            name = rng.choice(names)
            if name not in bound or rng.random() < 0.35:
                oid = rng.randrange(len(orbits))
                ori = rng.choice(["QSW", "TNW", "QSW", "TNW", None])
                # the `parent` option: mostly the default, sometimes another inertial frame (number of orientation links to EME2000)
                pname, pdist = rng.choice([("EME2000", 0)] * 3 + [("MOD", 1), ("TOD", 2), ("TEME", 3)])
                if pdist:
                    from beyond.frames.frames import get_frame
                    orbit2frame(name, orbits[oid][1], orientation=ori, parent=get_frame(pname), exists_warning=False)
                else:
                    orbit2frame(name, orbits[oid][1], orientation=ori, exists_warning=False)
                bound.add(name)
                toks += ["reg", name, ori or "-", f"{oid}@{pdist}"]
                continue
            date = rng.choice(dates)
            direction = rng.choice(["to", "from"])
            if direction == "to":
                near = list(map(float, orbits[rng.randrange(len(orbits))][1].propagate(date).copy(form="cartesian")))
                x = [near[j] + rng.uniform(-1, 1) * 10 ** rng.uniform(0, 6) for j in range(3)] + [near[j] + rng.uniform(-1, 1) * 10 ** rng.uniform(-3, 2) for j in range(3, 6)]
                real = list(map(float, mk_orbit(x, "cartesian", None, date).copy(frame=name)))
            else:
                x = [rng.uniform(-1, 1) * 10 ** rng.uniform(0, 6) for _ in range(3)] + [rng.uniform(-1, 1) * 10 ** rng.uniform(-3, 2) for _ in range(3)]
                real = list(map(float, Orbit(x, date, "cartesian", name, None).copy(frame="EME2000")))
            toks += ["conv", name]
            convs.append((name, date, direction, x, real))
        sess_reqs.append(" ".join(["c17.session"] + toks))
        sess_meta.append((orbits, convs, toks))
    sess_replies = core.Driver().run(sess_reqs) if sess_reqs else []
    for (orbits, convs, toks), rep in zip(sess_meta, sess_replies):
        ents = rep.split()
        if len(ents) != len(convs):
            out.fail("c17-frame-session", "registry model returned a wrong number of bindings: " + rep[:80], {"session": toks}); continue
        seen = {}
        for (name, date, direction, x, real), ent in zip(convs, ents):
            latest, into = ent.split("/") if "/" in ent else ("?:0", "?:0")
            # origin (centre link) and conversions out of the frame: the latest registration; axes of a conversion into it:
            # the registration the registry model names (the latest one unless the name was registered under several parents)
            use = into if direction == "to" else latest
            mt, oid = use.split(":") if ":" in use else ("?", "0")
            kep, ref = orbits[int(oid)]
            refc = list(map(float, ref.propagate(date).copy(form="cartesian")))
            orig = list(map(float, orbits[int(latest.split(":")[1])][1].propagate(date).copy(form="cartesian"))) if ":" in latest else refc
            sr, sv = norm(refc[:3]), norm(refc[3:])
            rebound = seen.get((name, str(date)), ent) != ent
            seen[(name, str(date))] = ent
            stale = direction == "to" and into != latest
            inp = {"session": " ".join(toks), "frame": name, "binding": ent, "ref_kep": kep, "date": str(date), "direction": direction, "state": x,
                   "same_name_and_date_used_before_with_another_binding": rebound}
            out.count(key=("sess", name, str(date), direction, tuple(x)), kind=f"frame-{direction}-{mt}", rebound_same_date=rebound, axes_of_an_earlier_registration=stale)
            # M_axes (x - x_origin) = M_axes ((x - x_origin + x_axes) - x_axes)
            xin = [a - b + c for a, b, c in zip(x, orig, refc)] if stale else x

            def chk6(rep2, real=real, inp=inp, sr=sr, sv=sv):
                if not rep2[0].isdigit():
                    out.fail("c17-frame", "model rejected the request: " + rep2, inp); return
                m = [b2f(t) for t in rep2.split()]
                if not (all(abs(a - b) <= 1e-9 * sr for a, b in zip(real[:3], m[:3])) and all(abs(a - b) <= 1e-9 * sv + 1e-9 for a, b in zip(real[3:], m[3:]))):
                    out.fail("c17-frame", "conversion through an orbit-attached frame differs from the model (binding given by the registry model)", inp, observed=real, expected=m)
            add(" ".join(["c17." + direction, mt] + ftoks(refc) + ftoks(xin)), chk6)
    # 5. impulse windows: the loop `date += step` with the real ImpulsiveMan.check on real Dates (integer milliseconds)
    for _ in range(ctx.n(500, 20000)):
        t0 = rng.choice([0, rng.randrange(0, 86_400_000)])
        nst = rng.randrange(1, 9)
        if rng.random() < 0.5:
            h = rng.choice([1000, 30000, 60000, 120000]); steps = [h] * nst
        else:
            steps = [rng.choice([rng.randrange(1, 200000), 60000, 1]) for _ in range(nst)]
        if rng.random() < 0.05:
            steps[rng.randrange(nst)] = rng.choice([0, -60000])
        grid_ms = [t0]
        for h in steps:
            grid_ms.append(grid_ms[-1] + h)
        c = rng.random()
        tm = rng.choice(grid_ms) + rng.choice([0, 0, 1, -1]) if c < 0.5 else rng.randrange(min(grid_ms) - 5, max(grid_ms) + 6)
        man = ImpulsiveMan(ms_date(d0, tm), [1, 0, 0])
        fired = []
        date = ms_date(d0, t0)
        for g, h in zip(grid_ms, steps):
            if man.check(ms_date(d0, g), timedelta(milliseconds=h)):
                fired += [g, h]
        real = f"{len(fired) // 2} " + " ".join(str(v) for v in fired)
        inside = grid_ms[0] < tm <= grid_ms[-1]
        out.count(key=("win", t0, tuple(steps), tm), kind="window", fired=len(fired) // 2, on_grid=tm in grid_ms, inside=inside)
        inp = {"t0_ms": t0, "steps_ms": steps, "man_ms": tm}
        add(" ".join(["c17.win", str(tm), str(t0)] + [str(h) for h in steps]),
            lambda rep, real=real.strip(), inp=inp: rep.strip() == real or out.fail("c17-window", "steps at whose end ImpulsiveMan.check fires differ from the model", inp, observed=real, expected=rep))
    # 6. several maneuvers in the real KeplerNum loop (gravity-free, instrumented dv): which impulses are applied at which step
    class Rec(ImpulsiveMan):
        log = None
        idx = None

        def dv(self, orb, **kw):
            self.log.append((self.idx, orb.date))
            return super().dv(orb, **kw)
    for _ in range(ctx.n(60, 2000)):
        method = rng.choice(["rk4", "euler", "dopri54", "rkf54"])
        step_ms = rng.choice([1000, 30000, 60000])
        nst = rng.randrange(1, 12)
        k = rng.randrange(1, 5)
        tms = []
        for _ in range(k):
            c = rng.random()
            tms.append(step_ms * rng.randrange(0, nst + 1) + rng.choice([0, 1, -1]) if c < 0.5 else rng.randrange(-5, step_ms * nst + 6))
        prop = KeplerNum(timedelta(milliseconds=step_ms), [], method=method)
        orb = mk_orbit([7e6, 1e5, 2e5, 100.0, 7000.0, 300.0], "cartesian", prop, d0)
        log = []
        mans = []
        for j, tm in enumerate(tms):
            m = Rec(ms_date(d0, tm), [0.1, 0.2, 0.3], frame=rng.choice(["TNW", "QSW", None]))
            m.log, m.idx = log, j
            mans.append(m)
        orb.maneuvers = mans
        pts = list(orb.iter(stop=timedelta(milliseconds=step_ms * nst)))
        dates_ms = [round((p.date - d0).total_seconds() * 1000) for p in pts]
        steps = [b - a for a, b in zip(dates_ms[:-1], dates_ms[1:])]
        per = {dms: [] for dms in dates_ms[1:]}
        for j, dte in log:
            per.setdefault(round((dte - d0).total_seconds() * 1000), []).append(j)
        real = ";".join(",".join(str(j) for j in per[dms]) for dms in dates_ms[1:])
        inp = {"method": method, "step_ms": step_ms, "nsteps": nst, "mans_ms": tms}
        out.count(key=("wins", method, step_ms, nst, tuple(tms)), kind=f"loop-{method}", n_man=k, applied=len(log))
        if len(per) != len(dates_ms) - 1:
            out.fail("c17-loop", "an impulse was applied to a state that is not the end of an integration step", inp, observed=str(log)[:200])
            continue
        add(" ".join(["c17.wins", "0"] + [str(h) for h in steps] + ["|"] + [str(t) for t in tms]),
            lambda rep, real=real, inp=inp: rep == real or out.fail("c17-loop", "impulses applied per integration step by KeplerNum differ from the model", inp, observed=real, expected=rep))
    # 7. continuous-maneuver switch at the Runge-Kutta stage dates
    for _ in range(ctx.n(300, 10000)):
        method = rng.choice(["rk4", "euler", "dopri54", "rkf54"])
        step = 4680 * rng.randrange(1, 30)
        date = step * rng.randrange(0, 10)
        c = rng.random()
        start = date + rng.choice([0, step // 2, step, -step, step // 4]) + rng.choice([0, 1, -1]) if c < 0.6 else rng.randrange(-step, date + 2 * step)
        dur = rng.choice([step, 3 * step, step // 2, 1, rng.randrange(1, 4 * step)])
        man = ContinuousMan(ms_date(d0, start), timedelta(milliseconds=dur), accel=[1e-3, 0, 0])
        cs = KeplerNum.BUTCHER[method]["c"]
        base = ms_date(d0, date)
        real = " ".join("1" if man.check(base + timedelta(milliseconds=step) * float(cc)) else "0" for cc in cs)
        inp = {"method": method, "start_ms": start, "duration_ms": dur, "date_ms": date, "step_ms": step}
        out.count(key=("cont", method, start, dur, date, step), kind=f"stages-{method}", on="1" in real, all_on="0" not in real)
        add(" ".join(["c17.cont", method, str(start), str(start + dur), str(date), str(step)]),
            lambda rep, real=real, inp=inp: rep == real or out.fail("c17-stages", "ContinuousMan.check at the stage dates differs from the model", inp, observed=real, expected=rep))
    correspondence2(ctx, out, add, d0)
    replies = core.Driver().run(reqs)
    for req, fn, rep in zip(reqs, checks, replies):
        fn(rep)
        out.sample({"request": req[:100] + "…", "model": rep[:80]}, limit=3)
    return out


# ---------------------------------------------------------------- reference orbits around other bodies

_BODY_FRAMES = {}


def body_frame(name):
    """frame centred on a solar-system body (beyond.env.solarsystem.get_frame), created once per process"""
    if name == "Earth":
        from beyond.frames.frames import get_frame
        return get_frame("EME2000")
    if name not in _BODY_FRAMES:
        from beyond.env.solarsystem import get_frame as ss_frame
        _BODY_FRAMES[name] = ss_frame(name)
    return _BODY_FRAMES[name]


BODY_ORBITS = {"Earth": (7.0e6, 4.2e7), "Moon": (1.8e6, 6e6), "Sun": (6e10, 2.5e11), "Mars": (3.6e6, 2e7), "Venus": (6.4e6, 3e7)}


def gen_body_orbit(rng, body, frame, d0):
    """a Kepler orbit around `body`, expressed in the frame centred on it"""
    from beyond.orbits import Orbit
    from beyond.propagators.kepler import Kepler
    lo, hi = BODY_ORBITS[body]
    kep = [rng.uniform(lo, hi), rng.uniform(0, 0.3), rng.uniform(0.1, 3.0), rng.uniform(0, 6.28), rng.uniform(0, 6.28), rng.uniform(0, 6.28)]
    return kep, Orbit(kep, d0, "keplerian", frame, Kepler())


def zero_in(frame, date, work):
    """state of the centre of `frame` seen from the frame `work`"""
    from beyond.orbits import StateVector
    return list(map(float, StateVector([0.0] * 6, date, "cartesian", frame).copy(frame=work)))


def centre_case(rng, d0, body, ref_frame, parents, use_as_frame=True):
    """one frame attached to an orbit around `body`; returns what the correspondence / the oracle need"""
    import numpy as np
    from beyond.dates import timedelta
    from beyond.frames.frames import orbit2frame
    kep, ref = gen_body_orbit(rng, body, ref_frame, d0)
    ori = rng.choice([None, None, "QSW", "TNW"])
    pname, parent = rng.choice(parents)
    _FRAME_SEQ[0] += 1
    name = f"C17B{_FRAME_SEQ[0] % 5}"
    kw = {"exists_warning": False}
    if ori:
        kw["orientation"] = ori
    if parent is not None:
        kw["parent"] = parent
    if use_as_frame and rng.random() < 0.5:
        ref.as_frame(name, **kw)
    else:
        orbit2frame(name, ref, **kw)
    date = d0 + timedelta(seconds=q6(rng.uniform(0, 7200)))
    cart = ref.propagate(date).copy(form="cartesian")
    delta = np.array([rng.uniform(-1, 1) * 10 ** rng.uniform(0, 5) for _ in range(3)] + [rng.uniform(-1, 1) * 10 ** rng.uniform(-3, 1) for _ in range(3)])
    comp = cart.copy()
    comp[:] = np.asarray(cart) + delta
    return {"kep": kep, "ref": ref, "ori": ori, "parent_name": pname or "default", "parent": parent, "name": name, "date": date, "cart": cart, "comp": comp, "delta": delta,
            "meta": {"body": body, "ref_frame": str(ref_frame), "ref_kep": kep, "orientation": ori, "parent": pname or "default (EME2000)", "frame": name, "date": str(date)}}


# ---------------------------------------------------------------- correspondence, second part (quadrature, _accel, names, references)

NAME_POOL = ["QSW", "TNW", "qsw", "tnw", "Qsw", "qSW", "QsW", "Tnw", "tNW", "tnW", "TnW", None, "EME2000", "MOD", "ITRF", "RSW", "rsw", "LVLH", "RTN", "rtn",
             "", "QSW ", " TNW", "QSWX", "TN", "NTW", "eme2000", "Hill", "QSW\t"]


def name_tok(name):
    if name is None:
        return "~"
    if name == "":
        return "-"
    return ",".join(str(ord(c)) for c in name)


class FakeBody:
    """an attracting body at a fixed place (only `.µ` and `.propagate(date)` are used by `_accel`)"""

    def __init__(self, mu, pos):
        self.µ = mu
        self.pos = list(pos)
        self.name = "fake"

    def propagate(self, date):
        from beyond.orbits import StateVector
        return StateVector(self.pos + [0.0, 0.0, 0.0], date, "cartesian", "EME2000")


def gen_bodies(rng, d0):
    from beyond.env.solarsystem import get_body
    k = rng.choice([0, 1, 1, 2, 3, 3, 4])
    out = []
    for _ in range(k):
        c = rng.random()
        if c < 0.5:
            out.append(get_body(rng.choice(["Earth", "Moon", "Sun"])))
        else:
            out.append(FakeBody(10 ** rng.uniform(10, 15), [x * 10 ** rng.uniform(7.5, 9) for x in rand_unit(rng)]))
    return out


def snapshot(ref):
    """what a conversion can observe of a reference object: class, frame, form, coordinates (bit patterns), date(s)"""
    from beyond.orbits.ephem import Ephem
    if isinstance(ref, Ephem):
        pts = [ref[0], ref[-1]]
        kind = "Ephem"
    else:
        pts = [ref]
        kind = type(ref).__name__
    coords = []
    for pt in pts:
        coords += [f2b(float(v)) for v in pt] + [f2b(float(pt.date._mjd))]
    return kind, str(pts[0].frame), str(pts[0].form.name), coords + [str(len(ref))] if kind == "Ephem" else coords


def gen_reference(rng, d0):
    """(kind, pristine copy, live object): an Orbit with the Kepler propagator, an Ephem or a plain StateVector, expressed in the
    parent frame (EME2000) or in another one, in cartesian or keplerian form"""
    from beyond.dates import timedelta
    from beyond.orbits import StateVector
    kep, orb = gen_ref_orbit(rng, d0)
    kind = rng.choice(["Orbit", "Ephem", "StateVector"])
    frame = rng.choice(["EME2000", "EME2000", "MOD", "TEME", "ITRF", "TOD"])
    form = rng.choice(["cartesian", "keplerian"]) if frame not in ("ITRF",) else "cartesian"

    def make():
        o = mk_orbit(kep, "keplerian", orb.propagator.copy(), d0)
        if kind == "Ephem":
            e = o.ephem(start=d0 - timedelta(seconds=4000), stop=timedelta(seconds=92000), step=timedelta(seconds=180))
            if frame != "EME2000":
                e.frame = frame
            return e
        if kind == "StateVector":
            sv = StateVector(list(map(float, o.copy(form="cartesian"))), d0, "cartesian", "EME2000")
            if frame != "EME2000":
                sv.frame = frame
            if form != "cartesian":
                sv.form = form
            return sv
        if frame != "EME2000":
            o.frame = frame
        if form != "keplerian":
            o.form = form
        return o
    return {"kind": kind, "frame": frame, "form": form, "kep": kep}, make(), make()


def ref_state(pristine, date, frame="EME2000"):
    """cartesian state of the reference at `date` in `frame`, from a copy the frames never saw"""
    st = pristine.propagate(date) if hasattr(pristine, "propagate") else pristine
    return list(map(float, st.copy(form="cartesian", frame=frame)))


def correspondence2(ctx, out, add, d0):
    import numpy as np
    from beyond.dates import timedelta
    from beyond.frames.local import to_local, to_qsw, to_tnw
    from beyond.frames.frames import orbit2frame
    from beyond.orbits import Orbit
    from beyond.orbits.man import ImpulsiveMan, ContinuousMan
    from beyond.propagators.keplernum import KeplerNum
    rng = ctx.rng
    # 8. stage dates: `step * c` (timedelta x float) for every node of the four tableaux
    for _ in range(ctx.n(300, 6000)):
        method = rng.choice(["rk4", "euler", "dopri54", "rkf54"])
        cc = float(rng.choice(list(KeplerNum.BUTCHER[method]["c"])))
        h = rng.choice([rng.randrange(1, 50), rng.randrange(1, 10 ** 9), 60_000_000, 4680_000 * rng.randrange(1, 30), 2 * rng.randrange(1, 10 ** 6) + 1])
        real = (timedelta(microseconds=h) * cc) // timedelta(microseconds=1)
        num, den = cc.as_integer_ratio()
        inp = {"method": method, "c": cc, "step_us": h}
        out.count(key=("offset", cc, h), kind=f"stage-offset-{method}", exact=(h * num) % den == 0)
        add(f"c17.offset {num} {den} {h}", lambda rep, real=real, inp=inp: rep == str(real) or out.fail("c17-stage-offset", "step * c differs from the model (divide and round half to even)", inp, observed=real, expected=rep))
    # 9. delivered delta-v of a burn in the real step loop (gravity-free, inertial thrust vector) vs the quadrature model
    for _ in range(ctx.n(50, 1500)):
        method = rng.choice(["rk4", "rk4", "euler", "dopri54", "rkf54"])
        base = 4680 if method in ("dopri54", "rkf54") else rng.choice([1000, 2000, 4680, 30000])
        h = base * rng.randrange(1, 26 if base > 2000 else 60)
        n = rng.randrange(2, 14)
        c = rng.random()
        if c < 0.35:     # whole steps from a grid date, the first date included
            p = rng.choice([0, 0, 1, 2, rng.randrange(0, n)])
            start, dur = p * h, h * rng.randrange(1, max(2, n - p + 1))
            kind = "whole-steps-from-first-date" if p == 0 else "whole-steps"
        elif c < 0.6:    # at a stage date +- 1 ms
            cc = float(rng.choice(list(KeplerNum.BUTCHER[method]["c"])))
            start = h * rng.randrange(0, n) + round(h * cc) + rng.choice([0, 1, -1])
            dur = rng.choice([h, h // 2, 1, rng.randrange(1, 3 * h)])
            kind = "at-stage-date"
        else:
            start, dur = rng.randrange(-h, n * h), rng.randrange(1, 4 * h)
            kind = "anywhere"
        acc = [x * 10 ** rng.uniform(-4, -2) for x in rand_unit(rng)]
        prop = KeplerNum(timedelta(milliseconds=h), [], method=method, tol=1e12)    # tol: the adaptive tableaux keep the nominal step
        orb = mk_orbit([7e6, 1e5, 2e5, 100.0, 7000.0, 300.0], "cartesian", prop, d0)
        by_dv = rng.random() < 0.3
        orb.maneuvers = [ContinuousMan(ms_date(d0, start), timedelta(milliseconds=dur), **({"dv": [a * dur / 1000 for a in acc]} if by_dv else {"accel": acc}))]
        pts = list(orb.iter(stop=timedelta(milliseconds=h * n)))
        steps = [round((b.date - a.date).total_seconds() * 1e6) for a, b in zip(pts[:-1], pts[1:])]
        dv = [float(pts[-1][3 + j] - pts[0][3 + j]) for j in range(3)]
        inp = {"method": method, "step_ms": h, "nsteps": n, "start_ms": start, "duration_ms": dur, "accel": acc, "by_dv": by_dv}
        out.count(key=("thrust", method, h, n, start, dur), kind=f"thrust-{method}-{kind}")
        if any(st != h * 1000 for st in steps) or len(steps) != n:
            out.fail("c17-thrust", "the step loop did not take the nominal steps", inp, observed=steps[:20])
            continue

        def chk(rep, dv=dv, acc=acc, inp=inp, dur=dur):
            try:
                units, den = [int(t) for t in rep.split()]
            except ValueError:
                out.fail("c17-thrust", "model rejected the request: " + rep, inp); return
            tt = units / den * 1e-6
            exp = [a * tt for a in acc]
            if not all(abs(a - b) <= 1e-9 * norm(acc) * (abs(tt) + dur / 1000) + 1e-12 for a, b in zip(dv, exp)):
                out.fail("c17-thrust", "velocity change of a gravity-free propagation differs from accel x thrust time of the quadrature model", dict(inp, model_thrust_time_s=tt),
                         observed=dv, expected=exp)
        add(" ".join(["c17.thrust", method, str(start * 1000), str((start + dur) * 1000), "0"] + [str(st) for st in steps]), chk)
    # 10. KeplerNum._accel with several attracting bodies and several maneuvers
    for _ in range(ctx.n(120, 4000)):
        x = gen_state(rng)
        bodies = gen_bodies(rng, d0)
        prop = KeplerNum(timedelta(seconds=60), bodies)
        orb = mk_orbit(x, "cartesian", prop, d0)
        t = rng.randrange(0, 600_000)
        mans, desc = [], []
        for _k in range(rng.choice([0, 1, 1, 2, 3])):
            vec = gen_vec(rng)
            tag = rng.choice(["QSW", "TNW", "tnw", None, "EME2000"])
            c = rng.random()
            if c < 0.2:
                m = ImpulsiveMan(ms_date(d0, t + rng.choice([0, 1, 30_000])), vec, frame=tag)
            else:
                st = t + rng.choice([0, -1, 1, -30_000, 30_000, -59_999])
                m = ContinuousMan(ms_date(d0, st), timedelta(milliseconds=rng.choice([1, 2, 60_000])), accel=vec, frame=tag)
            mans.append(m)
        orb.maneuvers = mans
        prop.orbit = orb
        y = prop.orbit.copy()
        y.date = ms_date(d0, t)
        real = prop._accel(y)
        toks = ["c17.accel"] + ftoks(x) + [str(len(bodies))]
        for b in bodies:
            bp = b.propagate(y.date)
            bp.frame = y.frame
            toks += [f2b(float(b.µ))] + ftoks(list(map(float, bp[:3])))
        toks.append(str(len(mans)))
        n_on = 0
        for m in mans:
            on = isinstance(m, ContinuousMan) and bool(m.check(y.date))
            n_on += on
            up = m.frame if m.frame in ("QSW", "TNW") else "-"
            vec = m._accel if isinstance(m, ContinuousMan) else m._dv
            toks += ["1" if on else "0", up] + ftoks(list(map(float, vec)))
        inp = {"state": x, "date_ms": t, "bodies": [getattr(b, "name", "?") + (str(b.pos) if isinstance(b, FakeBody) else "") for b in bodies],
               "maneuvers": [repr((type(m).__name__, m.frame)) for m in mans]}
        out.count(key=("accel", tuple(x), t, len(bodies), len(mans)), kind="accel", n_bodies=len(bodies), n_thrusting=n_on)
        if list(real[:3]) != list(x[3:]):
            out.fail("c17-accel", "_accel(orb)[:3] is not the velocity", inp, observed=list(map(float, real[:3])))
        scale = float(np.linalg.norm(real[3:])) + 1e-30
        add(" ".join(toks), lambda rep, real=list(map(float, real[3:])), inp=inp, scale=scale: cmp_floats(out, "c17-accel", "_accel differs from the loop program run on the same bodies and maneuvers", inp, real, rep, 1e-12 * scale, rtol=1e-9))
    # 11. frame names: which matrix a spelling selects
    forget_frames()
    xs = [gen_state(rng) for _ in range(3)]
    for name in NAME_POOL + [rng.choice(["q", "Q"]) + rng.choice(["s", "S"]) + rng.choice(["w", "W"]) for _ in range(ctx.n(4, 40))]:
        x = rng.choice(xs)
        orb = mk_orbit(x)
        vec = [0.3, -1.1, 0.7]
        cands = {"qsw": np.array(axes_expected("QSW", x)).T @ np.array(vec), "tnw": np.array(axes_expected("TNW", x)).T @ np.array(vec), "identity": np.array(vec)}

        def classify(got):
            hits = [k for k, v in cands.items() if np.allclose(got, v, rtol=0, atol=1e-12)]
            return hits[0] if len(hits) == 1 else "unclassified:" + str(list(map(float, got)))
        for what in ("imp", "cont", "local", "o2f"):
            if what == "local" and name is None:
                continue
            try:
                if what == "imp":
                    real = classify(ImpulsiveMan(d0, vec, frame=name).dv(orb))
                elif what == "cont":
                    real = classify(ContinuousMan(d0, timedelta(seconds=60), accel=vec, frame=name).accel(orb))
                elif what == "local":
                    m = to_local(name, np.array(x), expanded=False)
                    real = "qsw" if np.array_equal(m, to_qsw(np.array(x))) else "tnw" if np.array_equal(m, to_tnw(np.array(x))) else "unclassified"
                else:
                    _FRAME_SEQ[0] += 1
                    fname = f"C17N{_FRAME_SEQ[0] % 5}"
                    from beyond.orbits import StateVector
                    orbit2frame(fname, StateVector(x, d0, "cartesian", "EME2000"), orientation=name, exists_warning=False)
                    p = np.array(x); p[:3] += np.array(vec)
                    got = np.array(mk_orbit(list(p)).copy(frame=fname))[:3]
                    back = {"qsw": np.array(axes_expected("QSW", x)) @ np.array(vec), "tnw": np.array(axes_expected("TNW", x)) @ np.array(vec), "identity": np.array(vec)}
                    hits = [k for k, v in back.items() if np.allclose(got, v, rtol=0, atol=1e-6)]
                    real = hits[0] if len(hits) == 1 else "unclassified:" + str(got.tolist())
            except ValueError:
                real = "value-error"
            inp = {"what": what, "name": name, "state": x}
            out.count(key=("name", what, str(name)), kind=f"name-{what}", selects=real.split(":")[0])
            add(f"c17.name {what} {name_tok(name)}", lambda rep, real=real, inp=inp: rep == real or out.fail("c17-frame-name", "the matrix selected by a frame name differs from the regenerated name table", inp, observed=real, expected=rep))
    # 12. reference objects of attached frames: sessions over Orbit / Ephem / StateVector references in and out of the parent frame
    world_reqs, world_meta = [], []
    for sidx in range(ctx.n(8, 60)):
        forget_frames()
        _FRAME_SEQ[0] += 1
        names = [f"C17W{_FRAME_SEQ[0] % 7}{c}" for c in "ab"]
        refs = [gen_reference(rng, d0) for _ in range(3)]
        dates = [d0 + timedelta(seconds=t) for t in (0.0, q6(rng.uniform(-3000, 3000)), q6(rng.uniform(0, 86400)))]
        toks, convs, bound = [], [], {}
        for meta, pristine, live in refs:
            k, fr, fo, cs = snapshot(pristine)
            toks += ["ref", k, fr, fo] + cs[:6]
        toks.append("|")
        for _ in range(ctx.n(10, 14)):
            name = rng.choice(names)
            if name not in bound or rng.random() < 0.25:
                oid = rng.randrange(len(refs))
                ori = rng.choice(["QSW", "TNW", "qsw", "TNW", None])
                if rng.random() < 0.5:
                    orbit2frame(name, refs[oid][2], orientation=ori, exists_warning=False)
                else:
                    refs[oid][2].as_frame(name, orientation=ori, exists_warning=False)
                bound[name] = (oid, ori)
                toks += ["reg", name, ori.upper() if ori else "-", str(oid)]
                continue
            direction = rng.choice(["to", "from"])
            oid, ori = bound[name]
            # a bare StateVector is a point at its own date: in a frame other than the parent it is used at that date only
            # (the centre link converts it at the date of the call, the orientation at its own date)
            date = dates[0] if refs[oid][0]["kind"] == "StateVector" and refs[oid][0]["frame"] != "EME2000" else rng.choice(dates)
            if direction == "to":
                near = ref_state(refs[rng.randrange(len(refs))][1], date)
                x = [near[j] + rng.uniform(-1, 1) * 10 ** rng.uniform(0, 6) for j in range(3)] + [near[j] + rng.uniform(-1, 1) * 10 ** rng.uniform(-3, 2) for j in range(3, 6)]
                real = list(map(float, mk_orbit(x, "cartesian", None, date).copy(frame=name)))
            else:
                x = [rng.uniform(-1, 1) * 10 ** rng.uniform(0, 6) for _ in range(3)] + [rng.uniform(-1, 1) * 10 ** rng.uniform(-3, 2) for _ in range(3)]
                real = list(map(float, Orbit(x, date, "cartesian", name, None).copy(frame="EME2000")))
            toks += ["conv", name]
            k, fr, fo, cs = snapshot(refs[oid][2])      # the live reference right after the conversion
            convs.append((name, date, direction, x, real, f"{k}:{fr}:{fo}:" + ",".join(cs[:6]), oid))
        world_reqs.append(" ".join(["c17.world"] + toks))
        world_meta.append((refs, convs, toks))
    world_replies = core.Driver().run(world_reqs) if world_reqs else []
    for (refs, convs, toks), rep in zip(world_meta, world_replies):
        ents = rep.split()
        if len(ents) != len(convs):
            out.fail("c17-frame-world", "world model returned a wrong number of readings: " + rep[:80], {"session": " ".join(toks)[:300]}); continue
        for (name, date, direction, x, real, live_obs, oid), ent in zip(convs, ents):
            parts = ent.split(":", 2)
            meta, pristine, live = refs[oid]
            inp = {"session": " ".join(t for t in toks if not t.isdigit() or len(t) < 6)[:400], "frame": name, "reference": meta, "date": str(date), "direction": direction, "state": x}
            out.count(key=("world", name, str(date), direction, tuple(x)), kind=f"ref-{meta['kind']}-{meta['frame']}-{meta['form']}", direction=direction)
            if len(parts) != 3 or int(parts[1]) != oid:
                out.fail("c17-frame-world", "the conversion used another binding than the world model", inp, observed=oid, expected=ent); continue
            if parts[2] != live_obs:
                out.fail("c17-frame-reference-modified", "a conversion through an orbit-attached frame modified the reference object it was created from "
                         "(class : frame : form : coordinates as bit patterns)", inp, observed=live_obs, expected=parts[2], violates_property=True)
                continue
            # orientation=None keeps the axes of the frame the reference is expressed in (not those of the parent): such bindings
            # are evaluated in that frame F (x and the reference taken to F / the result taken back from F by the library)
            fr = meta["frame"] if parts[0] == "-" else "EME2000"
            refc = ref_state(pristine, date, fr)
            sr, sv = norm(refc[:3]), norm(refc[3:])
            xin = x
            if fr != "EME2000" and direction == "to":
                xin = list(map(float, mk_orbit(x, "cartesian", None, date).copy(frame=fr)))

            def chk6(rep2, real=real, inp=inp, sr=sr, sv=sv, fr=fr, direction=direction, date=date):
                if not rep2[0].isdigit():
                    out.fail("c17-frame", "model rejected the request: " + rep2, inp); return
                m = [b2f(t) for t in rep2.split()]
                if fr != "EME2000" and direction == "from":
                    from beyond.orbits import StateVector
                    m = list(map(float, StateVector(m, date, "cartesian", fr).copy(frame="EME2000")))
                if not (all(abs(a - b) <= 1e-9 * sr for a, b in zip(real[:3], m[:3])) and all(abs(a - b) <= 1e-9 * sv + 1e-9 for a, b in zip(real[3:], m[3:]))):
                    out.fail("c17-frame", "conversion through a frame attached to an Orbit / Ephem / StateVector reference differs from the model evaluated on an untouched copy of the reference",
                             inp, observed=real, expected=m)
            add(" ".join(["c17." + direction, parts[0]] + ftoks(refc) + ftoks(xin)), chk6)
    # 14. frames attached to orbits around another body (Moon, Sun): which centre the new centre hangs under
    from beyond.frames.frames import get_frame as _gf
    for _ in range(ctx.n(24, 600)):
        forget_frames()
        body = rng.choice(["Moon", "Moon", "Sun", "Earth"])
        fr = body_frame(body)
        parents = [(None, None), (None, None), ("EME2000", _gf("EME2000")), (body, fr), ("MOD", _gf("MOD"))]
        c = centre_case(rng, d0, body, fr, parents)
        # the common frame: the parent for a local orientation, the reference's own frame for orientation=None
        work = (c["parent"] or _gf("EME2000")) if c["ori"] else fr
        pframe = c["parent"] or _gf("EME2000")
        src = rng.choice([fr, _gf("EME2000"), pframe])       # the frame the converted state is given in
        x_src = c["comp"].copy(frame=src)
        real = list(map(float, x_src.copy(frame=c["name"])))
        c_ref, c_par, c_x = zero_in(fr, c["date"], work), zero_in(pframe, c["date"], work), zero_in(src, c["date"], work)
        refw = [a - b for a, b in zip(map(float, c["cart"].copy(frame=work)), c_ref)]
        xw = [a - b for a, b in zip(map(float, x_src.copy(frame=work)), c_x)]
        scale_r = max(norm(c_ref[:3]), norm(c_x[:3]), norm(c_par[:3])) + norm(refw[:3])
        scale_v = max(norm(c_ref[3:]), norm(c_x[3:]), norm(c_par[3:])) + norm(refw[3:])
        inp = dict(c["meta"], state_given_in=str(src), companion_offset=c["delta"].tolist())
        out.count(key=("centre", body, c["name"], str(c["date"]), tuple(c["kep"])), kind=f"centre-{body}-{c['ori']}", parent=c["parent_name"], given_in=str(src))

        def chkc(rep, real=real, inp=inp, sr=scale_r, sv=scale_v):
            if not rep[0].isdigit():
                out.fail("c17-frame-centre", "model rejected the request: " + rep, inp); return
            m = [b2f(t) for t in rep.split()]
            if not (all(abs(a - b) <= 1e-9 * sr + 1e-6 for a, b in zip(real[:3], m[:3])) and all(abs(a - b) <= 1e-9 * sv + 1e-9 for a, b in zip(real[3:], m[3:]))):
                out.fail("c17-frame-centre", "conversion into a frame attached to an orbit around another body differs from the model (centre linked as read from orbit2frame)",
                         inp, observed=real, expected=m)
        add(" ".join(["c17.toc", (c["ori"] or "-")] + ftoks(c_ref) + ftoks(c_par) + ftoks(c_x) + ftoks(refw) + ftoks(xw)), chkc)
    # 13. inclination / node direction slices of the cartesian -> keplerian conversion
    for _ in range(ctx.n(100, 3000)):
        x = gen_state(rng)
        if norm(cross(x[:3], x[3:])[:2]) < 1e-3 * norm(cross(x[:3], x[3:])):
            continue
        k = mk_orbit(x).copy(form="keplerian")
        inp = {"state": x}
        out.count(key=("kepplane", tuple(x)), kind="kep-plane", state=state_kind(x))

        def chkp(rep, k=k, inp=inp):
            inc, ny, nx = [b2f(t) for t in rep.split()]
            om = math.atan2(ny, nx) % (2 * math.pi)
            if not (core.close(float(k.i), inc, rtol=1e-12, atol=1e-12) and abs(wrap(float(k.Omega) - om)) <= 1e-12):
                out.fail("c17-kepplane", "inclination / node of the keplerian form differ from the translated slices", inp, observed=[float(k.i), float(k.Omega)], expected=[inc, om])
        add(" ".join(["c17.kepplane"] + ftoks(x)), chkp)


# ---------------------------------------------------------------- oracle parts (real API)

def mk_orbit(x, form="cartesian", prop=None, date=None):
    from beyond.orbits import Orbit
    from beyond.dates import Date
    return Orbit(list(x), date or Date(2020, 5, 24), form, "EME2000", prop)


def axes_expected(tag, x):
    r, v = x[:3], x[3:]
    h = cross(r, v)
    hn = norm(h)
    w = [c / hn for c in h]
    a0 = [c / norm(r) for c in r] if tag == "QSW" else [c / norm(v) for c in v]
    a1 = cross(w, a0)
    return [a0, a1, w]


def oracle_frames(out, rng, N):
    """to_local: proper rotation with the documented axes; expanded form block diagonal"""
    import numpy as np
    from beyond.frames.local import to_local
    for _ in range(N):
        x = gen_state(rng)
        for tag in ("QSW", "TNW", "qsw", "tnw"):
            m = to_local(tag, np.array(x), expanded=False)
            out.count(key=("local", tag, tuple(x)), kind="to_local-" + tag.upper(), state=state_kind(x))
            inp = {"frame": tag, "state": x}
            if not np.all(np.isfinite(m)):
                out.fail("to_local-nonfinite", "to_local returns non-finite entries for a state with r x v != 0", inp, observed=m.tolist())
                continue
            if not np.allclose(m @ m.T, np.identity(3), rtol=0, atol=1e-12):
                out.fail("to_local-not-orthonormal-" + tag.upper(), "M M^T differs from the identity", inp, observed=(m @ m.T).tolist())
            if abs(np.linalg.det(m) - 1) > 1e-12:
                out.fail("to_local-det-" + tag.upper(), "det M != 1", inp, observed=float(np.linalg.det(m)), expected=1.0)
            exp = np.array(axes_expected(tag.upper(), x))
            if not np.allclose(m, exp, rtol=0, atol=1e-12):
                out.fail("to_local-axes-" + tag.upper(), "rows are not (radial|velocity direction, w x first, w)", inp, observed=m.tolist(), expected=exp.tolist())
            m6 = to_local(tag, np.array(x))
            e6 = np.zeros((6, 6)); e6[:3, :3] = m; e6[3:, 3:] = m
            if not np.array_equal(m6, e6):
                out.fail("to_local-expanded", "expanded matrix is not diag(M, M)", inp, observed=m6.tolist())
    # unknown tag is rejected
    try:
        to_local("LVLH", np.array(gen_state(rng)))
        out.fail("to_local-unknown-tag", "unknown frame tag accepted", {"frame": "LVLH"})
    except ValueError:
        pass
    out.count(key="unknown-tag", kind="to_local-unknown")


def oracle_projection(out, rng, N):
    """ImpulsiveMan.dv / ContinuousMan.accel: stated magnitude along the stated axes"""
    import numpy as np
    from beyond.dates import Date, timedelta
    from beyond.orbits.man import ImpulsiveMan, ContinuousMan
    d = Date(2020, 5, 24)
    for _ in range(N):
        x = gen_state(rng)
        dv = gen_vec(rng)
        tag = rng.choice(["QSW", "TNW", "qsw", "Tnw", None, "EME2000", None])
        orb = mk_orbit(x)
        up = tag.upper() if isinstance(tag, str) else tag
        if up in ("QSW", "TNW"):
            ax = np.array(axes_expected(up, x))
            exp = ax.T @ np.array(dv)
        else:
            exp = np.array(dv)
        mag = norm(dv)
        x2 = gen_state(rng)
        orb2 = mk_orbit(x2)
        for kind in ("impulse", "accel", "accel-from-dv"):
            if kind == "impulse":
                man = ImpulsiveMan(d, dv, frame=tag)
                fresh = lambda: ImpulsiveMan(d, dv, frame=tag)   # noqa: E731
                call = lambda m, o: m.dv(o)                      # noqa: E731
                ref, refmag = exp, mag
            elif kind == "accel":
                man = ContinuousMan(d, timedelta(seconds=120), accel=dv, frame=tag)
                fresh = lambda: ContinuousMan(d, timedelta(seconds=120), accel=dv, frame=tag)   # noqa: E731
                call = lambda m, o: m.accel(o)                   # noqa: E731
                ref, refmag = exp, mag
            else:
                dur = rng.choice([1.0, 60.0, 90.5, 3600.0])
                pos_ = rng.choice(["start", "stop", "median"])
                man = ContinuousMan(d, timedelta(seconds=dur), dv=dv, frame=tag, date_pos=pos_)
                fresh = lambda dur=dur, pos_=pos_: ContinuousMan(d, timedelta(seconds=dur), dv=dv, frame=tag, date_pos=pos_)   # noqa: E731
                call = lambda m, o: m.accel(o)                   # noqa: E731
                ref, refmag = exp / dur, mag / dur
            got = call(man, orb)
            out.count(key=(kind, str(tag), tuple(x), tuple(dv)), kind=f"{kind}-{up}", nontrivial=mag > 0)
            inp = {"kind": kind, "frame": tag, "state": x, "vector": dv}
            if not np.all(np.isfinite(got)):
                out.fail(f"projection-nonfinite-{kind}", "non-finite projected vector", inp, observed=got.tolist())
            elif abs(np.linalg.norm(got) - refmag) > 1e-12 * refmag + 1e-300:
                out.fail(f"projection-magnitude-{kind}-{up}", "projected vector does not have the stated magnitude", inp,
                         observed=float(np.linalg.norm(got)), expected=refmag)
            elif not np.allclose(got, ref, rtol=0, atol=1e-12 * refmag + 1e-300):
                out.fail(f"projection-direction-{kind}-{up}", "projected vector is not along the stated axes", inp, observed=got.tolist(), expected=ref.tolist())
            # history: the same object on another state, then on the first again, against a freshly built object
            got2, want2 = call(man, orb2), call(fresh(), orb2)
            got3 = call(man, orb)
            out.count(key=(kind, str(tag), tuple(x), tuple(x2), tuple(dv), "hist"), kind=f"{kind}-{up}-second-state", nontrivial=mag > 0)
            if not np.array_equal(got2, want2) or not np.array_equal(got3, got):
                out.fail(f"projection-history-{kind}-{up}", "a maneuver object evaluated on a second state does not answer like a freshly built one "
                         "(something of the first evaluation survives in the object)", dict(inp, second_state=x2), observed=np.array(got2).tolist(), expected=np.array(want2).tolist())
            # the argument may be given in any form and is left as it was
            form = rng.choice(["keplerian", "spherical", "cartesian"])
            if norm(x[:3]) > 1e6 and (form != "keplerian" or (state_kind(x).startswith("elliptic") and norm(x[3:]) ** 2 * norm(x[:3]) / MU > 0.3)):
                arg = orb.copy(form=form)
                b_form, b_arr, b_frame = arg.form.name, np.array(arg).tobytes(), str(arg.frame)
                gotf = call(fresh(), arg)
                out.count(key=(kind, str(tag), tuple(x), tuple(dv), form), kind=f"{kind}-{up}-arg-{form}", nontrivial=mag > 0)
                if (arg.form.name, np.array(arg).tobytes(), str(arg.frame)) != (b_form, b_arr, b_frame):
                    out.fail(f"projection-argument-modified-{kind}", "the orbit handed to a maneuver is modified by the call", dict(inp, form=form),
                             observed=[arg.form.name, str(arg.frame)], expected=[b_form, b_frame])
                elif not np.allclose(gotf, ref, rtol=0, atol=1e-7 * refmag + 1e-300):
                    out.fail(f"projection-argument-form-{kind}", "the projected vector depends on the form the orbit is given in", dict(inp, form=form),
                             observed=np.array(gotf).tolist(), expected=ref.tolist())


def forget_frames(prefix="C17"):
    """test isolation: take every frame this module registered (names starting with `prefix`) out of the library's global
    registries — the graph of orientations, the graph of centres, the methods set on the two classes, `frames.dynamic` — and
    rebuild the routing tables of what remains.  The library only ever adds nodes (open finding
    C17-reregistered-under-other-parent); without this the graphs would grow with every session of a run."""
    try:
        from beyond.frames import orient, center, frames

        def component(root):
            seen, todo = [], [root]
            while todo:
                n = todo.pop()
                if n in seen:
                    continue
                seen.append(n)
                todo += list(n.neighbors)
            return seen
        for root in (orient.EME2000, center.Earth.node):
            for n in component(root):
                for nb in list(n.neighbors):
                    if nb.name.startswith(prefix):
                        del n.neighbors[nb]
            rest = component(root)
            for n in rest:
                n.routes = {}
            for _ in range(len(rest) + 1):
                root._update()
        for cls in (orient.Orientation, center.Center):
            for k in list(vars(cls)):
                if k.startswith(prefix):
                    delattr(cls, k)
        for k in list(frames.dynamic):
            if k.startswith(prefix):
                del frames.dynamic[k]
        getattr(orient.LocalOrbitalOrientation, "_attached", {}).clear()
    except Exception:   # noqa: BLE001  (a changed library may not have these registries: the sessions then run on what there is)
        pass


_FRAME_SEQ = [0]


def gen_ref_orbit(rng, d0):
    """reference of an attached frame: an Orbit with the Kepler propagator (moving) or a bare StateVector (fixed)"""
    from beyond.propagators.kepler import Kepler
    kep = [rng.choice([6.8e6, 7.2e6, 2.66e7, 4.2164e7]) * rng.uniform(0.98, 1.02), rng.uniform(0, 0.6), rng.uniform(0.01, 3.1),
           rng.uniform(0, 6.28), rng.uniform(0, 6.28), rng.uniform(0, 6.28)]
    return kep, mk_orbit(kep, "keplerian", Kepler(), d0)


def oracle_orbit_frame(out, rng, N):
    """orbit2frame sessions: a name is registered, used at recurring dates, registered again (exists_warning=False) from another
    orbit and/or with another orientation, used at the same dates again.  After every registration: the attached orbit is at
    the origin, the axes are those of the *current* reference orbit (100 m along each axis reads (100, 0, 0) ...), coordinates
    are M (x - x_ref), and the conversion round-trips through EME2000 / MOD / ITRF."""
    import numpy as np
    from beyond.dates import Date, timedelta
    from beyond.frames.frames import orbit2frame
    from beyond.orbits import StateVector
    from beyond.propagators.kepler import Kepler
    d0 = Date(2020, 5, 24)
    for _ in range(N):
        forget_frames()
        _FRAME_SEQ[0] += 1
        name = f"C17F{_FRAME_SEQ[0] % 7}"
        dates = [d0 + timedelta(seconds=t) for t in (0.0, q6(rng.uniform(-3000, 3000)), q6(rng.uniform(0, 86400)))]
        nreg = rng.choice([2, 3])
        prev = None
        for k in range(nreg):
            kep, ref = gen_ref_orbit(rng, d0)
            if prev is not None and rng.random() < 0.4:
                # the same orbit after a small plane change / the same orbit with the other orientation
                kep = list(prev); kep[2] = min(3.1, kep[2] + rng.choice([0.0, 0.035])); ref = mk_orbit(kep, "keplerian", Kepler(), d0)
            ori = rng.choice(["QSW", "TNW", "QSW", "TNW", None])
            fixed = rng.random() < 0.25
            if fixed:
                ref = StateVector(list(map(float, ref.copy(form="cartesian"))), d0, "cartesian", "EME2000")
            orbit2frame(name, ref, orientation=ori, exists_warning=False)
            prev = kep
            tagfam = f"{ori}" + ("-reregistered" if k else "")
            for date in dates:
                refc = (ref if fixed else ref.propagate(date)).copy(form="cartesian")
                rc = np.array(list(map(float, refc)))
                scale_r, scale_v = np.linalg.norm(rc[:3]), np.linalg.norm(rc[3:])
                inp = {"frame": name, "registration": k, "ref_kep": kep, "orientation": ori, "fixed_statevector": fixed, "date": str(date)}
                at0 = np.array(mk_orbit(list(rc), "cartesian", None, date).copy(frame=name))
                out.count(key=("origin", tuple(kep), str(date), ori, k), kind=f"orbit-frame-origin-{ori}", registration=k)
                if not (np.all(np.abs(at0[:3]) <= 1e-9 * scale_r) and np.all(np.abs(at0[3:]) <= 1e-9 * scale_v)):
                    out.fail(f"orbit-frame-origin-{tagfam}", "the orbit a frame is attached to is not at that frame's origin", inp, observed=at0.tolist(), expected=[0] * 6)
                # axes against their definition: a point 100 m along axis k of the current reference orbit
                m = np.array(axes_expected(ori, list(rc))) if ori else np.identity(3)
                for ax in range(3):
                    p = rc.copy(); p[:3] += 100.0 * m[ax]
                    got = np.array(mk_orbit(list(p), "cartesian", None, date).copy(frame=name))[:3]
                    exp = np.zeros(3); exp[ax] = 100.0
                    out.count(key=("axis", tuple(kep), str(date), ori, k, ax), kind=f"orbit-frame-axis-{ori}", registration=k)
                    if np.abs(got - exp).max() > 1e-9 * scale_r + 1e-6:
                        out.fail(f"orbit-frame-axes-{tagfam}", "100 m along an axis of the reference orbit's local frame does not read 100 m on that axis of the attached frame",
                                 dict(inp, axis=ax), observed=got.tolist(), expected=exp.tolist())
                x = rc + np.array([rng.uniform(-1, 1) * 10 ** rng.uniform(0, 6) for _ in range(3)] + [rng.uniform(-1, 1) * 10 ** rng.uniform(-3, 2) for _ in range(3)])
                parent = rng.choice(["EME2000", "EME2000", "MOD", "ITRF"])
                o = mk_orbit(list(x), "cartesian", None, date)
                if parent != "EME2000":
                    o = o.copy(frame=parent)
                loc = o.copy(frame=name)
                back = np.array(loc.copy(frame=parent))
                out.count(key=("roundtrip", tuple(kep), str(date), ori, parent, k), kind=f"orbit-frame-roundtrip-{ori}-{parent}", registration=k)
                oo = np.array(o)
                if not (np.allclose(back[:3], oo[:3], rtol=0, atol=1e-9 * scale_r) and np.allclose(back[3:], oo[3:], rtol=0, atol=1e-9 * scale_v + 1e-9)):
                    out.fail(f"orbit-frame-roundtrip-{tagfam}", "parent -> attached frame -> parent changes the state", dict(inp, parent=parent, state=oo.tolist()),
                             observed=back.tolist(), expected=oo.tolist())
                if parent == "EME2000":
                    exp = np.concatenate([m @ (oo[:3] - rc[:3]), m @ (oo[3:] - rc[3:])])
                    if not (np.allclose(np.array(loc)[:3], exp[:3], rtol=0, atol=1e-9 * scale_r) and np.allclose(np.array(loc)[3:], exp[3:], rtol=0, atol=1e-9 * scale_v + 1e-9)):
                        out.fail(f"orbit-frame-axes-{tagfam}", "coordinates in the attached frame are not M (x - x_ref) for the current reference orbit", dict(inp, state=oo.tolist()),
                                 observed=np.array(loc).tolist(), expected=exp.tolist())


def mk_num(kep, step, method, bodies=True, form="keplerian"):
    from beyond.dates import Date, timedelta
    from beyond.propagators.keplernum import KeplerNum
    from beyond.env.solarsystem import get_body
    prop = KeplerNum(timedelta(seconds=step), get_body("Earth") if bodies else [], method=method)
    return mk_orbit(kep, form, prop, Date(2020, 5, 24))


def grid(orb, stop_s):
    from beyond.dates import timedelta
    return list(orb.iter(stop=timedelta(seconds=stop_s)))


def q6(x):
    """times are kept on whole milliseconds: Date compares float MJD (resolution ~0.6 us, property C03)"""
    return round(x * 1e3) / 1e3


def gen_impulses(rng, step, nsteps, fixed):
    """maneuver offsets (s) strictly inside (0, nsteps*step): on the grid, off it, several per step"""
    k = rng.choice([1, 1, 2, 3, 4])
    span = step * nsteps
    ts = []
    for _ in range(k):
        c = rng.random()
        if c < 0.3:
            t = step * rng.randrange(1, nsteps)            # on the grid (fixed-step methods)
        elif c < 0.4 and ts:
            t = ts[-1] + rng.choice([0.0, 1e-3, 0.5])       # same date / same step as the previous one
        elif c < 0.5:
            t = step * rng.randrange(1, nsteps) + rng.choice([-1e-3, 1e-3])
        else:
            t = q6(rng.uniform(0, span))
        t = q6(t)
        if 0 < t < span:
            ts.append(t)
    if not ts:
        ts = [q6(span / 2)]
    return ts


def oracle_impulses(out, rng, N):
    """KeplerNum: every impulse changes the velocity by its projected dv exactly once, at the end of the integration step
    (t_j, t_j+1] that contains its date; nothing else changes.  Checked step by step against a maneuver-free step from the
    same state."""
    import numpy as np
    from beyond.dates import Date, timedelta
    from beyond.orbits.man import ImpulsiveMan, KeplerianImpulsiveMan
    d0 = Date(2020, 5, 24)
    for _ in range(N):
        method = rng.choice(["rk4", "rk4", "euler", "dopri54", "rkf54"])
        step = rng.choice([30.0, 60.0, 120.0])
        nsteps = rng.choice([8, 12, 20])
        kep = [rng.choice([6.9e6, 7.5e6, 1.2e7, 2.66e7]), rng.uniform(0, 0.3), rng.uniform(0.05, 3.0), rng.uniform(0, 6.28), rng.uniform(0, 6.28), rng.uniform(0, 6.28)]
        ts = gen_impulses(rng, step, nsteps, method in ("rk4", "euler"))
        mans = []
        for t in ts:
            tag = rng.choice(["QSW", "TNW", None])
            mans.append((t, tag, gen_vec(rng)))
        orb = mk_num(kep, step, method)
        orb.maneuvers = [ImpulsiveMan(d0 + timedelta(seconds=t), dv, frame=tag) for t, tag, dv in mans]
        inp = {"kep": kep, "step": step, "method": method, "nsteps": nsteps, "maneuvers": mans}
        try:
            pts = grid(orb, step * nsteps)
        except Exception as e:  # noqa: BLE001
            out.fail(f"impulse-propagation-raises-{method}", f"propagation with impulsive maneuvers raises {type(e).__name__}", inp, observed=repr(e)[:200])
            continue
        applied = [0] * len(mans)
        ok = True
        for a, b in zip(pts[:-1], pts[1:]):
            ta, tb = (a.date - d0).total_seconds(), (b.date - d0).total_seconds()
            free = mk_orbit(list(map(float, a)), "cartesian", orb.propagator.copy(), a.date)
            free.propagator.tol = orb.propagator.tol
            fpts = list(free.iter(stop=b.date))
            fb = fpts[1] if len(fpts) > 1 else None
            if fb is None or fb.date != b.date:
                # adaptive step from the same state must reproduce the same step
                out.fail(f"impulse-step-mismatch-{method}", "a maneuver-free step from the same state has a different length", dict(inp, t=ta),
                         observed=None if fb is None else (fb.date - d0).total_seconds(), expected=tb)
                ok = False
                break
            exp = np.zeros(3)
            fbx = list(map(float, fb))
            cur = list(fbx)      # impulses of one step are applied one after the other, each in the axes of the state it finds
            for i, (t, tag, dv) in enumerate(mans):
                if ta < t <= tb:
                    applied[i] += 1
                    d = (np.array(axes_expected(tag, cur)).T @ np.array(dv)) if tag else np.array(dv)
                    exp += d
                    cur = cur[:3] + list(np.array(cur[3:]) + d)
            jump = np.array(b)[3:] - np.array(fb)[3:]
            dpos = np.array(b)[:3] - np.array(fb)[:3]
            tol = 1e-9 * (np.linalg.norm(exp) + 1e-3 * np.linalg.norm(fbx[3:]))
            if np.abs(dpos).max() > 1e-7 or not np.allclose(jump, exp, rtol=0, atol=tol):
                fam = "impulse-missed" if np.linalg.norm(exp) > 0 and np.linalg.norm(jump) < 0.5 * np.linalg.norm(exp) else \
                      "impulse-spurious" if np.linalg.norm(exp) == 0 else "impulse-wrong-dv"
                out.fail(f"{fam}-{method}", "velocity jump over an integration step differs from the sum of the impulses dated in (t, t+h]",
                         dict(inp, t=ta, t_next=tb), observed=jump.tolist(), expected=exp.tolist())
                ok = False
                break
        # with an adaptive method the last yielded point can lie before the requested stop (the step that crosses it is not
        # given out with real steps): only maneuvers dated up to the last yielded point are claimed
        t_last = (pts[-1].date - d0).total_seconds()
        if ok and any(c != 1 for (t, _, _), c in zip(mans, applied) if t <= t_last):
            out.fail(f"impulse-window-count-{method}", "a maneuver date strictly inside the span falls in no / several integration windows", inp, observed=applied)
        on = sum(1 for t, _, _ in mans if abs(t / step - round(t / step)) < 1e-9)
        out.count(key=("imp", method, step, tuple(ts)), kind=f"impulse-{method}", n_man=len(mans), on_grid=on)
    out.sample({"impulse check": "per integration step: v(with maneuvers) - v(maneuver-free step from the same state) == sum of projected dv dated in (t, t+h]"})


def oracle_continuous(out, rng, N):
    """delivered delta-v of a continuous burn, measured in a gravity-free KeplerNum (bodies=[]): the velocity change over the
    span is the integral of the thrust.  Exact when the burn is a whole number of fixed steps; otherwise bounded by one
    step's worth of thrust (stage sampling of the on/off indicator)."""
    import numpy as np
    from beyond.dates import Date, timedelta
    from beyond.orbits.man import ContinuousMan
    d0 = Date(2020, 5, 24)
    for _ in range(N):
        method = rng.choice(["rk4", "rk4", "euler", "dopri54", "rkf54"])
        step = rng.choice([30.0, 60.0, 120.0])
        x = [7e6, 1e5, 2e5] + [v * 7000 for v in rand_unit(rng)]
        tag = rng.choice(["TNW-T", None, None])
        c = rng.random()
        if c < 0.4:
            dur = step * rng.randrange(1, 15); kind = "whole-steps"
        elif c < 0.8:
            dur = q6(rng.uniform(1.0, 15.0) * step); kind = "long"
        else:
            dur = q6(rng.uniform(0.02, 1.0) * step); kind = "shorter-than-step"
        start = rng.choice([step * rng.randrange(1, 6), q6(rng.uniform(0.01, 6) * step), 0.0 if kind == "whole-steps" else step * rng.randrange(1, 6)])
        on_grid = abs(start / step - round(start / step)) < 1e-12
        acc = [rng.uniform(1e-4, 5e-3), 0.0, 0.0] if tag else [v * rng.uniform(1e-4, 5e-3) for v in rand_unit(rng)]
        dvv = [a * dur for a in acc]
        orb = mk_num(x, step, method, bodies=False, form="cartesian")
        by_dv = rng.random() < 0.5
        orb.maneuvers = [ContinuousMan(d0 + timedelta(seconds=start), timedelta(seconds=dur), frame="TNW" if tag else None,
                                       **({"dv": dvv} if by_dv else {"accel": acc}))]
        span = start + dur + 3 * step
        inp = {"state": x, "step": step, "method": method, "start": start, "duration": dur, "accel": acc, "frame": "TNW" if tag else None, "by_dv": by_dv}
        try:
            pts = grid(orb, span)
        except Exception as e:  # noqa: BLE001
            out.fail(f"continuous-raises-{method}", f"propagation with a continuous maneuver raises {type(e).__name__}", inp, observed=repr(e)[:200])
            continue
        v0, v1 = np.array(pts[0])[3:], np.array(pts[-1])[3:]
        if tag:
            delivered = np.linalg.norm(v1) - np.linalg.norm(v0)
            dirs_ok = np.allclose(v1 / np.linalg.norm(v1), v0 / np.linalg.norm(v0), atol=1e-12)
        else:
            delivered = float((v1 - v0) @ np.array(acc) / norm(acc))
            dirs_ok = np.allclose(np.cross(v1 - v0, acc), 0, atol=1e-9 * norm(acc) * (abs(delivered) + 1))
        want = norm(acc) * dur
        rel = abs(delivered - want) / want
        fixed = method in ("rk4", "euler")
        out.count(key=("cont", method, step, start, dur), kind=f"continuous-{method}-{kind}", on_grid=on_grid)
        closing = float(sum(b for b, c in zip(orb.propagator.butcher["b"], orb.propagator.butcher["c"]) if c == 1))
        if not dirs_ok:
            out.fail(f"continuous-direction-{method}", "thrust is not delivered along the stated axis", inp, observed=(v1 - v0).tolist())
        elif fixed and kind == "whole-steps" and start == 0 and closing > 0 and rel > 1e-9:
            # theorem first_date_burn_thrust_time: the current code misses exactly the closing stages of the last step
            want0 = norm(acc) * (dur - closing * step)
            if abs(delivered - want0) > 1e-9 * want:
                out.fail(f"continuous-first-date-{method}", "a burn lasting whole steps from the first date of the propagation delivers neither its full delta-v nor the full one minus "
                         "the closing-stage weight of one step", inp, observed=float(delivered), expected=want)
            else:
                out.fail("continuous-burn-starts-on-first-date", "a continuous burn that starts on the first date of the propagation misses the stage dated at the end of its last step "
                         f"(weight {closing:.4f} of one step)", inp, observed=float(delivered), expected=want, rel_error=rel)
        elif fixed and kind == "whole-steps" and rel > 1e-9:
            out.fail(f"continuous-whole-steps-{method}", "a burn lasting a whole number of fixed steps does not deliver its full delta-v", inp, observed=float(delivered), expected=want)
        elif rel > step / dur + 1e-9:
            out.fail(f"continuous-quadrature-bound-{method}", "delivered delta-v is off by more than one step's worth of thrust", inp, observed=float(delivered), expected=want)
        elif rel > 1e-3:
            out.tally(f"continuous-rel-error>1e-3 ({kind})")
            if True:
                out.fail("continuous-burn-not-aligned-with-steps",
                         "a continuous burn whose start/stop do not fall on integration steps delivers a delta-v off by more than 1e-3 (stage sampling of the on/off switch)",
                         inp, observed=float(delivered), expected=want, rel_error=rel)


def oracle_windows(out, rng, N):
    """the two windows at their boundaries (millisecond granularity): impulse in (date, date+step], thrust on [start, stop)"""
    from beyond.dates import Date, timedelta
    from beyond.orbits.man import ImpulsiveMan, ContinuousMan
    d0 = Date(2020, 5, 24)
    for _ in range(N):
        t = rng.randrange(0, 86_400_000)
        h = rng.choice([1, 1000, 60000, rng.randrange(2, 200000)])
        date = ms_date(d0, t)
        step = timedelta(milliseconds=h)
        for off, want in ((0, False), (1, True), (h, True), (h + 1, False), (-1, False), (h // 2 + 1, True)):
            got = ImpulsiveMan(ms_date(d0, t + off), [1, 0, 0]).check(date, step)
            out.count(key=("icheck", t, h, off), kind="impulse-check", expected=want)
            if bool(got) != want:
                out.fail("impulse-check-boundary", "ImpulsiveMan.check(date, step) is not date < t_m <= date + step",
                         {"date_ms": t, "step_ms": h, "man_ms": t + off}, observed=bool(got), expected=want)
        hh = 2 * ((h + 1) // 2)       # an even number of ms, so that the middle is a whole ms
        pos_ = rng.choice(["start", "stop", "median", "Start", "MEDIAN"])
        man = ContinuousMan(date, timedelta(milliseconds=hh), accel=[1e-3, 0, 0], date_pos=pos_)
        s_ms = t - {"start": 0, "stop": hh, "median": hh // 2}[pos_.lower()]      # what date_pos means
        for off, want in ((0, True), (-1, False), (hh - 1, True), (hh, False), (hh + 1, False), (hh // 2, True)):
            got = man.check(ms_date(d0, s_ms + off))
            out.count(key=("ccheck", s_ms, hh, off, pos_), kind="thrust-check-" + pos_.lower(), expected=want)
            if bool(got) != want:
                out.fail(f"thrust-check-boundary-{pos_.lower()}", "ContinuousMan.check(date) is not start <= date < stop with start placed as date_pos says",
                         {"date_ms": t, "duration_ms": hh, "checked_ms": s_ms + off, "date_pos": pos_}, observed=bool(got), expected=want)
        edges = [round((v - d0).total_seconds() * 1000) for v in (man.start, man.median, man.stop)]
        if edges != [s_ms, s_ms + hh // 2, s_ms + hh]:
            out.fail(f"thrust-window-edges-{pos_.lower()}", "start / median / stop of a ContinuousMan are not where date_pos and the duration put them",
                     {"date_ms": t, "duration_ms": hh, "date_pos": pos_}, observed=edges, expected=[s_ms, s_ms + hh // 2, s_ms + hh])


def stable_dkep2dv(v, a, i, da, di, dO, mu=MU):
    """the formulas of dkep2dv evaluated without the law-of-cosines cancellation"""
    dv_a = mu * da / (2 * v * a ** 2)
    dangle = math.sqrt(di ** 2 + dO ** 2 * math.sin(i) ** 2)
    vf = v + dv_a
    return [vf * math.cos(dangle) - v, 0.0, abs(vf * math.sin(dangle))]


def gen_incr(rng):
    """(da, di, dOmega): single and combined increments, metres / micro-radians up to large"""
    c = rng.random()
    da = rng.choice([-1, 1]) * 10 ** rng.uniform(-3, 6.3)
    di = rng.choice([-1, 1]) * 10 ** rng.uniform(-7, -0.5)
    dO = rng.choice([-1, 1]) * 10 ** rng.uniform(-7, -0.5)
    if c < 0.3:
        return da, 0.0, 0.0
    if c < 0.45:
        return 0.0, di, 0.0
    if c < 0.6:
        return 0.0, 0.0, dO
    if c < 0.75:
        return 0.0, di, dO
    if c < 0.77:
        return 0.0, 0.0, 0.0
    return da, di, dO


def apply_dv(orbc, dv_tnw):
    import numpy as np
    x = list(map(float, orbc))
    m = np.array(axes_expected("TNW", x))
    y = np.array(x)
    y[3:] += m.T @ np.array(dv_tnw)
    return mk_orbit(list(y), "cartesian", None, orbc.date)


def wrap(a):
    return (a + math.pi) % (2 * math.pi) - math.pi


def oracle_dkep(out, rng, N):
    """dkep2dv: finite; agrees with its own formulas evaluated stably; realises da (anywhere on the orbit) and (di, dOmega)
    (at the argument of latitude dkep2aol prescribes, at an apsis) to first order"""
    import numpy as np
    from beyond.orbits.man import dkep2dv, dkep2aol
    for _ in range(N):
        da, di, dO = gen_incr(rng)
        a = rng.choice([6.9e6, 7.2e6, 1.2e7, 2.66e7, 4.2164e7]) * rng.uniform(0.97, 1.03)
        e = rng.choice([0.0005, 0.01, 0.1, 0.4, 0.7])
        inc = rng.uniform(0.05, 3.0)
        raan = rng.uniform(0, 6.28)
        plane = (di != 0 or dO != 0)
        if plane:
            # place the satellite at the ideal argument of latitude, at an apsis (flight-path angle 0)
            k0 = mk_orbit([a, e, inc, raan, 0.0, 0.0], "keplerian")
            aol = float(dkep2aol(k0, di, dO))
            nu = rng.choice([0.0, math.pi])
            kep = [a, e, inc, raan, (aol - nu) % (2 * math.pi), nu]
        else:
            kep = [a, e, inc, raan, rng.uniform(0, 6.28), rng.uniform(0, 6.28)]
        if a * (1 - e) < 6.5e6:
            kep[1] = e = 0.01
        orbk = mk_orbit(kep, "keplerian")
        orbc = orbk.copy(form="cartesian")
        dv = np.array(dkep2dv(orbc, da=da, di=di, dOmega=dO), dtype=float)
        v = float(orbc.infos.v)
        sdv = stable_dkep2dv(v, float(orbc.infos.kep.a), float(orbc.infos.kep.i), da, di, dO, mu=float(orbc.frame.center.body.mu))
        inp = {"kep": kep, "da": da, "di": di, "dOmega": dO}
        mag = norm(sdv)
        out.count(key=("dkep", tuple(kep), da, di, dO), kind="dkep2dv-" + ("a" if da else "") + ("i" if di else "") + ("O" if dO else ""), nontrivial=bool(da or di or dO))
        # (a) dv_t and the zero normal component do not go through the law-of-cosines detour: tight comparison
        eps = 2.3e-16
        if dv[1] != 0 or not math.isfinite(dv[0]) or abs(dv[0] - sdv[0]) > 64 * eps * v + 1e-9 * abs(sdv[0]):
            out.fail("dkep2dv-formula-dv_t", "dkep2dv: tangential / normal component differs from v_final cos(dangle) - v, 0", inp, observed=dv.tolist(), expected=sdv)
            continue
        # (b) dv_w = dv sqrt(1 - ratio^2): a discrepancy is attributed to the known cancellation only if the rounding of
        #     dv^2 = v^2 + v_f^2 - 2 v v_f cos (relative error delta ~ 8 eps v^2 / dv^2) can explain it
        bad = (not math.isfinite(dv[2])) or abs(dv[2] - sdv[2]) > 1e-6 * mag + 1e-12
        if bad:
            if mag == 0:
                explained = True                                   # 0 / 0
            else:
                delta = 8 * eps * v * v / (mag * mag)
                one_minus = (sdv[2] / mag) ** 2                      # exact 1 - ratio^2
                if not math.isfinite(dv[2]):
                    explained = one_minus <= 100 * delta             # ratio rounded above 1
                elif dv[2] == 0:
                    explained = one_minus <= 2.2 * (1e-5 + 1e-8) + 100 * delta   # isclose(ratio, 1) shortcut
                else:
                    explained = abs(dv[2] - sdv[2]) <= 4 * mag * math.sqrt(delta)
            what = ("returns a non-finite delta-v" if not math.isfinite(dv[2]) else
                    "an out-of-plane component appears although no plane change is requested" if not plane else
                    "the requested plane change is dropped (isclose(ratio, 1) shortcut)" if dv[2] == 0 else
                    "out-of-plane component differs from |v_final sin(dangle)|")
            out.fail("dkep2dv-alkashi-cancellation" if explained else "dkep2dv-formula-dv_w", "dkep2dv: " + what, inp, observed=dv.tolist(), expected=sdv)
            continue
        # a Keplerian continuous maneuver accumulates the same delta-v over its duration
        from beyond.orbits.man import KeplerianContinuousMan
        from beyond.dates import Date, timedelta
        kdur = rng.choice([60.0, 90.5, 0.75, 172800.25])
        kacc = np.array(KeplerianContinuousMan(Date(2020, 5, 24), timedelta(seconds=kdur), da=da, di=di, dOmega=dO).accel(orbc), dtype=float)
        out.count(key=("kcont", tuple(kep), da, di, dO, kdur), kind="kep-continuous", duration=kdur)
        if abs(np.linalg.norm(kacc) * kdur - np.linalg.norm(dv)) > 1e-9 * np.linalg.norm(dv) + 1e-300:
            out.fail("kep-continuous-magnitude", "KeplerianContinuousMan: |accel| x duration is not |dkep2dv|", dict(inp, duration=kdur), observed=float(np.linalg.norm(kacc) * kdur),
                     expected=float(np.linalg.norm(dv)))
        # first-order realisation
        new = apply_dv(orbc, dv).copy(form="keplerian")
        old = orbc.copy(form="keplerian")
        d_a, d_i, d_O = float(new.a - old.a), float(new.i - old.i), wrap(float(new.Omega - old.Omega))
        ang = math.sqrt(di * di + dO * dO)
        ra = abs(da) / a
        # second-order remainders: da^2/a (vis-viva curvature), a*angle^2 (rotation shortens the tangential part), cross terms
        tol_a = 20 * a * (ra * ra + ang * ang + ra * ang) / (1 - e) ** 2 + 1e-9 * abs(da) + 1e-6
        tol_ang = 20 * (ra + ang) * (ang) / min(1.0, math.sin(inc)) / (1 - e) ** 2 + 1e-9 * ang + 1e-12
        if abs(d_a - da) > tol_a:
            out.fail("dkep2dv-first-order-a", "realised semi-major axis increment differs from the requested one beyond second order", inp, observed=d_a, expected=da, tol=tol_a)
        elif plane and (abs(d_i - di) > tol_ang or abs(d_O - dO) > tol_ang / min(1.0, math.sin(inc))):
            out.fail("dkep2dv-first-order-plane", "realised (di, dOmega) differ from the requested ones beyond second order", inp, observed=[d_i, d_O], expected=[di, dO], tol=tol_ang)


def gen_kep_state(rng):
    """elliptic Keplerian elements LEO..GEO, perigee above 6500 km"""
    a = rng.choice([6.9e6, 7.2e6, 1.2e7, 2.66e7, 4.2164e7]) * rng.uniform(0.97, 1.03)
    e = rng.choice([0.0005, 0.01, 0.1, 0.4])
    if a * (1 - e) < 6.5e6:
        e = 0.01
    return [a, e, rng.uniform(0.05, 3.0), rng.uniform(0, 6.28), rng.uniform(0, 6.28), rng.uniform(0, 6.28)]


MAN_KINDS = ["kep-continuous", "kep-impulsive", "continuous-accel", "continuous-dv", "impulsive"]


def mk_man(kind, args, date, dur):
    """a NEW maneuver object from the recorded constructor arguments"""
    from beyond.dates import timedelta
    from beyond.orbits.man import ImpulsiveMan, ContinuousMan, KeplerianImpulsiveMan, KeplerianContinuousMan
    if kind == "kep-continuous":
        return KeplerianContinuousMan(date, timedelta(seconds=dur), da=args[0], di=args[1], dOmega=args[2])
    if kind == "kep-impulsive":
        return KeplerianImpulsiveMan(date, da=args[0], di=args[1], dOmega=args[2])
    if kind == "continuous-accel":
        return ContinuousMan(date, timedelta(seconds=dur), accel=list(args[:3]), frame=args[3])
    if kind == "continuous-dv":
        return ContinuousMan(date, timedelta(seconds=dur), dv=list(args[:3]), frame=args[3])
    return ImpulsiveMan(date, list(args[:3]), frame=args[3])


def gen_man_args(rng, kind):
    if kind.startswith("kep"):
        return list(gen_incr(rng))
    return gen_vec(rng) + [rng.choice(["TNW", "QSW", "tnw", None])]


def man_eval(man, orb):
    import numpy as np
    return np.array(man.accel(orb) if hasattr(man, "accel") else man.dv(orb), dtype=float)


def same_vec(a, b):
    import numpy as np
    return bool(np.all((a == b) | (np.isnan(a) & np.isnan(b))))


def man_reuse_eval(kind, args, dur, states):
    """one object evaluated on the states in turn vs a new object per state -> index of the first difference"""
    from beyond.dates import Date
    d0 = Date(2020, 5, 24)
    shared = mk_man(kind, args, d0, dur)
    for k, (form, x) in enumerate(states):
        orb = mk_orbit(x, form).copy(form="cartesian")
        got, want = man_eval(shared, orb), man_eval(mk_man(kind, args, d0, dur), orb)
        if not same_vec(got, want):
            return k, got.tolist(), want.tolist()
    return None


def man_reuse_propagate(kind, args, start, dur, step, method, keps, span, how):
    """the same maneuver object in the maneuver lists of several orbits propagated one after the other, vs a new object per
    orbit -> (index of the orbit, final state with the shared object, final state with a new one, initial a, final a) per orbit"""
    import numpy as np
    from beyond.dates import Date, timedelta
    d0 = Date(2020, 5, 24)
    shared = mk_man(kind, args, d0 + timedelta(seconds=start), dur)
    res = []
    first = None
    for k, kep in enumerate(keps):
        ends = []
        for man in (shared, mk_man(kind, args, d0 + timedelta(seconds=start), dur)):
            if how == "copy" and first is not None and man is shared:
                orb = first.copy()            # a copy shares the maneuver objects of the original
                orb[:] = kep                  # ... and is given another state (orbit update, same plan)
            else:
                orb = mk_num(kep, step, method)
                orb.maneuvers = [man]
                if first is None and man is shared:
                    first = orb.copy()
            ends.append(orb.propagate(timedelta(seconds=span)))
        res.append((k, np.array(ends[0], dtype=float), np.array(ends[1], dtype=float), kep[0], float(ends[0].copy(form="keplerian").a)))
    return res


def oracle_man_reuse(out, rng, N):
    """what a maneuver contributes is a function of its definition and of the state it is evaluated on: one maneuver object
    (every class / constructor form) evaluated on several different states gives, on each, what a new object gives
    (theorems kepCont_history_free, kepImp_history_free, manProject is a function); the same plan shared by several orbits
    (same list, Orbit.copy()) propagated with KeplerNum ends where a plan of new objects ends, and a da-only Keplerian burn
    realises the requested increment on each of them"""
    import numpy as np
    for _ in range(N):
        kind = rng.choice(MAN_KINDS)
        args = gen_man_args(rng, kind)
        dur = rng.choice([60.0, 90.5, 600.0, 0.75, 172800.25])
        states = []
        for _k in range(rng.choice([2, 3, 4])):
            states.append(("keplerian", gen_kep_state(rng)) if kind.startswith("kep") or rng.random() < 0.5 else ("cartesian", gen_state(rng)))
        if rng.random() < 0.3:
            states.append(states[0])
        inp = {"kind": kind, "args": args, "duration": dur, "states": [list(s) for s in states]}
        out.count(key=("reuse", kind, tuple(map(str, args)), dur, str(states)), kind="man-reuse-" + kind, visits=len(states))
        r = man_reuse_eval(kind, args, dur, states)
        if r is not None:
            out.fail("man-reuse-eval-" + kind, f"a maneuver object evaluated on its state no. {r[0]} (after other states) contributes something else than a new object with the same "
                     "definition evaluated on that state", dict(inp, visit=r[0]), observed=r[1], expected=r[2])
    for _ in range(max(2, N // 12)):
        kind = rng.choice(["kep-continuous", "kep-continuous", "kep-continuous", "kep-impulsive", "continuous-accel", "continuous-dv", "impulsive"])
        da_only = kind.startswith("kep") and rng.random() < 0.7
        if da_only:
            args = [rng.choice([-1, 1]) * 10 ** rng.uniform(2, 4.8), 0.0, 0.0]
        elif kind.startswith("kep"):
            args = list(gen_incr(rng))
        else:
            args = [x * 10 ** rng.uniform(-3, 1) * (1e-3 if kind == "continuous-accel" else 1) for x in rand_unit(rng)] + [rng.choice(["TNW", "QSW", None])]
        step = rng.choice([30.0, 60.0])
        method = rng.choice(["rk4", "rk4", "dopri54"])
        start, dur = step * rng.randrange(1, 4), step * rng.randrange(4, 12)
        span = start + dur + 2 * step
        keps = []
        for a in rng.sample([7.0e6, 1.2e7, 2.6e7, 4.2164e7], 2):
            keps.append([a * rng.uniform(0.98, 1.02), rng.choice([1e-4, 1e-3]), rng.uniform(0.3, 2.5), rng.uniform(0, 6.28), rng.uniform(0, 6.28), rng.uniform(0, 6.28)])
        how = rng.choice(["same-list", "copy"])
        inp = {"kind": kind, "args": args, "start": start, "duration": dur, "step": step, "method": method, "orbits": keps, "span": span, "shared_by": how}
        out.count(key=("reuse-prop", kind, tuple(map(str, args)), start, dur, step, method, str(keps), how), kind="man-reuse-propagate-" + kind, how=how)
        try:
            res = man_reuse_propagate(kind, args, start, dur, step, method, keps, span, how)
        except Exception as e:  # noqa: BLE001
            out.fail("man-reuse-raises-" + kind, f"propagating orbits that share a maneuver object raises {type(e).__name__}", inp, observed=repr(e)[:200])
            continue
        for k, shared_end, new_end, a0, a1 in res:
            if not np.allclose(shared_end, new_end, rtol=1e-12, atol=1e-9, equal_nan=True):
                out.fail("man-reuse-propagate-" + kind, f"orbit no. {k} of those sharing one maneuver object ends elsewhere than with a new maneuver object of the same definition",
                         dict(inp, orbit=k), observed=shared_end.tolist(), expected=new_end.tolist())
                break
            # (a burn of whole fixed steps delivers its full delta-v - theorem whole_steps_full_dv_rk4; adaptive methods sample the on/off switch: known finding)
            if da_only and (method == "rk4" or kind == "kep-impulsive"):
                da = args[0]
                tol = 20 * a0 * (da / a0) ** 2 + 2e-3 * abs(da) + 1.0
                if abs((a1 - a0) - da) > tol:
                    out.fail("kep-continuous-realised-da" if kind == "kep-continuous" else "kep-impulsive-realised-da",
                             f"orbit no. {k}: the semi-major axis increment realised by the propagated maneuver differs from the requested one beyond second order",
                             dict(inp, orbit=k), observed=a1 - a0, expected=da, tol=tol)
                    break


def oracle_accel_bodies(out, rng, N):
    """KeplerNum._accel: what the continuous maneuvers add (evaluation with them minus evaluation without) is the sum of the
    accelerations of the active ones, whatever the number of attracting bodies (theorem thrust_independent_of_bodies)"""
    import numpy as np
    from beyond.dates import Date, timedelta
    from beyond.orbits.man import ContinuousMan, ImpulsiveMan
    from beyond.propagators.keplernum import KeplerNum
    d0 = Date(2020, 5, 24)
    for _ in range(N):
        x = gen_state(rng)
        t = rng.randrange(0, 600_000)
        mans = []
        for _k in range(rng.choice([1, 1, 2, 3])):
            st = t + rng.choice([0, -1, -30_000, -59_999, 1])
            mans.append(ContinuousMan(ms_date(d0, st), timedelta(milliseconds=60_000), accel=gen_vec(rng), frame=rng.choice(["QSW", "TNW", "tnw", None])))
        if rng.random() < 0.3:
            mans.append(ImpulsiveMan(ms_date(d0, t), gen_vec(rng)))
        per_k = {}
        for bodies in ([], gen_bodies(rng, d0), gen_bodies(rng, d0) + gen_bodies(rng, d0)):
            prop = KeplerNum(timedelta(seconds=60), bodies)
            orb = mk_orbit(x, "cartesian", prop, d0)
            orb.maneuvers = list(mans)
            prop.orbit = orb
            y = prop.orbit.copy()
            y.date = ms_date(d0, t)
            with_m = np.array(prop._accel(y), dtype=float)
            prop.orbit.maneuvers = []
            without = np.array(prop._accel(y), dtype=float)
            yc = y.copy(form="cartesian")
            want = sum((m.accel(yc) for m in mans if isinstance(m, ContinuousMan) and m.check(y.date)), np.zeros(3))
            got = (with_m - without)[3:]
            tol = 1e-12 * (np.linalg.norm(without[3:]) + np.linalg.norm(want)) + 1e-300
            inp = {"state": x, "date_ms": t, "n_bodies": len(bodies), "maneuvers": [(str(m.frame), list(map(float, getattr(m, "_accel", getattr(m, "_dv", []))))) for m in mans]}
            out.count(key=("accelbodies", tuple(x), t, len(bodies)), kind="accel-thrust-part", n_bodies=len(bodies), active=int(np.linalg.norm(want) > 0))
            if not np.allclose(got, want, rtol=0, atol=tol):
                out.fail(f"accel-thrust-depends-on-bodies-{min(len(bodies), 2)}", "the acceleration added by the continuous maneuvers is not the sum of their accelerations "
                         "(it must not depend on the number of attracting bodies)", inp, observed=got.tolist(), expected=np.array(want).tolist())
            per_k[len(bodies)] = got


def oracle_names(out, rng, N):
    """every spelling of a local orbital frame accepted by the constructors selects that frame's matrix (bitwise the result of
    the upper-case spelling); None and the name of an inertial frame leave the vector as stated"""
    import itertools
    import numpy as np
    from beyond.dates import Date, timedelta
    from beyond.orbits.man import ImpulsiveMan, ContinuousMan
    d0 = Date(2020, 5, 24)
    spell = {"QSW": ["".join(t) for t in itertools.product("qQ", "sS", "wW")], "TNW": ["".join(t) for t in itertools.product("tT", "nN", "wW")]}
    for _ in range(N):
        x = gen_state(rng)
        orb = mk_orbit(x)
        vec = gen_vec(rng)
        for up, names in spell.items():
            ref_i = ImpulsiveMan(d0, vec, frame=up).dv(orb)
            ref_c = ContinuousMan(d0, timedelta(seconds=60), accel=vec, frame=up).accel(orb)
            axes = np.array(axes_expected(up, x)).T @ np.array(vec)
            for nm in names:
                gi = ImpulsiveMan(d0, vec, frame=nm).dv(orb)
                gc = ContinuousMan(d0, timedelta(seconds=60), accel=vec, frame=nm).accel(orb)
                out.count(key=("spell", nm, tuple(x), tuple(vec)), kind="name-spelling-" + up, nontrivial=norm(vec) > 0)
                for cls, got, ref in (("ImpulsiveMan", gi, ref_i), ("ContinuousMan", gc, ref_c)):
                    if not np.array_equal(got, ref) or not np.allclose(got, axes, rtol=0, atol=1e-12 * norm(vec) + 1e-300):
                        out.fail(f"frame-name-spelling-{cls}-{up}", f"frame={nm!r} does not select the {up} axes", {"frame": nm, "state": x, "vector": vec},
                                 observed=np.array(got).tolist(), expected=axes.tolist())
        for nm in (None, "EME2000", "RSW", "lvlh"):
            gi = ImpulsiveMan(d0, vec, frame=nm).dv(orb)
            out.count(key=("spell", str(nm), tuple(x), tuple(vec)), kind="name-spelling-other")
            if not np.array_equal(gi, np.array(vec)):
                out.fail("frame-name-other", "a frame name that is not QSW/TNW does not leave the vector in the axes of the orbit's frame", {"frame": nm, "state": x, "vector": vec},
                         observed=np.array(gi).tolist(), expected=list(vec))


def oracle_frame_references(out, rng, N):
    """frames attached to an Orbit / an Ephem / a bare StateVector, expressed in the parent frame or in another one: the reference
    is at the origin, conversions round-trip, the same conversion repeated gives the same numbers, and the reference object is
    left exactly as it was (class, frame, form, coordinates, date)"""
    import numpy as np
    from beyond.dates import Date, timedelta
    from beyond.frames.frames import orbit2frame
    d0 = Date(2020, 5, 24)
    for _ in range(N):
        forget_frames()
        meta, pristine, live = gen_reference(rng, d0)
        _FRAME_SEQ[0] += 1
        name = f"C17R{_FRAME_SEQ[0]}"     # a fresh name: see oracle_reregistration_parent for names used again
        ori = rng.choice(["QSW", "TNW", "qsw", None])
        before = snapshot(live)
        via = rng.choice(["orbit2frame", "as_frame"])
        parent = rng.choice(["EME2000", "EME2000", "MOD", "TOD", "TEME"])
        kw = {"orientation": ori, "exists_warning": False}
        if parent != "EME2000":
            from beyond.frames.frames import get_frame
            kw["parent"] = get_frame(parent)
        if via == "orbit2frame":
            orbit2frame(name, live, **kw)
        else:
            live.as_frame(name, **kw)
        fam = f"{meta['kind']}-{meta['frame']}"
        # a bare StateVector is a point at its own date: unless everything is EME2000 it is used at that date only (the library
        # converts it to the parent at its own date and uses the result at the date of the call)
        static_elsewhere = meta["kind"] == "StateVector" and (meta["frame"] != "EME2000" or parent != "EME2000")
        dates = [d0] if static_elsewhere else [d0, d0 + timedelta(seconds=q6(rng.uniform(-3000, 3000))), d0 + timedelta(seconds=q6(rng.uniform(0, 86400)))]
        for rep in range(2):
            for date in dates:
                rc = np.array(ref_state(pristine, date))
                sr, sv = np.linalg.norm(rc[:3]), np.linalg.norm(rc[3:])
                inp = {"frame": name, "reference": meta, "orientation": ori, "date": str(date), "pass": rep, "created_by": via, "parent": parent}
                at0 = np.array(mk_orbit(list(rc), "cartesian", None, date).copy(frame=name))
                out.count(key=("ref-origin", fam, str(date), ori, rep, tuple(meta["kep"])), kind=f"ref-origin-{fam}", orientation=str(ori))
                if not (np.all(np.abs(at0[:3]) <= 1e-9 * sr) and np.all(np.abs(at0[3:]) <= 1e-9 * sv + 1e-9)):
                    out.fail(f"orbit-frame-origin-ref-{fam}", "the reference a frame is attached to is not at that frame's origin", inp, observed=at0.tolist(), expected=[0] * 6)
                x = rc + np.array([rng.uniform(-1, 1) * 10 ** rng.uniform(0, 6) for _ in range(3)] + [rng.uniform(-1, 1) * 10 ** rng.uniform(-3, 2) for _ in range(3)])
                o = mk_orbit(list(x), "cartesian", None, date)
                loc1, loc2 = np.array(o.copy(frame=name)), np.array(o.copy(frame=name))
                if ori is not None:
                    m = np.array(axes_expected(ori.upper(), list(rc)))
                    expl = np.concatenate([m @ (x[:3] - rc[:3]), m @ (x[3:] - rc[3:])])
                    out.count(key=("ref-axes", fam, str(date), ori, rep, tuple(x)), kind=f"ref-axes-{fam}", created_by=via, parent=parent)
                    if not (np.allclose(loc1[:3], expl[:3], rtol=0, atol=1e-9 * sr) and np.allclose(loc1[3:], expl[3:], rtol=0, atol=1e-9 * sv + 1e-9)):
                        out.fail(f"orbit-frame-axes-ref-{fam}-{via}", "coordinates in the attached frame are not M (x - x_ref) with M the local orbital matrix of the reference",
                                 dict(inp, state=x.tolist()), observed=loc1.tolist(), expected=expl.tolist())
                back = np.array(o.copy(frame=name).copy(frame="EME2000"))
                out.count(key=("ref-repeat", fam, str(date), ori, rep, tuple(x)), kind=f"ref-repeat-{fam}")
                if not np.array_equal(loc1, loc2):
                    out.fail(f"orbit-frame-repeat-differs-{fam}", "the same conversion into an orbit-attached frame, repeated, gives other numbers", dict(inp, state=x.tolist()),
                             observed=loc2.tolist(), expected=loc1.tolist())
                if not (np.allclose(back[:3], x[:3], rtol=0, atol=1e-9 * sr) and np.allclose(back[3:], x[3:], rtol=0, atol=1e-9 * sv + 1e-9)):
                    out.fail(f"orbit-frame-roundtrip-ref-{fam}", "parent -> attached frame -> parent changes the state", dict(inp, state=x.tolist()), observed=back.tolist(), expected=x.tolist())
                after = snapshot(live)
                if after != before:
                    out.fail(f"orbit-frame-reference-modified-{fam}", "a conversion through an orbit-attached frame modified the reference object the frame was created from",
                             inp, observed=str(after[:3]), expected=str(before[:3]))
                    before = after


PARENT_DIST = {"EME2000": 0, "MOD": 1, "TOD": 2, "TEME": 3}


def oracle_reregistration_parent(out, rng, N):
    """a name registered under one `parent`, used, and registered again under another (or the same) parent from another orbit:
    afterwards the frame is the one of the latest registration — origin, axes, round trip.  (Refusing the second registration
    with a ValueError is accepted.)"""
    import numpy as np
    from beyond.dates import Date, timedelta
    from beyond.frames.frames import orbit2frame, get_frame
    d0 = Date(2020, 5, 24)
    for _ in range(N):
        forget_frames()
        _FRAME_SEQ[0] += 1
        name = f"C17P{_FRAME_SEQ[0]}"
        regs = []
        for k in range(2):
            kep, ref = gen_ref_orbit(rng, d0)
            regs.append((kep, ref, rng.choice(["QSW", "TNW", "QSW", None]), rng.choice(["EME2000", "EME2000", "MOD", "TOD", "TEME"])))
        date = d0 + timedelta(seconds=q6(rng.uniform(0, 6000)))
        refused = False
        for k, (kep, ref, ori, parent) in enumerate(regs):
            try:
                orbit2frame(name, ref, orientation=ori, parent=get_frame(parent), exists_warning=False)
            except ValueError:
                refused = k > 0 and regs[0][3] != parent
                if not refused:
                    out.fail("orbit-frame-registration-raises", "orbit2frame raises ValueError", {"frame": name, "orientation": ori, "parent": parent, "registration": k})
                break
            rc = np.array(list(map(float, ref.propagate(date).copy(form="cartesian"))))
            sr, sv = np.linalg.norm(rc[:3]), np.linalg.norm(rc[3:])
            x = rc + np.array([rng.uniform(-1, 1) * 10 ** rng.uniform(0, 6) for _ in range(3)] + [rng.uniform(-1, 1) * 10 ** rng.uniform(-3, 2) for _ in range(3)])
            o = mk_orbit(list(x), "cartesian", None, date)
            loc = np.array(o.copy(frame=name))
            back = np.array(o.copy(frame=name).copy(frame="EME2000"))
            m = np.array(axes_expected(ori, list(rc))) if ori else np.identity(3)
            expl = np.concatenate([m @ (x[:3] - rc[:3]), m @ (x[3:] - rc[3:])])
            ok_axes = np.allclose(loc[:3], expl[:3], rtol=0, atol=1e-9 * sr) and np.allclose(loc[3:], expl[3:], rtol=0, atol=1e-9 * sv + 1e-9)
            ok_rt = np.allclose(back[:3], x[:3], rtol=0, atol=1e-9 * sr) and np.allclose(back[3:], x[3:], rtol=0, atol=1e-9 * sv + 1e-9)
            p0, p1 = regs[0][3], parent
            out.count(key=("rereg", name, k), kind="reregistration-parent", registration=k, parents=f"{p0}->{p1}" if k else p1, local=bool(ori))
            if not (ok_axes and ok_rt):
                inp = {"frame": name, "first": {"ref_kep": regs[0][0], "orientation": regs[0][2], "parent": p0},
                       "second": {"ref_kep": kep, "orientation": ori, "parent": p1} if k else None, "date": str(date), "state": x.tolist()}
                # the earlier registration's node stays in the orientation graph: it is found first when it hangs nearer to the
                # orientation of the converted state (EME2000) than the new one
                stale = k == 1 and regs[0][2] and ori and PARENT_DIST[p0] < PARENT_DIST[p1]
                out.fail("orbit-frame-reregistered-under-other-parent" if stale else f"orbit-frame-reregistration-{'axes' if not ok_axes else 'roundtrip'}",
                         "after a frame name is registered again, a conversion into the frame does not use the axes of the latest reference / parent -> frame -> parent is not the identity",
                         inp, observed=loc.tolist(), expected=expl.tolist())


def check_centre_case(out, c, fam_suffix):
    """the clause 'a frame attached to an orbit places that orbit at its origin', and a companion's relative position against an
    independent computation (difference of the two states in the parent frame, rotated by the axes the definition gives)"""
    import numpy as np
    from beyond.frames.frames import get_frame as _gf
    name, cart, comp, delta, ori = c["name"], c["cart"], c["comp"], c["delta"], c["ori"]
    own = np.array(cart.copy(frame=name), dtype=float)
    dist = float(np.linalg.norm(np.array(cart.copy(frame="EME2000"))[:3])) + float(np.linalg.norm(np.array(cart)[:3]))
    speed = float(np.linalg.norm(np.array(cart.copy(frame="EME2000"))[3:])) + float(np.linalg.norm(np.array(cart)[3:]))
    tol_r, tol_v = 1e-9 * dist + 1e-6, 1e-9 * speed + 1e-9
    inp = dict(c["meta"])
    out.count(key=("centre-origin", fam_suffix, name, str(c["date"]), tuple(c["kep"])), kind=f"centre-origin-{fam_suffix}", orientation=str(ori), parent=c["parent_name"])
    if np.abs(own[:3]).max() > tol_r or np.abs(own[3:]).max() > tol_v:
        out.fail(f"orbit-frame-origin-other-centre-{fam_suffix}", "the orbit a frame is attached to is not at that frame's origin (reference orbit around another body than the parent's)",
                 inp, observed=own.tolist(), expected=[0.0] * 6)
        return
    rel = np.array(comp.copy(frame=name), dtype=float)
    if ori:
        pframe = c["parent"] or _gf("EME2000")
        cp, xp = np.array(cart.copy(frame=pframe), dtype=float), np.array(comp.copy(frame=pframe), dtype=float)
        m = np.array(axes_expected(ori, list(cp)))
        exp = np.concatenate([m @ (xp[:3] - cp[:3]), m @ (xp[3:] - cp[3:])])
    else:
        exp = np.array(delta, dtype=float)
    out.count(key=("centre-rel", fam_suffix, name, str(c["date"]), tuple(c["kep"])), kind=f"centre-companion-{fam_suffix}", orientation=str(ori), parent=c["parent_name"])
    if np.abs(rel[:3] - exp[:3]).max() > tol_r or np.abs(rel[3:] - exp[3:]).max() > tol_v:
        out.fail(f"orbit-frame-companion-other-centre-{fam_suffix}", "a companion of the reference orbit is not seen at its relative position from the frame attached to that orbit",
                 dict(inp, companion_offset=list(map(float, delta))), observed=rel.tolist(), expected=exp.tolist())
    back = np.array(comp.copy(frame=name).copy(frame=cart.frame), dtype=float)
    if np.abs(back[:3] - np.array(comp)[:3]).max() > tol_r or np.abs(back[3:] - np.array(comp)[3:]).max() > tol_v:
        out.fail(f"orbit-frame-roundtrip-other-centre-{fam_suffix}", "frame of the orbit -> attached frame -> frame of the orbit changes the state", inp,
                 observed=back.tolist(), expected=np.array(comp, dtype=float).tolist())


def oracle_other_centres(out, rng, N):
    """frames attached (orbit2frame / as_frame, default and explicit parents, orientation None / QSW / TNW) to orbits around the Moon and
    the Sun (beyond.env.solarsystem.get_frame), with an Earth orbit as control"""
    from beyond.dates import Date
    from beyond.frames.frames import get_frame as _gf
    d0 = Date(2020, 3, 1, 12)
    for _ in range(N):
        forget_frames()
        body = rng.choice(["Moon", "Moon", "Sun", "Earth"])
        fr = body_frame(body)
        parents = [(None, None), (None, None), ("EME2000", _gf("EME2000")), (body, fr), ("MOD", _gf("MOD"))]
        check_centre_case(out, centre_case(rng, d0, body, fr, parents), body)


def jpl_worker(seed, n):
    """runs in a process of its own (beyond.env.jpl keeps process-wide singletons and re-registers 'Moon' / 'Sun'): frames attached to
    orbits around Mars, Venus, the Moon and the Sun of the JPL kernel of tests/data/jpl; prints the Outcome as JSON"""
    import json
    import random
    import warnings
    warnings.simplefilter("ignore")
    from beyond.config import config
    from beyond.dates import Date
    from beyond.frames.frames import get_frame as _gf
    d = os.path.join(core.REPO, "tests", "data", "jpl")
    config.update({"env": {"jpl": {"files": [os.path.join(d, f) for f in ("de403_2000-2020.bsp", "pck00010.tpc", "gm_de431.tpc")]}}})
    from beyond.env import jpl
    jpl.create_frames()
    rng = random.Random(f"C17-jpl-{seed}")
    out = Outcome()
    d0 = Date(2015, 6, 1, 12)
    for _ in range(n):
        forget_frames()
        body = rng.choice(["Mars", "Mars", "Venus", "Moon", "Sun"])
        fr = jpl.get_frame(body)
        parents = [(None, None), (None, None), ("EME2000", _gf("EME2000")), (body, fr)]
        check_centre_case(out, centre_case(rng, d0, body, fr, parents), "jpl-" + body)
    print("C17JPL " + json.dumps({"cases": out.cases, "keys": sorted(map(str, out.keys)), "dist": out.dist, "failures": out.failures}, default=str))


def oracle_jpl_centres(out, rng, N):
    import json
    import subprocess
    import sys
    code = f"import sys; sys.path.insert(0, {core.VERIF!r}); from harness import core; from harness.props import C17; C17.jpl_worker({rng.randrange(10**6)}, {N})"
    env = dict(os.environ, PYTHONPATH=core.REPO + os.pathsep + os.environ.get("PYTHONPATH", ""))
    try:
        p = subprocess.run([sys.executable, "-c", code], capture_output=True, text=True, timeout=300, env=env)
        line = [ln for ln in p.stdout.split("\n") if ln.startswith("C17JPL ")]
        if not line:
            out.fail("orbit-frame-other-centre-jpl-raises", "frames attached to orbits around the bodies of a JPL kernel: the run raised", {"kernel": "tests/data/jpl/de403_2000-2020.bsp"},
                     observed=(p.stderr or p.stdout)[-600:])
            return
        r = json.loads(line[0][7:])
    except subprocess.TimeoutExpired:
        out.fail("orbit-frame-other-centre-jpl-raises", "frames attached to orbits around the bodies of a JPL kernel: no answer within 300 s", {"kernel": "tests/data/jpl/de403_2000-2020.bsp"})
        return
    out.cases += r["cases"]
    out.keys |= set(r["keys"])
    for k, v in r["dist"].items():
        out.dist[k] = out.dist.get(k, 0) + v
    out.failures += r["failures"]


def oracle(ctx, widened):
    out = Outcome()
    rng = ctx.rng
    big = widened or ctx.thorough
    oracle_frames(out, rng, 400 if big else 60)
    oracle_projection(out, rng, 1500 if big else 200)
    oracle_orbit_frame(out, rng, 60 if big else 10)
    oracle_impulses(out, rng, 250 if big else 25)
    oracle_windows(out, rng, 2000 if big else 200)
    oracle_continuous(out, rng, 300 if big else 40)
    oracle_dkep(out, rng, 3000 if big else 400)
    oracle_accel_bodies(out, rng, 300 if big else 40)
    oracle_man_reuse(out, rng, 600 if big else 60)
    oracle_names(out, rng, 60 if big else 6)
    oracle_frame_references(out, rng, 80 if big else 12)
    oracle_reregistration_parent(out, rng, 150 if big else 25)
    oracle_other_centres(out, rng, 200 if big else 30)
    oracle_jpl_centres(out, rng, 120 if big else 16)
    return out


def replay(f):
    """re-evaluate the recorded failing input of one oracle family on the current tree"""
    import random
    out = Outcome()
    fam = f.get("family", "")
    inp = f.get("input", {})
    if fam.startswith("dkep2dv") and isinstance(inp, dict) and "kep" in inp:
        import numpy as np
        from beyond.orbits.man import dkep2dv
        orbc = mk_orbit(inp["kep"], "keplerian").copy(form="cartesian")
        dv = np.array(dkep2dv(orbc, da=inp["da"], di=inp["di"], dOmega=inp["dOmega"]), dtype=float)
        sdv = stable_dkep2dv(float(orbc.infos.v), float(orbc.infos.kep.a), float(orbc.infos.kep.i), inp["da"], inp["di"], inp["dOmega"], mu=float(orbc.frame.center.body.mu))
        if not (np.all(np.isfinite(dv)) and np.allclose(dv, sdv, rtol=0, atol=1e-6 * norm(sdv) + 1e-12)):
            out.fail(fam, f["what"], inp, observed=dv.tolist(), expected=sdv)
        return out
    if fam.startswith("man-reuse-eval-") and isinstance(inp, dict) and "states" in inp:
        r = man_reuse_eval(inp["kind"], inp["args"], inp["duration"], [tuple(x) for x in inp["states"]])
        if r is not None:
            out.fail(fam, f["what"], inp, observed=r[1], expected=r[2])
        return out
    if (fam.startswith("man-reuse-propagate-") or fam.endswith("-realised-da")) and isinstance(inp, dict) and "orbits" in inp:
        import numpy as np
        for k, shared_end, new_end, a0, a1 in man_reuse_propagate(inp["kind"], inp["args"], inp["start"], inp["duration"], inp["step"], inp["method"], inp["orbits"], inp["span"],
                                                                  inp["shared_by"]):
            if not np.allclose(shared_end, new_end, rtol=1e-12, atol=1e-9, equal_nan=True):
                out.fail(fam, f["what"], inp, observed=shared_end.tolist(), expected=new_end.tolist())
                break
            if fam.endswith("-realised-da") and abs((a1 - a0) - inp["args"][0]) > f.get("tol", 0.0):
                out.fail(fam, f["what"], inp, observed=a1 - a0, expected=inp["args"][0])
                break
        return out
    # other families: re-run the oracle part that produced it with a fresh generator
    ctx = core.Ctx(ID, "quick", 0)
    full = oracle(ctx, False)
    out.failures = [x for x in full.failures if x["family"] == fam]
    return out
