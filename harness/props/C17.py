"""C17 — local orbital frames and maneuvers follow their definitions."""
import ast
import math
import os

from harness import core, py2lean, instantiate
from harness.core import Outcome, f2b, b2f

ID = "C17"
LEAN_TARGETS = ["BeyondVerif.Props.C17", "BeyondVerif.Witness.C17"]
THEOREMS = []
LEVEL_TEXT = ""
LEVEL_NOTE = ""
TECHNIQUE = ""
TRUSTED = []
ASSUMPTIONS = []
NOT_COVERED = []
OPEN = []
RULE = ""

LOCAL_PY = os.path.join(core.REPO, "beyond", "frames", "local.py")
MAN_PY = os.path.join(core.REPO, "beyond", "orbits", "man.py")
MU = 3.986004418e14


# ---------------------------------------------------------------- generators

def rand_unit(rng):
    while True:
        v = [rng.gauss(0, 1) for _ in range(3)]
        n = math.sqrt(sum(x * x for x in v))
        if n > 1e-3:
            return [x / n for x in v]


def cross(a, b):
    return [a[1] * b[2] - a[2] * b[1], a[2] * b[0] - a[0] * b[2], a[0] * b[1] - a[1] * b[0]]


def norm(a):
    return math.sqrt(sum(x * x for x in a))


def gen_state(rng):
    """cartesian state with r x v != 0: LEO..GEO radii (sometimes unit scale), 0.3..1.6 circular speed (elliptic and
    hyperbolic), any direction; the angle between r and v is kept away from 0 and pi"""
    while True:
        scale = rng.choice([6.6e6, 7.0e6, 1.2e7, 2.66e7, 4.2164e7, 1.0, 3.8e8]) * rng.uniform(0.9, 1.1)
        r = [x * scale for x in rand_unit(rng)]
        vc = math.sqrt(MU / scale) if scale > 10 else 1.0
        speed = vc * rng.choice([rng.uniform(0.3, 1.0), rng.uniform(1.0, 1.4), rng.uniform(1.42, 1.6)])
        v = [x * speed for x in rand_unit(rng)]
        s = norm(cross(r, v)) / (norm(r) * norm(v))
        if s > 1e-3:
            return r + v


def state_kind(x):
    r, v = x[:3], x[3:]
    en = norm(v) ** 2 / 2 - MU / norm(r)
    h = cross(r, v)
    return ("hyperbolic" if en > 0 else "elliptic") + ("-retro" if h[2] < 0 else "-pro")


def gen_vec(rng):
    mag = 10 ** rng.uniform(-6, 3)
    k = rng.random()
    if k < 0.15:
        v = [0.0, 0.0, 0.0]
        v[rng.randrange(3)] = mag * rng.choice([-1, 1])
        return v
    return [x * mag for x in rand_unit(rng)]


# ---------------------------------------------------------------- oracle parts (real API)

def mk_orbit(x, form="cartesian", prop=None, date=None):
    from beyond.orbits import Orbit
    from beyond.dates import Date
    return Orbit(list(x), date or Date(2020, 5, 24), form, "EME2000", prop)


def axes_expected(tag, x):
    r, v = x[:3], x[3:]
    h = cross(r, v)
    hn = norm(h)
    w = [c / hn for c in h]
    a0 = [c / norm(r) for c in r] if tag == "QSW" else [c / norm(v) for c in v]
    a1 = cross(w, a0)
    return [a0, a1, w]


def oracle_frames(out, rng, N):
    """to_local: proper rotation with the documented axes; expanded form block diagonal"""
    import numpy as np
    from beyond.frames.local import to_local
    for _ in range(N):
        x = gen_state(rng)
        for tag in ("QSW", "TNW", "qsw", "tnw"):
            m = to_local(tag, np.array(x), expanded=False)
            out.count(key=("local", tag, tuple(x)), kind="to_local-" + tag.upper(), state=state_kind(x))
            inp = {"frame": tag, "state": x}
            if not np.all(np.isfinite(m)):
                out.fail("to_local-nonfinite", "to_local returns non-finite entries for a state with r x v != 0", inp, observed=m.tolist())
                continue
            if not np.allclose(m @ m.T, np.identity(3), rtol=0, atol=1e-12):
                out.fail("to_local-not-orthonormal-" + tag.upper(), "M M^T differs from the identity", inp, observed=(m @ m.T).tolist())
            if abs(np.linalg.det(m) - 1) > 1e-12:
                out.fail("to_local-det-" + tag.upper(), "det M != 1", inp, observed=float(np.linalg.det(m)), expected=1.0)
            exp = np.array(axes_expected(tag.upper(), x))
            if not np.allclose(m, exp, rtol=0, atol=1e-12):
                out.fail("to_local-axes-" + tag.upper(), "rows are not (radial|velocity direction, w x first, w)", inp, observed=m.tolist(), expected=exp.tolist())
            m6 = to_local(tag, np.array(x))
            e6 = np.zeros((6, 6)); e6[:3, :3] = m; e6[3:, 3:] = m
            if not np.array_equal(m6, e6):
                out.fail("to_local-expanded", "expanded matrix is not diag(M, M)", inp, observed=m6.tolist())
    # unknown tag is rejected
    try:
        to_local("LVLH", np.array(gen_state(rng)))
        out.fail("to_local-unknown-tag", "unknown frame tag accepted", {"frame": "LVLH"})
    except ValueError:
        pass
    out.count(key="unknown-tag", kind="to_local-unknown")


def oracle_projection(out, rng, N):
    """ImpulsiveMan.dv / ContinuousMan.accel: stated magnitude along the stated axes"""
    import numpy as np
    from beyond.dates import Date, timedelta
    from beyond.orbits.man import ImpulsiveMan, ContinuousMan
    d = Date(2020, 5, 24)
    for _ in range(N):
        x = gen_state(rng)
        dv = gen_vec(rng)
        tag = rng.choice(["QSW", "TNW", "qsw", "Tnw", None, "EME2000", None])
        orb = mk_orbit(x)
        up = tag.upper() if isinstance(tag, str) else tag
        if up in ("QSW", "TNW"):
            ax = np.array(axes_expected(up, x))
            exp = ax.T @ np.array(dv)
        else:
            exp = np.array(dv)
        mag = norm(dv)
        for kind in ("impulse", "accel", "accel-from-dv"):
            if kind == "impulse":
                got = ImpulsiveMan(d, dv, frame=tag).dv(orb)
                ref, refmag = exp, mag
            elif kind == "accel":
                got = ContinuousMan(d, timedelta(seconds=120), accel=dv, frame=tag).accel(orb)
                ref, refmag = exp, mag
            else:
                dur = rng.choice([1.0, 60.0, 90.5, 3600.0])
                got = ContinuousMan(d, timedelta(seconds=dur), dv=dv, frame=tag, date_pos=rng.choice(["start", "stop", "median"])).accel(orb)
                ref, refmag = exp / dur, mag / dur
            out.count(key=(kind, str(tag), tuple(x), tuple(dv)), kind=f"{kind}-{up}", nontrivial=mag > 0)
            inp = {"kind": kind, "frame": tag, "state": x, "vector": dv}
            if not np.all(np.isfinite(got)):
                out.fail(f"projection-nonfinite-{kind}", "non-finite projected vector", inp, observed=got.tolist())
            elif abs(np.linalg.norm(got) - refmag) > 1e-12 * refmag + 1e-300:
                out.fail(f"projection-magnitude-{kind}-{up}", "projected vector does not have the stated magnitude", inp,
                         observed=float(np.linalg.norm(got)), expected=refmag)
            elif not np.allclose(got, ref, rtol=0, atol=1e-12 * refmag + 1e-300):
                out.fail(f"projection-direction-{kind}-{up}", "projected vector is not along the stated axes", inp, observed=got.tolist(), expected=ref.tolist())


_FRAME_SEQ = [0]


def oracle_orbit_frame(out, rng, N):
    """orbit2frame: the attached orbit sits at the origin; conversion to and from the parent round-trips"""
    import numpy as np
    from beyond.dates import Date, timedelta
    from beyond.frames.frames import orbit2frame
    from beyond.propagators.kepler import Kepler
    d0 = Date(2020, 5, 24)
    for _ in range(N):
        kep = [rng.choice([6.8e6, 7.2e6, 2.66e7, 4.2164e7]) * rng.uniform(0.98, 1.02), rng.uniform(0, 0.6), rng.uniform(0.01, 3.1),
               rng.uniform(0, 6.28), rng.uniform(0, 6.28), rng.uniform(0, 6.28)]
        ref = mk_orbit(kep, "keplerian", Kepler(), d0)
        ori = rng.choice(["QSW", "TNW", None])
        _FRAME_SEQ[0] += 1
        name = f"C17F{_FRAME_SEQ[0] % 12}"
        fr = orbit2frame(name, ref, orientation=ori, exists_warning=False)
        for _ in range(4):
            dt = rng.choice([0.0, rng.uniform(-3000, 3000), rng.uniform(0, 86400)])
            date = d0 + timedelta(seconds=dt)
            refc = ref.propagate(date).copy(form="cartesian")
            at0 = np.array(refc.copy(frame=name))
            out.count(key=("origin", tuple(kep), dt, ori), kind=f"orbit-frame-origin-{ori}")
            scale_r, scale_v = np.linalg.norm(np.array(refc)[:3]), np.linalg.norm(np.array(refc)[3:])
            inp = {"ref_kep": kep, "orientation": ori, "dt": dt}
            if not (np.all(np.abs(at0[:3]) <= 1e-9 * scale_r) and np.all(np.abs(at0[3:]) <= 1e-9 * scale_v)):
                out.fail(f"orbit-frame-origin-{ori}", "the orbit a frame is attached to is not at that frame's origin", inp, observed=at0.tolist(), expected=[0] * 6)
            x = np.array(refc) + np.array([rng.uniform(-1, 1) * 10 ** rng.uniform(0, 6) for _ in range(3)] + [rng.uniform(-1, 1) * 10 ** rng.uniform(-3, 2) for _ in range(3)])
            parent = rng.choice(["EME2000", "EME2000", "MOD", "ITRF"])
            o = mk_orbit(list(x), "cartesian", None, date)
            if parent != "EME2000":
                o = o.copy(frame=parent)
            loc = o.copy(frame=name)
            back = np.array(loc.copy(frame=parent))
            out.count(key=("roundtrip", tuple(kep), dt, ori, parent), kind=f"orbit-frame-roundtrip-{ori}-{parent}")
            oo = np.array(o)
            if not (np.allclose(back[:3], oo[:3], rtol=0, atol=1e-9 * scale_r) and np.allclose(back[3:], oo[3:], rtol=0, atol=1e-9 * scale_v + 1e-9)):
                out.fail(f"orbit-frame-roundtrip-{ori}", "parent -> attached frame -> parent changes the state", dict(inp, parent=parent, state=oo.tolist()),
                         observed=back.tolist(), expected=oo.tolist())
            if parent == "EME2000" and ori is not None:
                m = np.array(axes_expected(ori, list(map(float, refc))))
                exp = np.concatenate([m @ (oo[:3] - np.array(refc)[:3]), m @ (oo[3:] - np.array(refc)[3:])])
                if not (np.allclose(np.array(loc)[:3], exp[:3], rtol=0, atol=1e-9 * scale_r) and np.allclose(np.array(loc)[3:], exp[3:], rtol=0, atol=1e-9 * scale_v)):
                    out.fail(f"orbit-frame-axes-{ori}", "coordinates in the attached frame are not M (x - x_ref)", dict(inp, state=oo.tolist()),
                             observed=np.array(loc).tolist(), expected=exp.tolist())


def mk_num(kep, step, method, bodies=True, form="keplerian"):
    from beyond.dates import Date, timedelta
    from beyond.propagators.keplernum import KeplerNum
    from beyond.env.solarsystem import get_body
    prop = KeplerNum(timedelta(seconds=step), get_body("Earth") if bodies else [], method=method)
    return mk_orbit(kep, form, prop, Date(2020, 5, 24))


def grid(orb, stop_s):
    from beyond.dates import timedelta
    return list(orb.iter(stop=timedelta(seconds=stop_s)))


def q6(x):
    return round(x * 1e6) / 1e6


def gen_impulses(rng, step, nsteps, fixed):
    """maneuver offsets (s) strictly inside (0, nsteps*step): on the grid, off it, several per step"""
    k = rng.choice([1, 1, 2, 3, 4])
    span = step * nsteps
    ts = []
    for _ in range(k):
        c = rng.random()
        if c < 0.3:
            t = step * rng.randrange(1, nsteps)            # on the grid (fixed-step methods)
        elif c < 0.4 and ts:
            t = ts[-1] + rng.choice([0.0, 1e-6, 0.5])       # same date / same step as the previous one
        elif c < 0.5:
            t = step * rng.randrange(1, nsteps) + rng.choice([-1e-6, 1e-6])
        else:
            t = q6(rng.uniform(0, span))
        t = q6(t)
        if 0 < t < span:
            ts.append(t)
    if not ts:
        ts = [q6(span / 2)]
    return ts


def oracle_impulses(out, rng, N):
    """KeplerNum: every impulse changes the velocity by its projected dv exactly once, at the end of the integration step
    (t_j, t_j+1] that contains its date; nothing else changes.  Checked step by step against a maneuver-free step from the
    same state."""
    import numpy as np
    from beyond.dates import Date, timedelta
    from beyond.orbits.man import ImpulsiveMan, KeplerianImpulsiveMan
    d0 = Date(2020, 5, 24)
    for _ in range(N):
        method = rng.choice(["rk4", "rk4", "euler", "dopri54", "rkf54"])
        step = rng.choice([30.0, 60.0, 120.0])
        nsteps = rng.choice([8, 12, 20])
        kep = [rng.choice([6.9e6, 7.5e6, 1.2e7, 2.66e7]), rng.uniform(0, 0.3), rng.uniform(0.05, 3.0), rng.uniform(0, 6.28), rng.uniform(0, 6.28), rng.uniform(0, 6.28)]
        ts = gen_impulses(rng, step, nsteps, method in ("rk4", "euler"))
        mans = []
        for t in ts:
            tag = rng.choice(["QSW", "TNW", None])
            mans.append((t, tag, gen_vec(rng)))
        orb = mk_num(kep, step, method)
        orb.maneuvers = [ImpulsiveMan(d0 + timedelta(seconds=t), dv, frame=tag) for t, tag, dv in mans]
        inp = {"kep": kep, "step": step, "method": method, "nsteps": nsteps, "maneuvers": mans}
        try:
            pts = grid(orb, step * nsteps)
        except Exception as e:  # noqa: BLE001
            out.fail(f"impulse-propagation-raises-{method}", f"propagation with impulsive maneuvers raises {type(e).__name__}", inp, observed=repr(e)[:200])
            continue
        applied = [0] * len(mans)
        ok = True
        for a, b in zip(pts[:-1], pts[1:]):
            ta, tb = (a.date - d0).total_seconds(), (b.date - d0).total_seconds()
            free = mk_orbit(list(map(float, a)), "cartesian", orb.propagator.copy(), a.date)
            free.propagator.tol = orb.propagator.tol
            fpts = list(free.iter(stop=b.date))
            fb = fpts[1] if len(fpts) > 1 else None
            if fb is None or fb.date != b.date:
                # adaptive step from the same state must reproduce the same step
                out.fail(f"impulse-step-mismatch-{method}", "a maneuver-free step from the same state has a different length", dict(inp, t=ta),
                         observed=None if fb is None else (fb.date - d0).total_seconds(), expected=tb)
                ok = False
                break
            exp = np.zeros(3)
            fbx = list(map(float, fb))
            cur = list(fbx)      # impulses of one step are applied one after the other, each in the axes of the state it finds
            for i, (t, tag, dv) in enumerate(mans):
                if ta < t <= tb:
                    applied[i] += 1
                    d = (np.array(axes_expected(tag, cur)).T @ np.array(dv)) if tag else np.array(dv)
                    exp += d
                    cur = cur[:3] + list(np.array(cur[3:]) + d)
            jump = np.array(b)[3:] - np.array(fb)[3:]
            dpos = np.array(b)[:3] - np.array(fb)[:3]
            tol = 1e-9 * (np.linalg.norm(exp) + 1e-3 * np.linalg.norm(fbx[3:]))
            if np.abs(dpos).max() > 1e-7 or not np.allclose(jump, exp, rtol=0, atol=tol):
                fam = "impulse-missed" if np.linalg.norm(exp) > 0 and np.linalg.norm(jump) < 0.5 * np.linalg.norm(exp) else \
                      "impulse-spurious" if np.linalg.norm(exp) == 0 else "impulse-wrong-dv"
                out.fail(f"{fam}-{method}", "velocity jump over an integration step differs from the sum of the impulses dated in (t, t+h]",
                         dict(inp, t=ta, t_next=tb), observed=jump.tolist(), expected=exp.tolist())
                ok = False
                break
        if ok and any(c != 1 for c in applied):
            out.fail(f"impulse-window-count-{method}", "a maneuver date strictly inside the span falls in no / several integration windows", inp, observed=applied)
        on = sum(1 for t, _, _ in mans if abs(t / step - round(t / step)) < 1e-9)
        out.count(key=("imp", method, step, tuple(ts)), kind=f"impulse-{method}", n_man=len(mans), on_grid=on)
    out.sample({"impulse check": "per integration step: v(with maneuvers) - v(maneuver-free step from the same state) == sum of projected dv dated in (t, t+h]"})


def oracle_continuous(out, rng, N):
    """delivered delta-v of a continuous burn, measured in a gravity-free KeplerNum (bodies=[]): the velocity change over the
    span is the integral of the thrust.  Exact when the burn is a whole number of fixed steps; otherwise bounded by one
    step's worth of thrust (stage sampling of the on/off indicator)."""
    import numpy as np
    from beyond.dates import Date, timedelta
    from beyond.orbits.man import ContinuousMan
    d0 = Date(2020, 5, 24)
    for _ in range(N):
        method = rng.choice(["rk4", "rk4", "euler", "dopri54", "rkf54"])
        step = rng.choice([30.0, 60.0, 120.0])
        x = [7e6, 1e5, 2e5] + [v * 7000 for v in rand_unit(rng)]
        tag = rng.choice(["TNW-T", None, None])
        c = rng.random()
        if c < 0.4:
            dur = step * rng.randrange(1, 15); kind = "whole-steps"
        elif c < 0.8:
            dur = q6(rng.uniform(1.0, 15.0) * step); kind = "long"
        else:
            dur = q6(rng.uniform(0.02, 1.0) * step); kind = "shorter-than-step"
        start = rng.choice([step * rng.randrange(1, 6), q6(rng.uniform(0.01, 6) * step)])
        on_grid = abs(start / step - round(start / step)) < 1e-12
        acc = [rng.uniform(1e-4, 5e-3), 0.0, 0.0] if tag else [v * rng.uniform(1e-4, 5e-3) for v in rand_unit(rng)]
        dvv = [a * dur for a in acc]
        orb = mk_num(x, step, method, bodies=False, form="cartesian")
        by_dv = rng.random() < 0.5
        orb.maneuvers = [ContinuousMan(d0 + timedelta(seconds=start), timedelta(seconds=dur), frame="TNW" if tag else None,
                                       **({"dv": dvv} if by_dv else {"accel": acc}))]
        span = start + dur + 3 * step
        inp = {"state": x, "step": step, "method": method, "start": start, "duration": dur, "accel": acc, "frame": "TNW" if tag else None, "by_dv": by_dv}
        try:
            pts = grid(orb, span)
        except Exception as e:  # noqa: BLE001
            out.fail(f"continuous-raises-{method}", f"propagation with a continuous maneuver raises {type(e).__name__}", inp, observed=repr(e)[:200])
            continue
        v0, v1 = np.array(pts[0])[3:], np.array(pts[-1])[3:]
        if tag:
            delivered = np.linalg.norm(v1) - np.linalg.norm(v0)
            dirs_ok = np.allclose(v1 / np.linalg.norm(v1), v0 / np.linalg.norm(v0), atol=1e-12)
        else:
            delivered = float((v1 - v0) @ np.array(acc) / norm(acc))
            dirs_ok = np.allclose(np.cross(v1 - v0, acc), 0, atol=1e-9 * norm(acc) * (abs(delivered) + 1))
        want = norm(acc) * dur
        rel = abs(delivered - want) / want
        fixed = method in ("rk4", "euler")
        out.count(key=("cont", method, step, start, dur), kind=f"continuous-{method}-{kind}", on_grid=on_grid)
        if not dirs_ok:
            out.fail(f"continuous-direction-{method}", "thrust is not delivered along the stated axis", inp, observed=(v1 - v0).tolist())
        elif fixed and kind == "whole-steps" and rel > 1e-9:
            out.fail(f"continuous-whole-steps-{method}", "a burn lasting a whole number of fixed steps does not deliver its full delta-v", inp, observed=float(delivered), expected=want)
        elif rel > step / dur + 1e-9:
            out.fail(f"continuous-quadrature-bound-{method}", "delivered delta-v is off by more than one step's worth of thrust", inp, observed=float(delivered), expected=want)
        elif rel > 1e-3:
            out.tally(f"continuous-rel-error>1e-3 ({kind})")
            if kind == "shorter-than-step" or True:
                out.fail("continuous-burn-not-aligned-with-steps",
                         "a continuous burn whose start/stop do not fall on integration steps delivers a delta-v off by more than 1e-3 (stage sampling of the on/off switch)",
                         inp, observed=float(delivered), expected=want, rel_error=rel)


def stable_dkep2dv(v, a, i, da, di, dO, mu=MU):
    """the formulas of dkep2dv evaluated without the law-of-cosines cancellation"""
    dv_a = mu * da / (2 * v * a ** 2)
    dangle = math.sqrt(di ** 2 + dO ** 2 * math.sin(i) ** 2)
    vf = v + dv_a
    return [vf * math.cos(dangle) - v, 0.0, abs(vf * math.sin(dangle))]


def gen_incr(rng):
    """(da, di, dOmega): single and combined increments, metres / micro-radians up to large"""
    c = rng.random()
    da = rng.choice([-1, 1]) * 10 ** rng.uniform(-3, 6.3)
    di = rng.choice([-1, 1]) * 10 ** rng.uniform(-7, -0.5)
    dO = rng.choice([-1, 1]) * 10 ** rng.uniform(-7, -0.5)
    if c < 0.3:
        return da, 0.0, 0.0
    if c < 0.45:
        return 0.0, di, 0.0
    if c < 0.6:
        return 0.0, 0.0, dO
    if c < 0.75:
        return 0.0, di, dO
    if c < 0.77:
        return 0.0, 0.0, 0.0
    return da, di, dO


def apply_dv(orbc, dv_tnw):
    import numpy as np
    x = list(map(float, orbc))
    m = np.array(axes_expected("TNW", x))
    y = np.array(x)
    y[3:] += m.T @ np.array(dv_tnw)
    return mk_orbit(list(y), "cartesian", None, orbc.date)


def wrap(a):
    return (a + math.pi) % (2 * math.pi) - math.pi


def oracle_dkep(out, rng, N):
    """dkep2dv: finite; agrees with its own formulas evaluated stably; realises da (anywhere on the orbit) and (di, dOmega)
    (at the argument of latitude dkep2aol prescribes, at an apsis) to first order"""
    import numpy as np
    from beyond.orbits.man import dkep2dv, dkep2aol
    for _ in range(N):
        da, di, dO = gen_incr(rng)
        a = rng.choice([6.9e6, 7.2e6, 1.2e7, 2.66e7, 4.2164e7]) * rng.uniform(0.97, 1.03)
        e = rng.choice([0.0005, 0.01, 0.1, 0.4, 0.7])
        inc = rng.uniform(0.05, 3.0)
        raan = rng.uniform(0, 6.28)
        plane = (di != 0 or dO != 0)
        if plane:
            # place the satellite at the ideal argument of latitude, at an apsis (flight-path angle 0)
            k0 = mk_orbit([a, e, inc, raan, 0.0, 0.0], "keplerian")
            aol = float(dkep2aol(k0, di, dO))
            nu = rng.choice([0.0, math.pi])
            kep = [a, e, inc, raan, (aol - nu) % (2 * math.pi), nu]
        else:
            kep = [a, e, inc, raan, rng.uniform(0, 6.28), rng.uniform(0, 6.28)]
        if a * (1 - e) < 6.5e6:
            kep[1] = e = 0.01
        orbk = mk_orbit(kep, "keplerian")
        orbc = orbk.copy(form="cartesian")
        dv = np.array(dkep2dv(orbc, da=da, di=di, dOmega=dO), dtype=float)
        v = float(orbc.infos.v)
        sdv = stable_dkep2dv(v, float(orbc.infos.kep.a), float(orbc.infos.kep.i), da, di, dO, mu=float(orbc.frame.center.body.mu))
        inp = {"kep": kep, "da": da, "di": di, "dOmega": dO}
        mag = norm(sdv)
        out.count(key=("dkep", tuple(kep), da, di, dO), kind="dkep2dv-" + ("a" if da else "") + ("i" if di else "") + ("O" if dO else ""), nontrivial=bool(da or di or dO))
        if not np.all(np.isfinite(dv)):
            out.fail("dkep2dv-alkashi-cancellation", "dkep2dv returns a non-finite delta-v", inp, observed=dv.tolist(), expected=sdv)
            continue
        if not np.allclose(dv, sdv, rtol=0, atol=1e-6 * mag + 1e-12):
            what = ("an out-of-plane component appears although no plane change is requested" if not plane and dv[2] != 0 else
                    "the plane-change component is dropped (isclose(ratio, 1) branch)" if plane and dv[2] == 0 else
                    "delta-v differs from the same formulas evaluated without cancellation")
            out.fail("dkep2dv-alkashi-cancellation", "dkep2dv: " + what, inp, observed=dv.tolist(), expected=sdv)
            continue
        # first-order realisation
        new = apply_dv(orbc, dv).copy(form="keplerian")
        old = orbc.copy(form="keplerian")
        d_a, d_i, d_O = float(new.a - old.a), float(new.i - old.i), wrap(float(new.Omega - old.Omega))
        ang = math.sqrt(di * di + dO * dO)
        ra = abs(da) / a
        # second-order remainders: da^2/a (vis-viva curvature), a*angle^2 (rotation shortens the tangential part), cross terms
        tol_a = 20 * a * (ra * ra + ang * ang + ra * ang) / (1 - e) ** 2 + 1e-9 * abs(da) + 1e-6
        tol_ang = 20 * (ra + ang) * (ang) / min(1.0, math.sin(inc)) / (1 - e) ** 2 + 1e-9 * ang + 1e-12
        if abs(d_a - da) > tol_a:
            out.fail("dkep2dv-first-order-a", "realised semi-major axis increment differs from the requested one beyond second order", inp, observed=d_a, expected=da, tol=tol_a)
        elif plane and (abs(d_i - di) > tol_ang or abs(d_O - dO) > tol_ang / min(1.0, math.sin(inc))):
            out.fail("dkep2dv-first-order-plane", "realised (di, dOmega) differ from the requested ones beyond second order", inp, observed=[d_i, d_O], expected=[di, dO], tol=tol_ang)


def oracle(ctx, widened):
    out = Outcome()
    rng = ctx.rng
    big = widened or ctx.thorough
    oracle_frames(out, rng, 400 if big else 60)
    oracle_projection(out, rng, 1500 if big else 200)
    oracle_orbit_frame(out, rng, 60 if big else 10)
    oracle_impulses(out, rng, 250 if big else 25)
    oracle_continuous(out, rng, 300 if big else 40)
    oracle_dkep(out, rng, 3000 if big else 400)
    return out
