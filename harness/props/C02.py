"""C02 — frame conversions are consistent rigid motions with correct kinematics."""
import math
import os

import ast

from harness import core, py2lean, instantiate
from harness.core import Outcome, f2b, b2f

ID = "C02"
LEAN_TARGETS = ["BeyondVerif.Props.C02", "BeyondVerif.Props.C02Centre", "BeyondVerif.Props.C02Kin", "BeyondVerif.Witness.C02"]
THEOREMS = [
    "BeyondVerif.C02.rot1_isRotation",
    "BeyondVerif.C02.rot2_isRotation",
    "BeyondVerif.C02.rot3_isRotation",
    "BeyondVerif.R.M3.IsRotation.mul",
    "BeyondVerif.R.M3.IsRotation.dot_apply",
    "BeyondVerif.C02.nutation80_isRotation",
    "BeyondVerif.C02.precession80_isRotation",
    "BeyondVerif.C02.polar80_isRotation",
    "BeyondVerif.C02.polar10_isRotation",
    "BeyondVerif.C02.topoMat_isRotation",
    "BeyondVerif.C02.cioMat_isRotation",
    "BeyondVerif.C02.provider_isRotation",
    "BeyondVerif.C02.const_matrices_orthonormal",
    "BeyondVerif.C02.const_matrices_invertible",
    "BeyondVerif.C02.providers_match",
    "BeyondVerif.C02.kinematic_guard_pinned",
    "BeyondVerif.C02.expand_apply",
    "BeyondVerif.C02.expand_inv_mul",
    "BeyondVerif.C02.norm_preserved",
    "BeyondVerif.C02.affine_roundtrip",
    "BeyondVerif.Chain.potential_exists",
    "BeyondVerif.Chain.chain_walk",
    "BeyondVerif.C02.convert_compose",
    "BeyondVerif.C02.convert_inverse",
    "BeyondVerif.C02.orient_leafGrown",
    "BeyondVerif.C02.orientConvert_compose",
    "BeyondVerif.C02.orientConvert_inverse",
    "BeyondVerif.C02.transform_roundtrip_same_centre",
    "BeyondVerif.R.edgeBuiltin_oneDir",
    "BeyondVerif.R.edgesOK_edge",
    "BeyondVerif.C02.builtin_edges_invertible",
    "BeyondVerif.C02.edgesOK_model",
    "BeyondVerif.C02.orientConvert_compose_model",
    "BeyondVerif.C02.orientConvert_inverse_model",
    "BeyondVerif.C02.lof_isRotation",
    "BeyondVerif.R.centreFold_chain",
    "BeyondVerif.R.centerConvert_retarget",
    "BeyondVerif.C02.offset_chain",
    "BeyondVerif.C02.offset_antisymm",
    "BeyondVerif.C02.offset_retarget",
    "BeyondVerif.C02.transform_roundtrip",
    "BeyondVerif.C02.transform_compose",
    "BeyondVerif.C02.transform_roundtrip_model",
    "BeyondVerif.C02.transform_compose_model",
    "BeyondVerif.C02.transform_calls_pinned",
    "BeyondVerif.C02.velocity_is_derivative_general",
    "BeyondVerif.C02.angular_velocity_exists",
    "BeyondVerif.C02.earth_rotation_edges_kinematic",
    "BeyondVerif.C02.earth_rate_consistent",
    "BeyondVerif.C02.era_rate_consistent",
    "BeyondVerif.C02.rate_mismatch_defect",
    "BeyondVerif.R.RotPath.mul",
    "BeyondVerif.C02.slow_edge_omitted",
    "BeyondVerif.C02.precession_rotPath",
    "BeyondVerif.C02.precession_omitted_bound",
    "BeyondVerif.R.lofQsw_derivAt",
    "BeyondVerif.R.lofTnw_derivAt",
    "BeyondVerif.C02.lof_velocity_defect",
    "BeyondVerif.C02.lof_velocity_iff",
    "BeyondVerif.C02.lof_static_no_defect",
    "BeyondVerif.C02.lof_rate_planar",
    "BeyondVerif.C02.lof_rate_twobody",
    "BeyondVerif.C02.velocity_is_derivative",
    "BeyondVerif.C02.earth_rotation_rate",
    "BeyondVerif.Memo.run_eq_map",
    "BeyondVerif.Memo.run_stale",
    "BeyondVerif.Memo.sound_iff",
    "BeyondVerif.C02.sessionRun_pure",
    "BeyondVerif.C02.session_history_independent",
    "BeyondVerif.C02.session_order_independent",
    "BeyondVerif.C02.nutation_series_key_sound",
    "BeyondVerif.C02.nutCorrected_of_record",
    "BeyondVerif.C02W.text_keyed_memo_history_dependent",
    "BeyondVerif.C02W.text_keyed_memo_order_dependent",
    "BeyondVerif.C02W.full_key_memo_sound",
]
LEVEL_TEXT = ("Lean theorems over R about a model of beyond/frames whose formulas (rot1/2/3, precession/nutation arguments, GMST, ERA, rate, CIO matrix, "
              "constant matrices, station matrix, to_qsw / to_tnw, the guard of the kinematic terms) AND whose glue (the loops of Orientation.convert_to and Center.convert_to: which element a direct / "
              "a reverse provider contributes, the order of accumulation; Center._to_parent; Frame.transform: m @ x + offset and the arguments of its two calls) are read from the Python AST on every run. "
              "Rotations: every rot, every product of rots, the CIO matrix (X^2+Y^2<1), to_local(QSW/TNW).T (pos x vel != 0) are proper rotations; the constant matrices are orthonormal to 1e-15. "
              "Path independence: A->B->C = A->C and A->B->A = 1 for the convert_to loop along every link history grown leaf by leaf (induction, any associative carrier), UNCONDITIONALLY for the model's "
              "own edge function (edgesOK_model: EdgesOK assembled from provider_isRotation, const_matrices_invertible, edgeBuiltin_oneDir and a well-formedness condition on stations / orbit-attached orientations). "
              "Different centres: Center.convert_to is the same loop over the additive algebra of states (centreFold_chain), hence antisymmetric and additive in one target orientation (offset_antisymm, offset_chain), "
              "and carried by the rotation between two target orientations (offset_retarget); Frame.transform A->B->A = identity and A->B->C = A->C for any frames of the model with different centres AND "
              "orientations (transform_roundtrip, transform_compose, _model versions without hypothesis on the edges; a concrete station / orbit-attached scenario satisfies every hypothesis). "
              "Kinematics: for ANY differentiable matrix path R with R' = [w]x R, d/dt(R r) is the velocity block of expand(R, -w) (velocity_is_derivative_general); along a path of rotations w exists "
              "(angular_velocity_exists); instance for the two Earth-rotation edges; the constant of rate() vs d(GMST)/dt (7.0e-12 .. 7.2e-12 rad/s apart on |T| <= 0.5 century: the precession in right ascension) and vs "
              "d(ERA)/dt (1e-19 rad/s), LOD factor included; what a rate mismatch and what a provider returning (m, None) for a moving m cost in velocity (rate_mismatch_defect, slow_edge_omitted; MOD->EME2000: "
              "<= 1.02e-11 rad/s x |r| from the regenerated polynomial). Orbit-attached QSW / TNW frames: d/dt to_local = -[w]x to_local with w = lofRate(p, v, a) for ANY acceleration (lofQsw_derivAt, lofTnw_derivAt), "
              "so the converted velocity the code returns differs from the derivative of the converted position by exactly w x rho, and equals it iff w x rho = 0 (lof_velocity_defect, lof_velocity_iff; "
              "two-body: h/r^2 resp. mu h/(r^3 v^2) about W) - the two open findings, quantified; nothing is missing for a reference without propagator (lof_static_no_defect). "
              "History independence: the model of a process carries the memoizer of beyond/utils/memoize.py as a state machine (Memo.run) and the one date-dependent memo "
              "the frames have (iau1980._nutation_series, keyed since deb035a by (TT century, terms)); session_history_independent (unconditional): for every history of earlier conversions the result of a conversion "
              "is callPure = a function of (instant + EOP record of the date, frame graph, the two frames) alone; Witness: the former key (text of the date) made it false. "
              "The remaining hand-written glue (which rot in which order, EOP units, series folds, LofSpec, the memo) is tied by differential correspondence on HISTORIES of calls under five EOP configurations sharing their instants.")
LEVEL_NOTE = ("R -> double gap and time-scale arithmetic (Date -> TT/UT1 centuries; the model is given text + record offsets, reconciled to 2 ulp of the JD with Date.change_scale) are outside the theorems; "
              "agreement with independent GMST/ERA/precession/nutation/polar motion and IAU1980 vs IAU2010 < 0.1 arcsec are oracle-only; the rates of nutation and of the CIO series are bounded only in terms of "
              "the rates of their angles (RotPath.mul), not numerically; the memo model covers Orientation.convert_to "
              "(Frame.transform histories are compared call by call with the pure model, justified by session_history_independent on histories satisfying its hypothesis); "
              "Lean kernel + propext/Classical.choice/Quot.sound; py2lean, the _Glue reader and the harness trusted")
TECHNIQUE = "Lean 4 proof (ring identities modulo r^2 = p.p, HasDerivAt, induction over link histories and over call histories, potential argument on a multiplicative and an additive algebra, interval arithmetic with pi to 20 digits, decide/norm_num on regenerated tables) + differential correspondence on call sequences"
TRUSTED = [
    "harness/py2lean.py: translates rot1/rot2/rot3, _precesion, _nutation arguments, _sideral (1980/2010), rate, _planets, X/Y/s polynomials, precesion_nutation, "
    "G50/GCRF constant matrices, TopocentricOrientation._m, _geodetic_to_cartesian, to_qsw / to_tnw (translate_vec_function) into Generated/FrameFormulas{F,R}.lean on every run",
    "harness/props/C02.py _Glue: reads the loops of Orientation.convert_to / Center.convert_to, Center._to_parent and Frame.transform from the AST (one statement shape each, anything else is refused) "
    "-> Generated/FrameGlue.lean; extract: the guard of the kinematic terms of iau1980.equinox (operator and day) -> equinoxKinematic; list of A_to_B methods of class Orientation -> "
    "Generated/OrientProviders.lean; orientHist from C20's extractor",
    "harness/props/C02.py Scenario: the specification of the frame graph and the independent numpy formulas (QSW/TNW axes, station axes, geodetic coordinates) the model inputs are derived from",
    "harness/props/C02.py indep_record / pure_times: the EOP record of each of the five configurations from an own column parse of the IERS files and an own leap second table; "
    "TT / UT1 of a date from its text and that record with python datetime arithmetic (microseconds)",
    "lean/templates/Frames.tpl, Mat3.tpl, Model/Chain.lean, Model/Memo.lean (hand-written: provider products, EOP units, series folds, lofRate, LofSpec, the routing of the two loops through Node.steps, "
    "the memoizer, which routes consult the _nutation memo), tied by the correspondence run",
    "np.linalg.inv is modelled by the exact inverse (adjugate/determinant, block form); numpy / libm double arithmetic vs R: observed agreement a few ulp, tolerance 1e-12 relative on orientation matrices",
    "Node routing model of C20 (Model/Node.lean) for the paths; C20.path_valid_chain",
]
ASSUMPTIONS = [
    "the date enters the model as (TT century, UT1 century, UT1 JD, day number, EOP record, series sums): time-scale conversion is C03's subject",
    "EOP values are piecewise constant per day (SimpleEopDatabase, by design): Earth-fixed positions jump by up to ~1 m at midnight; the velocity oracle avoids windows straddling a day boundary; "
    "within a day polar motion and dX/dY do not move, so nothing is omitted for them by the code's own position map",
    "edgesOK_model / the _model theorems need X^2+Y^2 < 1 for the CIO matrix (in 1973-2017: < 1e-5) and ExtrasOK: a dynamically registered orientation is a new node (index beyond the built-in names), "
    "hangs below an orientation created before it and has an invertible matrix (stations: topoMat_isRotation; QSW/TNW: lof_isRotation when pos x vel != 0)",
    "transform_roundtrip / transform_compose need the centre history grown leaf by leaf, no pair of centres linked in both directions (CLinksOneDir) and every centre link convertible to the orientations "
    "involved (LinksReach: the orientation graph is connected); all three hold by construction of Center.add_link / orbit2frame / create_station and are shown for a concrete scenario",
    "the kinematic theorems take the reference of an orbit-attached frame as a twice differentiable point (p' = v, v' = a): true for Kepler / numerical propagation; the analytical J2 propagator's velocity "
    "is not the derivative of its position (secular drift of the elements) - such arcs are excluded from the lof-rate correspondence",
    "earth_rate_consistent / precession_omitted_bound hold on |T| <= 0.5 Julian century from J2000 (1950-2050) and for LOD below one day",
    "velocity of body-centred frames (Moon, Sun) depends on the body's own velocity, a +-1 day difference quotient (C18): excluded from the velocity oracle",
    "a Date is created under the configuration it is used under (a Date keeps the record it was created with, change_scale looks the new scale up again: C03)",
    "the axes of a QSW/TNW frame attached to a reference WITHOUT propagator are built from the reference converted to the parent frame at the reference's own date, not at the date of the conversion "
    "(Frame.transform reads orbit.date): the model follows the code; for a reference in TEME this is 3e-8 rad per hour of distance, for one in an Earth-fixed frame the axes stay frozen while the origin turns",
    "a frame name means its latest registration (orbit2frame / create_station with a name already taken override it, with a warning): histories re-register names and expect the new specification",
]
NOT_COVERED = [
    "agreement of the Earth-fixed <-> inertial rotation with independently computed GMST82 / equation of the equinoxes / ERA / IAU-1976 precession / 1980 nutation / polar motion: oracle only "
    "(independent numpy formulas evaluated with the independently known EOP record of the current configuration)",
    "IAU-1980 chain vs IAU-2010 chain < 0.1 arcsec: oracle only (106- and ~3000-term series; no theorem)",
    "EOP file readers (Finals, Finals2000A, TaiUtc) on the real IERS files: oracle only (independent column parse)",
    "numeric bounds on the rates of the nutation matrix, of the equation of the equinoxes and of the CIO matrix (series with table rows supplied at run time): only the structural bound "
    "|rate| <= sum of the angle rates (RotPath.mul, slow_edge_omitted); the oracle's finite-difference check covers the total to 1e-3 m/s",
    "iau1980.nutation with eop_correction=True (not used by the frame providers): correspondence (c02nutc: series + the eop_correction tail translated from the source) and oracle; no theorem beyond nutCorrected_of_record",
]
OPEN = [
    "the two LOF findings stay open in /repo (C02-lof-no-rate-qsw / -tnw): the model follows the code (no rate), lof_velocity_defect states the missing term exactly, the oracle accepts a discrepancy only if it IS "
    "that term; proposed_fixes/C02-lof-rate.diff (rate from p, v and the measured acceleration; none for a fixed point) makes the velocity oracle pass for every kind of attached frame",
    "the routing itself (which steps Node.steps returns) is C20's model, used through C20.path_valid_chain: the theorems hold for whatever walk the routing returns, they do not say it is the shortest",
    "the memo machine (sessionRun) models Orientation.convert_to; which memo keys a whole Frame.transform touches (centre links, orbit-attached providers converting their reference) is not modelled - "
    "irrelevant by session_history_independent (the memo is invisible), so Frame.transform histories are compared call by call",
    "'the reference handed to orbit2frame is left unchanged' and 'a repeated conversion gives the same numbers' hold in the model by construction (conversions are functions of read-only specifications); "
    "for the code they are checked by correspondence and oracle on every kind of reference, not proved about the Python objects",
    "resolveLofs (how the axes of an orbit-attached orientation are obtained from its reference: LofSpec) is hand-written and tied by correspondence only; the compose / round-trip theorems take the resolved matrices as given extras",
]
RULE = ("correspondence: the real code is driven through HISTORIES of conversions in one process, nothing of the library reset in between: (A1) fresh instants under each of five EOP configurations "
        "[(A1b) the days around MJD 50506 where the kinematic terms switch on, through PEF<->TOD, ITRF->EME2000, TEME->PEF, GCRF->ITRF; Center.convert_to ALONE (c02cen): centre a -> centre b in the orientation of a third frame, "
        "then the reverse request, then the same request towards another orientation, on the same centre objects, in every kind of visit; d/dt of the real to_local by Richardson differences along synthetic paths with an "
        "acceleration in any direction and along arcs of the real Kepler propagator vs the model's -[w]x to_local (c02lofrate); orientation matrices to 1e-12 relative] "
        "(real IERS files through SimpleEopDatabase / zero EOP / EOP missing with policy pass / a second registered database selected by eop.dbname / EopDb.get patched), (A2) the SAME instants under "
        "all five configurations in varying orders, each (configuration, instant) visited repeatedly, with fresh and re-used Date objects and repeated requests — UTC texts "
        "and TAI texts under all five, (A3) a history of Orientation.convert_to calls as ONE request to the model carrying the _nutation_series memo (c02seq), (A4) the same names registered "
        "again with another specification and the same instants again, (A5) frames attached (orbit2frame; reference frame axes / QSW / TNW; default and other parents) to EVERY KIND of reference - plain StateVector "
        "without propagator, Orbit with Kepler / J2 / numerical / SGP4 propagator, Ephem; in the parent frame and in others (TEME, GCRF, MOD, ITRF...); every form - every conversion made three times (identical "
        "results required), the references compared afterwards with what the caller handed in (values, form, frame, date), model inputs from twins of the references; iau1980.nutation(date) with EOP corrections (c02nutc); the model is given the date as a pure function of (text of the date, EOP record of the configuration known independently of the library's "
        "readers) and its own series at that TT century; Orientation.convert_to and Frame.transform on random ordered pairs of the frames of a SCENARIO: a specification (where each centre is, how each orientation "
        "is defined) realised through the public API (create_station, solarsystem.get_frame, orbit2frame) while the model inputs (links, provider matrices, offsets) are derived from the specification with "
        "independent numpy formulas: 10 built-ins, station, equatorial station, Moon-centred, orbit-attached inertial/QSW/TNW, nested chaser, lunar orbiter, point given in a station frame, StateVector held in "
        "keplerian form; memoized table readers asked in varying order; nutation/CIO series at every instant as the library answers them inside the history; to_local / station matrix / geodetic closed forms; "
        "an exception of the implementation where the model converts is a disagreement; dates 1973-2017 (15 % around the branch day MJD 50506, 10 % beyond the tables); "
        "rtol 1e-10 on matrices, 1e-9 relative on states; non-trivial = source != target. "
        "oracle: A->B->C vs A->C and A->B->A (1e-6 m, 1e-9 m/s + double resolution at the largest distance), orthonormality/det/block form, |r| preserved, "
        "Richardson central difference (20/40 s) of the converted position vs converted velocity - for an orbit-attached QSW/TNW frame the discrepancy must be zero or exactly -w x rho with w = h/r^2 resp. a.(c x v)/(h v^2) about W (acceleration of the reference measured on its own arc), anything else is family velocity-lof-term:*; the kinematic terms of the equation of the equinoxes isolated (equinox(kinematic=True) - equinox(kinematic=False)) to 1e-12 deg, the switch days every run; with the EOP record of the CURRENT configuration known independently (UT1 = text + ut1_utc, TT = text + tai_utc + 32.184 s): "
        "date.eop = that record, PEF->TOD angle vs GMST82 + independent equation of the equinoxes (own 106-term series, kinematic terms from 1997-02-27) to 1 mas, TIRF->CIRF vs ERA to 1 mas, rate block vs lod, "
        "polar motion 1980/2010 vs x, y, nutation (with and without dPsi/dEps), TEME equinox, precession, CIO X - dX / Y - dY equal across configurations — on fresh instants (matrix level) and on the same "
        "instants under all five configurations in varying orders through StateVector.copy (family suffix :after-other-configuration); 1980 vs 2010 < 0.1 arcsec, EOP reader vs independent parse, attached-frame "
        "independence of the StateVector form, the meaning of 'attached to X' with hand-written expected values before and after re-registration of the names, and for every kind of reference "
        "(origin both ways, round trip, same conversion twice, reference object unchanged); "
        "a conversion between connected frames that raises is a failing input")

BUILTIN = ["EME2000", "MOD", "TOD", "TEME", "PEF", "ITRF", "TIRF", "CIRF", "GCRF", "G50"]
ROTATING = {"PEF", "ITRF", "TIRF"}
ARCSEC = math.pi / 180 / 3600
MJD_MIN, MJD_MAX = 41684, 57754   # 1973-01-02 .. 2017-01-01: every column of the IERS test files is filled


# ---------------------------------------------------------------- regeneration from the source

def _src(*parts):
    return os.path.join(core.REPO, "beyond", *parts)


ROTS = {"rot1": "rot1", "rot2": "rot2", "rot3": "rot3"}


def flit(v):
    return py2lean.Tr().expr(ast.Constant(float(v)))


# ---------------------------------------------------------------- the glue of the three loops, read from the AST

class _Glue:
    """A dedicated reader for the three pieces of glue of the frame machinery — the loop of `Orientation.convert_to`, the loop of
    `Center.convert_to` (+ `Center._to_parent`) and `Frame.transform`.  Each is matched against the ONE statement shape it has today and
    turned into a generic Lean term (Generated/FrameGlue.lean) the hand-written model is built from: which element a direct / a reverse
    provider contributes, in which order the product / the sum is accumulated, what `Frame.transform` combines.  Any other shape raises
    Untranslatable (the check then reports the translator as broken and widens the oracle)."""

    def __init__(self):
        self.ori, self.cen, self.frm = _src("frames", "orient.py"), _src("frames", "center.py"), _src("frames", "frames.py")

    @staticmethod
    def body(path, qual):
        fn = py2lean.find_function(ast.parse(open(path).read()), qual)
        return [st for st in fn.body if not (isinstance(st, ast.Expr) and isinstance(st.value, ast.Constant))]

    @staticmethod
    def u(node):
        return ast.unparse(node)

    def term(self, e, env):
        """expression over the names of `env` with `@`, `+`, unary `-`, np.linalg.inv, np.asarray"""
        src = self.u(e)
        if src in env:
            return env[src]
        if isinstance(e, ast.BinOp) and isinstance(e.op, ast.MatMult):
            return f"(mul {self.term(e.left, env)} {self.term(e.right, env)})"
        if isinstance(e, ast.BinOp) and isinstance(e.op, ast.Add):
            return f"(add {self.term(e.left, env)} {self.term(e.right, env)})"
        if isinstance(e, ast.UnaryOp) and isinstance(e.op, ast.USub):
            return f"(neg {self.term(e.operand, env)})"
        if isinstance(e, ast.Call) and self.u(e.func) == "np.linalg.inv" and len(e.args) == 1 and not e.keywords:
            return f"(inv {self.term(e.args[0], env)})"
        if isinstance(e, ast.Call) and self.u(e.func) == "np.asarray" and len(e.args) == 1 and not e.keywords:
            return self.term(e.args[0], env)
        raise py2lean.Untranslatable(f"glue: expression `{src}` is not built from the known names with @, +, unary -, np.linalg.inv")

    def loop(self, path, qual, var, init_src, steps_src, direct_call, reverse_call):
        """the `for a, b in <steps>: if hasattr(self, direct): X = … elif hasattr(self, reverse): X = … else: raise; <accumulate>` loop:
        returns (term of the direct branch, term of the reverse branch, accumulation statement)"""
        stmts = self.body(path, qual)
        inits = [st for st in stmts if isinstance(st, ast.Assign) and self.u(st.targets[0]) == var]
        if len(inits) != 1 or self.u(inits[0].value) != init_src:
            raise py2lean.Untranslatable(f"{qual}: `{var}` does not start as `{init_src}`")
        loops = [st for st in stmts if isinstance(st, ast.For)]
        if len(loops) != 1 or self.u(loops[0].target) != "(a, b)" or self.u(loops[0].iter) != steps_src or loops[0].orelse:
            raise py2lean.Untranslatable(f"{qual}: no single `for a, b in {steps_src}` loop")
        if not isinstance(stmts[-1], ast.Return) or self.u(stmts[-1].value) != var or stmts.index(loops[0]) != len(stmts) - 2:
            raise py2lean.Untranslatable(f"{qual}: the loop is not followed by `return {var}`")
        body = loops[0].body
        if [self.u(st) for st in body[:2]] != ["direct = f'{a}_to_{b}'", "reverse = f'{b}_to_{a}'"]:
            raise py2lean.Untranslatable(f"{qual}: direct / reverse are not `a_to_b` / `b_to_a`")
        ifs = [st for st in body if isinstance(st, ast.If)]
        if len(ifs) != 1 or len(body) != 4 or body[2] is not ifs[0]:
            raise py2lean.Untranslatable(f"{qual}: loop body is not <names>; if/elif/else; <accumulate>")
        top = ifs[0]
        if self.u(top.test) != "hasattr(self, direct)" or len(top.orelse) != 1 or not isinstance(top.orelse[0], ast.If):
            raise py2lean.Untranslatable(f"{qual}: first test is not hasattr(self, direct)")
        el = top.orelse[0]
        if self.u(el.test) != "hasattr(self, reverse)" or len(el.orelse) != 1 or not isinstance(el.orelse[0], ast.Raise):
            raise py2lean.Untranslatable(f"{qual}: second test is not hasattr(self, reverse) / no raise in the else branch")
        out = []
        for br, call in ((top.body, direct_call), (el.body, reverse_call)):
            if len(br) != 1 or not isinstance(br[0], ast.Assign) or len(br[0].targets) != 1:
                raise py2lean.Untranslatable(f"{qual}: a branch is not one assignment")
            out.append((self.u(br[0].targets[0]), self.term(br[0].value, {call: "E"})))
        if out[0][0] != out[1][0]:
            raise py2lean.Untranslatable(f"{qual}: the two branches assign different names")
        return out[0][0], out[0][1], out[1][1], body[3]

    def text(self):
        # Orientation.convert_to
        x, d, r, acc = self.loop(self.ori, "Orientation.convert_to", "m", "np.identity(6)", "self.steps(new_orient)",
                                 "expand(*getattr(self, direct)(date))", "expand(*getattr(self, reverse)(date))")
        if not (isinstance(acc, ast.Assign) and self.u(acc.targets[0]) == "m"):
            raise py2lean.Untranslatable("Orientation.convert_to: the accumulation is not `m = …`")
        upd = self.term(acc.value, {x: "M", "m": "m"})
        # Center.convert_to
        y, cd, cr, cacc = self.loop(self.cen, "Center.convert_to", "out", "np.zeros(6)", "self.node.steps(new_center)",
                                    "getattr(self, direct)(date, orientation)", "getattr(self, reverse)(date, orientation)")
        if not (isinstance(cacc, ast.AugAssign) and isinstance(cacc.op, ast.Add) and self.u(cacc.target) == "out"):
            raise py2lean.Untranslatable("Center.convert_to: the accumulation is not `out += …`")
        cupd = f"(add out {self.term(cacc.value, {y: 'o'})})"
        # Center._to_parent: the last statement
        tp = self.body(self.cen, "Center._to_parent")[-1]
        if not isinstance(tp, ast.Return):
            raise py2lean.Untranslatable("Center._to_parent: no final return")
        tpt = self.term(tp.value, {"self.orientation.convert_to(date, orientation)": "m", "res": "res"})
        # Frame.transform
        ft = self.body(self.frm, "Frame.transform")
        calls = {}
        for st in ft:
            if isinstance(st, ast.Assign) and isinstance(st.value, ast.Call) and self.u(st.targets[0]) in ("offset", "m"):
                if st.value.keywords:
                    raise py2lean.Untranslatable("Frame.transform: keyword arguments")
                calls[self.u(st.targets[0])] = (self.u(st.value.func), [self.u(a) for a in st.value.args])
        comb = [st for st in ft if isinstance(st, ast.Assign) and self.u(st.targets[0]) == "new_orb[:]"]
        first = ft[0]
        if set(calls) != {"offset", "m"} or len(comb) != 1 or self.u(first) != "new_orb = orbit.copy(form='cartesian')":
            raise py2lean.Untranslatable("Frame.transform: not `new_orb = orbit.copy(form='cartesian')`; offset = …; m = …; new_orb[:] = …")
        ct = self.term(comb[0].value, {"m": "m", "new_orb": "x", "offset": "off"})
        q = lambda xs: "[" + ", ".join('"' + t + '"' for t in xs) + "]"
        return ("/- GENERATED by harness/props/C02.py (_Glue) from beyond/frames/{orient,center,frames}.py — do not edit. -/\n"
                "namespace BeyondVerif.Generated.Glue\n"
                "/-- `Orientation.convert_to`, direct provider found: `" + x + " = expand(*getattr(self, direct)(date))` (E = the expanded provider value) -/\n"
                f"def orientDirect {{α : Type}} (inv : α → α) (E : α) : α := {d}\n"
                "/-- … reverse provider found -/\n"
                f"def orientReverse {{α : Type}} (inv : α → α) (E : α) : α := {r}\n"
                f"/-- the accumulation `{self.u(acc)}`, starting from `np.identity(6)` -/\n"
                f"def orientUpdate {{α : Type}} (mul : α → α → α) (M m : α) : α := {upd}\n"
                "/-- `Center.convert_to`, direct link found (E = what `<a>_to_<b>(date, orientation)` returned) -/\n"
                f"def centreDirect {{β : Type}} (neg : β → β) (E : β) : β := {cd}\n"
                "/-- … reverse link found -/\n"
                f"def centreReverse {{β : Type}} (neg : β → β) (E : β) : β := {cr}\n"
                f"/-- the accumulation `{self.u(cacc)}`, starting from `np.zeros(6)` -/\n"
                f"def centreUpdate {{β : Type}} (add : β → β → β) (out o : β) : β := {cupd}\n"
                f"/-- `Center._to_parent`: `{self.u(tp)}` -/\n"
                f"def centreToParent {{α β : Type}} (mul : α → β → β) (m : α) (res : β) : β := {tpt}\n"
                f"/-- `Frame.transform`: `{self.u(comb[0])}` -/\n"
                f"def transformCombine {{α β : Type}} (mul : α → β → β) (add : β → β → β) (m : α) (x off : β) : β := {ct}\n"
                "/-- the two calls of `Frame.transform`: (callee, arguments) of `offset = …` and of `m = …` -/\n"
                f"def transformCalls : List (String × List String) := [(\"{calls['offset'][0]}\", {q(calls['offset'][1])}), (\"{calls['m'][0]}\", {q(calls['m'][1])})]\n"
                "end BeyondVerif.Generated.Glue\n")



def extract(ctx):
    """Generated/FrameFormulas{F,R}.lean: every closed-form formula of the frame providers, translated from the Python AST;
    Generated/OrientProviders.lean: which `A_to_B` methods class Orientation defines (source order)."""
    import importlib
    is_for = lambda st: isinstance(st, ast.For)
    is_if = lambda st: isinstance(st, ast.If)
    mx, i80, i10, ori, sta = _src("utils", "matrix.py"), _src("frames", "iau1980.py"), _src("frames", "iau2010.py"), _src("frames", "orient.py"), _src("frames", "stations.py")
    consts_mod = importlib.import_module("beyond.constants")
    dates_mod = importlib.import_module("beyond.dates")
    parts = []
    for r in ("rot1", "rot2", "rot3"):
        parts.append(py2lean.translate_function(mx, r, ["theta"], r, mat3=True))
    parts.append(py2lean.translate_function(i80, "_precesion", ["t"], "precAngles80"))
    parts.append(py2lean.translate_slice(i80, "_nutation_series", ["ttt"], ["epsilon_bar", "m_m", "m_s", "u_m_m", "d_s", "om_m"], "nutArgs80",
                                         result_expr="[epsilon_bar, m_m, m_s, u_m_m, d_s, om_m]", stop_before=is_for))
    # the tail of _nutation: `if eop_correction: delta_eps += date.eop.deps / 3600000.0; delta_psi += date.eop.dpsi / 3600000.0`
    nut = py2lean.find_function(ast.parse(open(i80).read()), "_nutation")
    tail = [st for st in nut.body if isinstance(st, ast.If) and isinstance(st.test, ast.Name) and st.test.id == "eop_correction"]
    if len(tail) != 1 or any(not (isinstance(x, ast.AugAssign) and isinstance(x.op, ast.Add) and isinstance(x.target, ast.Name)) for x in tail[0].body) or tail[0].orelse:
        raise py2lean.Untranslatable("_nutation: the eop_correction tail is not `if eop_correction: <name> += <expr> ...`")
    corr = {x.target.id: py2lean.translate_expr(x.value, consts={"date.eop.dpsi": "dpsi_mas", "date.eop.deps": "deps_mas"}) for x in tail[0].body}
    if set(corr) != {"delta_psi", "delta_eps"}:
        raise py2lean.Untranslatable("_nutation: the eop_correction tail does not correct exactly delta_psi and delta_eps")
    parts.append(f"/-- what `_nutation(date, True, terms)` adds to (Δψ, Δε) of the series, degrees -/\ndef nutCorr80 (dpsi_mas deps_mas : R) : List R :=\n  [{corr['delta_psi']}, {corr['delta_eps']}]\n")
    # the guard of the kinematic terms of the equation of the equinoxes: `if date.d >= 50506 and kinematic:` (operator and day from the AST)
    eqx = py2lean.find_function(ast.parse(open(i80).read()), "equinox")
    guards = [st.test for st in eqx.body if isinstance(st, ast.If)]
    ops = {ast.GtE: "≥", ast.Gt: ">", ast.LtE: "≤", ast.Lt: "<"}
    if not (len(guards) == 1 and isinstance(guards[0], ast.BoolOp) and isinstance(guards[0].op, ast.And) and len(guards[0].values) == 2
            and isinstance(guards[0].values[0], ast.Compare) and ast.unparse(guards[0].values[0].left) == "date.d" and len(guards[0].values[0].ops) == 1
            and type(guards[0].values[0].ops[0]) in ops and isinstance(guards[0].values[0].comparators[0], ast.Constant)
            and ast.unparse(guards[0].values[1]) == "kinematic"):
        raise py2lean.Untranslatable("equinox: the guard of the kinematic terms is not `date.d <cmp> <day> and kinematic`")
    cmp_ = guards[0].values[0]
    parts.append(f"/-- the guard of the kinematic terms of `iau1980.equinox`: `if {ast.unparse(guards[0])}:` -/\nabbrev equinoxKinematic (day : R) (kinematic : Bool) : Prop :=\n"
                 f"  (day {ops[type(cmp_.ops[0])]} ({flit(cmp_.comparators[0].value) if isinstance(cmp_.comparators[0].value, float) else '(' + str(int(cmp_.comparators[0].value)) + ' : R)'})) ∧ kinematic = true\n")
    parts.append(py2lean.translate_slice(i80, "_sideral", ["t"], ["theta"], "gmstDeg80", stop_before=is_if))
    parts.append(py2lean.translate_function(i80, "rate", ["lod_ms"], "rate80", consts={"date.eop.lod": "lod_ms"}))
    parts.append(py2lean.translate_slice(i10, "_earth_orientation", ["ttt"], ["s_prime"], "sPrime10"))
    parts.append(py2lean.translate_function(i10, "_sideral", ["jd"], "era10", consts={"date.J2000": flit(dates_mod.Date.J2000)}))
    parts.append(py2lean.translate_function(i10, "rate", ["lod_ms"], "rate10", consts={"date.eop.lod": "lod_ms"}))
    parts.append(py2lean.translate_slice(i10, "_planets", ["ttt"], ["planets"], "planetArgs10"))
    parts.append(py2lean.translate_slice(i10, "_xysxy2", ["ttt"], ["X", "Y", "s_xy2"], "xysPoly10", result_expr="[X, Y, s_xy2]", stop_before=is_for))
    parts.append(py2lean.translate_function(i10, "precesion_nutation", ["X", "Y", "s"], "cioMat", funcs=ROTS, mat3=True))
    parts.append(py2lean.translate_function(ori, "Orientation.G50_to_EME2000", [], "g50Mat", ret_index=0, mat3=True))
    parts.append(py2lean.translate_function(ori, "Orientation.GCRF_to_EME2000", [], "gcrfBiasMat", ret_index=0, mat3=True))
    parts.append(py2lean.translate_attr_assign(ori, "TopocentricOrientation.__init__", "_m", ["lat", "lon"], "topoMat", funcs=ROTS, mat3=True))
    parts.append(py2lean.translate_function(sta, "TopocentricFrame._geodetic_to_cartesian", ["lat", "lon", "alt"], "geodetic",
                                            consts={"Earth.r": flit(consts_mod.Earth.r), "Earth.e": flit(consts_mod.Earth.e)}))
    # the local orbital frames (numpy vector code of beyond/frames/local.py): rows of to_qsw / to_tnw over the V3 / M3 of Mat3.tpl
    loc = _src("frames", "local.py")
    for fn_, ln_ in (("to_qsw", "lofQsw"), ("to_tnw", "lofTnw")):
        parts.append(py2lean.translate_vec_function(loc, fn_, ln_).replace("M3.mk ", "M3.ofRows "))
    ch = py2lean.instantiate(core.LEAN, "FrameFormulas", "\n".join(parts), "beyond/utils/matrix.py, beyond/frames/{iau1980,iau2010,orient,stations,local}.py",
                             imports=("Model.Mat3",))
    # the glue: loops of Orientation.convert_to / Center.convert_to, Center._to_parent, Frame.transform
    glue_error = None
    try:
        if core.write_if_changed(os.path.join(core.LEAN, "BeyondVerif", "Generated", "FrameGlue.lean"), _Glue().text()):
            ch.append("Generated/FrameGlue.lean")
    except py2lean.Untranslatable as e:     # reported after everything else has been regenerated
        glue_error = e
    # provider directions
    tree = ast.parse(open(ori).read())
    cls = py2lean.find_function(tree, "Orientation")
    provs = [n.name.split("_to_") for n in cls.body if isinstance(n, ast.FunctionDef) and "_to_" in n.name and not n.name.startswith("_")]
    txt = ("/- GENERATED by harness/props/C02.py from beyond/frames/orient.py — do not edit. -/\nnamespace BeyondVerif.Generated\n"
           "/-- the `A_to_B` methods of class Orientation, in source order -/\ndef orientProviders : List (String × String) := ["
           + ", ".join(f'("{a}", "{b}")' for a, b in provs) + "]\nend BeyondVerif.Generated\n")
    if core.write_if_changed(os.path.join(core.LEAN, "BeyondVerif", "Generated", "OrientProviders.lean"), txt):
        ch.append("Generated/OrientProviders.lean")
    from harness.props import C20   # Generated/Graphs.lean (orientHist: the `+` operations of orient.py in execution order)
    ch += C20.extract(ctx) or []
    ch += instantiate.main()
    if glue_error is not None:
        raise glue_error
    return ch


# ---------------------------------------------------------------- EOP configurations

LEAP = [(41317, 10.0), (41499, 11.0), (41683, 12.0), (42048, 13.0), (42413, 14.0), (42778, 15.0), (43144, 16.0), (43509, 17.0), (43874, 18.0), (44239, 19.0),
        (44786, 20.0), (45151, 21.0), (45516, 22.0), (46247, 23.0), (47161, 24.0), (47892, 25.0), (48257, 26.0), (48804, 27.0), (49169, 28.0), (49534, 29.0),
        (50083, 30.0), (50630, 31.0), (51179, 32.0), (53736, 33.0), (54832, 34.0), (56109, 35.0), (57204, 36.0), (57754, 37.0)]
EOP_FIELDS = ("x", "y", "dx", "dy", "deps", "dpsi", "lod", "ut1_utc", "tai_utc")
VALLADO = dict(x=-0.140682, y=0.333309, dpsi=-52.195, deps=-3.875, dx=-0.205, dy=-0.136, lod=1.5563, ut1_utc=-0.4399619)   # Vallado ex. 3-15
MODES = ("real", "zero", "missing", "altdb", "patched")
_real_db = {}
_rows = {}
_orig_get = []


def indep_leap(mjd):
    """TAI-UTC (s) from the leap second table written here"""
    return [v for m, v in LEAP if m <= mjd][-1]


def indep_rows():
    """finals.all / finals2000A.all parsed by the IERS readme columns (1-based), independently of beyond/dates/eop.py"""
    if not _rows:
        folder = os.path.join(core.REPO, "tests", "data", "pole")
        for fn, d1, d2 in (("finals.all", "dpsi", "deps"), ("finals2000A.all", "dx", "dy")):
            for line in open(os.path.join(folder, fn), encoding="ascii"):
                mjd = int(float(line[7:15]))

                def col(a, b):
                    t = line[a - 1:b].strip()
                    return float(t) if t else None
                r = _rows.setdefault(mjd, {})
                r.update({"x": col(19, 27), "y": col(38, 46), "ut1_utc": col(59, 68), "lod": col(80, 86), d1: col(98, 106), d2: col(117, 125)})
        # documented behaviour of the readers for the last months of the files: a blank LOD / dX,dY / dPsi,dEps keeps the last value given
        last = {}
        for mjd in sorted(_rows):
            r = _rows[mjd]
            for k in ("lod", "dx", "dy", "dpsi", "deps"):
                if r.get(k) is None and k in last:
                    r[k] = last[k]
                elif r.get(k) is not None:
                    last[k] = r[k]
    return _rows


def alt_transform(r, tai):
    """the record the second database ('c02alt') serves for a day whose IERS record is r: every field differs from the 'real' one"""
    return dict(x=r["y"], y=r["x"], dx=-r["dx"], dy=-r["dy"] + 0.1, dpsi=-r["dpsi"], deps=r["deps"] + 2.0, lod=r["lod"] + 0.7,
                ut1_utc=round(-0.5 * r["ut1_utc"] - 0.1, 7), tai_utc=tai)


def indep_record(mode, mjd):
    """The EOP record configuration `mode` attaches to a date whose UTC day is int(mjd), from sources independent of the
    library's readers (own column parse, own leap second table).  None = not known independently (outside 1973-2017)."""
    zero = dict(x=0.0, y=0.0, dx=0.0, dy=0.0, deps=0.0, dpsi=0.0, lod=0.0, ut1_utc=0.0)
    if mode == "missing":
        return dict(zero, tai_utc=0.0)
    if not (MJD_MIN <= int(mjd) < MJD_MAX):
        return None
    tai = indep_leap(mjd)
    if mode == "zero":
        return dict(zero, tai_utc=tai)
    if mode == "patched":
        return dict(VALLADO, tai_utc=tai)
    r = indep_rows().get(int(mjd))
    if r is None or len(r) < 8 or any(v is None for v in r.values()):
        return None
    if mode == "real":
        return dict(r, tai_utc=tai)
    if mode == "altdb":
        return alt_transform(r, tai)
    raise ValueError(mode)


def set_eop(mode):
    """Five ways a process can be configured (no cache of the library is touched here: a conversion must follow the record of the
    date at hand whatever was computed before):
    real: tests/data/pole through the library's own SimpleEopDatabase (dbname 'default');
    zero: a database whose records are all 0 but TAI-UTC;
    missing: the database cannot be instantiated, policy 'pass' (what a fresh installation does): all 0, TAI-UTC = 0;
    altdb: config eop.dbname names a second registered database ('c02alt') serving other values for the same days;
    patched: EopDb.get itself replaced (what the library's test-suite does), one fixed record (Vallado ex. 3-15) for every day"""
    from beyond.config import config
    from beyond.dates.eop import EopDb, SimpleEopDatabase, Eop
    if not _orig_get:
        _orig_get.append(EopDb.__dict__["get"])
    setattr(EopDb, "get", _orig_get[0])
    folder = os.path.join(core.REPO, "tests", "data", "pole")
    config.set("eop", "missing_policy", "pass")
    config.set("eop", "folder", folder)
    config.set("eop", "type", "all")
    config.set("eop", "dbname", "default")
    EopDb._load_entry_points()
    if "c02alt" not in EopDb._dbs:
        class AltDb:
            def __getitem__(self, mjd):
                r = indep_record("altdb", mjd)
                if r is None:
                    raise KeyError(mjd)
                return Eop(**r)
        EopDb.register(AltDb, "c02alt")
    if mode == "real":
        if folder not in _real_db:
            _real_db[folder] = SimpleEopDatabase()
        EopDb._dbs["default"] = _real_db[folder]
    elif mode == "zero":
        class ZeroDb:
            def __getitem__(self, mjd):
                return Eop(x=0, y=0, dx=0, dy=0, deps=0, dpsi=0, lod=0, ut1_utc=0, tai_utc=indep_leap(mjd))
        EopDb._dbs["default"] = ZeroDb()
    elif mode == "missing":
        class Broken:
            def __init__(self):
                raise FileNotFoundError("no EOP files")
        EopDb._dbs["default"] = Broken
    elif mode == "altdb":
        if folder not in _real_db:
            _real_db[folder] = SimpleEopDatabase()
        EopDb._dbs["default"] = _real_db[folder]
        config.set("eop", "dbname", "c02alt")
    elif mode == "patched":
        def get(cls, mjd, dbname=None):
            return Eop(tai_utc=indep_leap(mjd), **VALLADO)
        setattr(EopDb, "get", classmethod(get))
    else:
        raise ValueError(mode)


T0 = None


def pure_times(scale, d, s, rec):
    """What the providers read from a date, computed from its TEXT (day d, seconds s in `scale`) and an EOP record only, with
    python datetime arithmetic (microsecond resolution, like the library's Date): TT century, UT1 century, UT1 JD, day number,
    and (UT1 day JD at 0h, UT1 seconds of day) for the independent sidereal formulas."""
    from datetime import datetime, timedelta
    t0 = datetime(1858, 11, 17)
    dt = t0 + timedelta(days=d, seconds=s)
    tai_utc, ut1_utc = rec["tai_utc"], rec["ut1_utc"]
    if scale == "UTC":
        to_tt, to_ut1 = 0 + tai_utc + 32.184, 0 + ut1_utc
    elif scale == "TAI":
        to_tt, to_ut1 = 0 + 32.184, 0 - tai_utc + ut1_utc
    elif scale == "TT":
        to_tt, to_ut1 = 0.0, 0 - 32.184 - tai_utc + ut1_utc
    else:
        raise ValueError(scale)

    def jd(x):
        delta = x - t0
        return delta.days + (delta.seconds + delta.microseconds * 1e-6) / 86400.0 + 2400000.5
    jd_tt, jd_ut1 = jd(dt + timedelta(seconds=to_tt)), jd(dt + timedelta(seconds=to_ut1))
    ut1 = (dt + timedelta(seconds=to_ut1)) - t0
    return {"ttt": (jd_tt - 2451545.0) / 36525.0, "tut1": (jd_ut1 - 2451545.0) / 36525.0, "jdut1": jd_ut1, "day": float(d),
            "ut1_jd0": ut1.days + 2400000.5, "ut1_sec": ut1.seconds + ut1.microseconds * 1e-6}


def rec_of(eop):
    return {k: float(getattr(eop, k)) for k in EOP_FIELDS}


# ---------------------------------------------------------------- frames used by the sweeps

_stations = {}
_counter = [0]


def stations():
    from beyond.frames.stations import create_station
    if not _stations:
        _stations["C02Tls"] = create_station("C02Tls", (43.604482, 1.443962, 172.0))
        _stations["C02Sth"] = create_station("C02Sth", (-72.0, -130.5, 30.0))
        _stations["C02Eqt"] = create_station("C02Eqt", (0.1, 179.9, 2500.0))
        _stations["C02Equ"] = create_station("C02Equ", (28.5, -80.6, 3.0), equatorial=True)
    return _stations


# day numbers at which a branch of the anchored code switches (iau1980.equinox: kinematic terms from MJD 50506 = 1997-02-27 on)
BRANCH_DAYS = (50506,)


def rand_ds(rng, lo=MJD_MIN, hi=MJD_MAX):
    """(day, seconds) of a UTC text: uniform over the tables, 15 % within +-5 years of a branch day (both sides, and the two days at it)"""
    d = rng.randrange(lo, hi)
    if lo == MJD_MIN and hi == MJD_MAX and rng.random() < 0.15:
        b = rng.choice(BRANCH_DAYS)
        d = rng.choice([b - 1, b, rng.randrange(b - 1830, b), rng.randrange(b - 1830, b), rng.randrange(b, b + 1830)])
    s = round(rng.uniform(0, 86399.0), rng.choice([0, 3, 6]))
    if rng.random() < 0.1:
        s = rng.choice([0.0, 1.0, 43200.0, 86398.0])
    return d, s


def rand_date(rng, lo=MJD_MIN, hi=MJD_MAX):
    from beyond.dates import Date
    return Date(*rand_ds(rng, lo, hi))


def rand_kepl(rng):
    a = rng.choice([6.8e6, 7.2e6, 1.2e7, 2.66e7, 4.2164e7]) * rng.uniform(0.97, 1.03)
    e = rng.choice([0.0005, 0.01, 0.1, 0.3, 0.6])
    if a * (1 - e) < 6.6e6:
        e = 0.001
    return [a, e, rng.uniform(0.05, 3.0), rng.uniform(0, 6.28), rng.uniform(0, 6.28), rng.uniform(0, 6.28)]


def make_orbit(kepl, date, frame="EME2000"):
    from beyond.orbits import Orbit
    from beyond.propagators.kepler import Kepler
    return Orbit(kepl, date, "keplerian", frame, Kepler())


_pool = []
_pool_last = []


def attached_frames(rng, date):
    """orbit-attached frames: centre on a Keplerian orbit (propagated to the date of the state by the library), orientation
    parent / QSW / TNW.  A pool of 4 reference orbits is created once per process (every frame is registered globally)."""
    from beyond.frames.frames import orbit2frame, EME2000
    if not _pool:
        for k in range(4):
            ref = make_orbit(rand_kepl(rng), date)
            out = {}
            for ori in (None, "QSW", "TNW"):
                name = f"C02orb{k}{ori or 'inert'}"
                out[name] = orbit2frame(name, ref, orientation=ori, parent=EME2000, exists_warning=False)
            _pool.append((out, ref))
    out, ref = rng.choice(_pool)
    _pool_last[:] = [ref]
    return out, ref.propagate(date)


_bodies = {}


def body_frames():
    from beyond.env import solarsystem
    if not _bodies:
        for b in ("Moon", "Sun"):
            _bodies[b] = solarsystem.get_frame(b)
    return _bodies



# ---------------------------------------------------------------- scenario: a SPEC of frames, realised through the public API

def np_lof(tnw, sv):
    """rows of the local orbital frame written from the definition (QSW: radial, in-plane, normal; TNW: velocity, in-plane, normal)"""
    import numpy as np
    r, v = np.asarray(sv[:3], float), np.asarray(sv[3:], float)
    w = np.cross(r, v)
    w = w / np.linalg.norm(w)
    if tnw:
        t = v / np.linalg.norm(v)
        return np.array([t, np.cross(w, t), w])
    q = r / np.linalg.norm(r)
    return np.array([q, np.cross(w, q), w])


def np_topo(lat, lon):
    """station axes (X north... as documented: rot3(-lon) rot2(lat - pi/2) rot3(pi)), written entry by entry"""
    import numpy as np
    sl, cl, sp, cp = math.sin(lon), math.cos(lon), math.sin(lat), math.cos(lat)
    # columns: South-ish/East/Zenith basis turned by pi about Z -> (north-ish, west, zenith) expressed in the parent
    return np.array([[-sp * cl, sl, cp * cl], [-sp * sl, -cl, cp * sl], [cp, 0.0, sp]])


def np_geodetic(lat, lon, alt):
    import numpy as np
    from beyond.constants import Earth
    n = Earth.r / math.sqrt(1 - (Earth.e * math.sin(lat)) ** 2)
    return np.array([(n + alt) * math.cos(lat) * math.cos(lon), (n + alt) * math.cos(lat) * math.sin(lon), (n * (1 - Earth.e ** 2) + alt) * math.sin(lat), 0, 0, 0])


class Scenario:
    """A specification of frames — where each centre IS and how each orientation is defined — from which
    (a) the real frames are created through the public API (create_station, solarsystem.get_frame, orbit2frame) and
    (b) the inputs of the Lean model (orientation links/providers, centre links/offsets) are derived *independently of the
    objects the library builds*.  A library that hooks a centre or registers a provider at the wrong place disagrees with the model.

    orientation nodes: 0..9 built-in, 10 station (topocentric), 11/12 QSW/TNW on orbit A (parent EME2000),
                       13 QSW on the lunar orbiter L (parent = the Moon-centred frame), 14 TNW on the chaser C (parent = frame 'A inertial')
    centre nodes:      0 Earth, 1 station, 2 orbit A, 3 Moon, 4 equatorial station, 5 chaser C (given relative to A),
                       6 lunar orbiter L (given in the Moon frame), 7 point S given in the station frame, 8 point K (StateVector held in keplerian form)
    """

    def __init__(self, rng, idx, tag):
        import numpy as np
        from beyond.dates import Date
        from beyond.orbits import StateVector
        from beyond.frames.frames import orbit2frame, get_frame, EME2000
        from beyond.frames.stations import create_station
        import logging
        logging.getLogger("beyond.frames.frames").setLevel(logging.ERROR)   # re-registration under the same names is intended here
        self.idx, self.tag = idx, tag
        ITRF, EME = idx["ITRF"], idx["EME2000"]
        self.ITRF, self.EME = ITRF, EME
        n = lambda x: f"C02s{tag}{x}"
        d0 = Date(2005, 6, 7, 8, 9, 10)
        self.latlonalt = (rng.uniform(-80, 80), rng.uniform(-179, 179), rng.uniform(0, 3000))
        self.sta = create_station(n("Sta"), self.latlonalt)
        self.equ = create_station(n("Equ"), (rng.uniform(-60, 60), rng.uniform(-179, 179), 10.0), equatorial=True)
        self.equ_lla = self.equ_latlonalt = None
        self.moon = body_frames()["Moon"]
        self.A = make_orbit(rand_kepl(rng), d0)
        self.relC = np.array([rng.uniform(-3e3, 3e3) for _ in range(3)] + [rng.uniform(-3, 3) for _ in range(3)])
        self.pvL = np.array([1837.4e3 + rng.uniform(0, 2e5), rng.uniform(-2e4, 2e4), rng.uniform(-5e4, 5e4), rng.uniform(-20, 20), 1150.0 + rng.uniform(-50, 50), 1170.0 + rng.uniform(-50, 50)])
        self.pvS = np.array([rng.uniform(-5e4, 5e4), rng.uniform(-5e4, 5e4), rng.uniform(1e3, 4e5), rng.uniform(-50, 50), rng.uniform(-50, 50), rng.uniform(-50, 50)])
        self.keplK = [7.0e6 + rng.uniform(0, 3e6), rng.uniform(0.001, 0.2), rng.uniform(0.1, 2.9), rng.uniform(0, 6), rng.uniform(0, 6), rng.uniform(0, 6)]
        fA = orbit2frame(n("Ai"), self.A, exists_warning=False)
        orbit2frame(n("Aq"), self.A, orientation="QSW", exists_warning=False)
        orbit2frame(n("At"), self.A, orientation="TNW", exists_warning=False)
        self.C = StateVector(self.relC, d0, "cartesian", fA)                   # chaser known relative to A
        orbit2frame(n("Ci"), self.C, exists_warning=False)
        orbit2frame(n("Ct"), self.C, orientation="TNW", parent=fA, exists_warning=False)
        self.L = StateVector(self.pvL, d0, "cartesian", self.moon)            # lunar orbiter, Moon-centred state
        orbit2frame(n("Li"), self.L, exists_warning=False)                     # default parent
        orbit2frame(n("Lq"), self.L, orientation="QSW", parent=self.moon, exists_warning=False)
        self.S = StateVector(self.pvS, d0, "cartesian", self.sta)             # a point given in the station frame
        orbit2frame(n("Si"), self.S, exists_warning=False)
        self.K = StateVector(self.keplK, d0, "keplerian", "EME2000")
        self.pvK = np.array(self.K.copy(form="cartesian"))
        orbit2frame(n("Ki"), self.K, exists_warning=False)
        equ_c = np.array(self.equ.center.offset, float)   # geodetic coordinates are checked separately (c02geod); here only the graph matters
        # (frame name, orientation node, centre node, class for the oracle families)
        self.frames = [(nm, i, 0, nm) for nm, i in idx.items()] + [
            (n("Sta"), 10, 1, "station"), (n("Equ"), EME, 4, "station-equatorial"), ("Moon", EME, 3, "body-Moon"),
            (n("Ai"), EME, 2, "orbit-inert"), (n("Aq"), 11, 2, "orbit-QSW"), (n("At"), 12, 2, "orbit-TNW"),
            (n("Ci"), EME, 5, "nested-inert"), (n("Ct"), 14, 5, "nested-TNW"),
            (n("Li"), EME, 6, "moon-orbiter-inert"), (n("Lq"), 13, 6, "moon-orbiter-QSW"),
            (n("Si"), 10, 7, "station-point"), (n("Ki"), EME, 8, "kepl-point")]
        self.equ_c = equ_c
        # the `+` operations, as the documented construction implies them
        self.ohist = [(ITRF, 10), (10, ITRF), (EME, 11), (EME, 12), (EME, 14), (EME, 13)]
        self.chist = [(1, 0), (4, 0), (2, 0), (5, 2), (6, 3), (7, 1), (8, 0)]   # Moon (3,0) is inserted where the library created it: first
        self.names = {k: n(k) for k in ("Sta", "Equ", "Ai", "Aq", "At", "Ci", "Ct", "Li", "Lq", "Si", "Ki")}
        self.chist_full = [(3, 0)] + self.chist

    def model_inputs(self, date):
        """orientation extras [(child, parent, 3x3)], centre links {child: (parent, orientation node, offset6)} at the date"""
        import numpy as np
        from beyond.env.solarsystem import MoonPropagator
        lat, lon, alt = math.radians(self.latlonalt[0]), math.radians(self.latlonalt[1]), self.latlonalt[2]
        pvA = np.array(self.A.propagate(date))
        ex = [(10, self.ITRF, np_topo(lat, lon)), (11, self.EME, np_lof(False, pvA).T), (12, self.EME, np_lof(True, pvA).T),
              (13, self.EME, np_lof(False, self.pvL).T), (14, self.EME, np_lof(True, self.relC).T)]
        cl = {1: (0, self.ITRF, np_geodetic(lat, lon, alt)), 2: (0, self.EME, pvA), 3: (0, self.EME, np.array(MoonPropagator.propagate(date))),
              4: (0, self.ITRF, self.equ_c), 5: (2, self.EME, self.relC), 6: (3, self.EME, self.pvL), 7: (1, 10, self.pvS), 8: (0, self.EME, self.pvK)}
        return ex, cl, []


_scenarios = []


def scenarios(rng, idx, k=2):
    while len(_scenarios) < k:
        _scenarios.append(Scenario(rng, idx, len(_scenarios)))
    return _scenarios


# ---------------------------------------------------------------- orbit-attached frames built from every kind of reference

ISS_TLE = """ISS (ZARYA)
1 25544U 98067A   08264.51782528 -.00002182  00000-0 -11606-4 0  2927
2 25544  51.6416 247.4627 0006703 130.5360 325.0288 15.72125391563537"""
INERTIAL_FORMS = ["cartesian", "keplerian", "spherical", "equinoctial", "keplerian_circular", "keplerian_mean", "keplerian_eccentric", "cylindrical"]
# (kind of reference, frames it may be expressed in, forms it may be held in)
REF_KINDS = [("static", ["EME2000", "TEME", "GCRF", "MOD", "TOD", "CIRF"], INERTIAL_FORMS), ("static", ["ITRF", "PEF", "TIRF"], ["cartesian", "spherical", "cylindrical"]),
             ("kepler", ["EME2000", "TEME", "GCRF", "MOD"], INERTIAL_FORMS), ("j2", ["EME2000", "TEME", "GCRF"], INERTIAL_FORMS),
             ("num", ["EME2000"], ["cartesian", "keplerian", "spherical"]), ("tle", ["TEME"], ["tle"]), ("ephem", ["EME2000", "TEME", "GCRF", "MOD"], INERTIAL_FORMS)]


def ref_snapshot(ref):
    """values, form, frame, date of a reference (of every point of an Ephem)"""
    import numpy as np
    from beyond.orbits.ephem import Ephem
    pts = list(ref) if isinstance(ref, Ephem) else [ref]
    return [(tuple(float(x) for x in np.asarray(p)), p.form.name, p.frame.name, str(p.date)) for p in pts]


class RefScenario:
    """Frames attached (orbit2frame) to EVERY KIND of reference: a plain StateVector without propagator, an Orbit with the Kepler / J2 /
    numerical / SGP4 propagator, an Ephem; expressed in the parent frame or in another one; held in every form; orientation of the
    reference frame / QSW / TNW; default and non-default parent.  Specification: the frame is centred on the point the reference
    occupies at the date, its QSW / TNW axes are those of that point's position and velocity expressed in the parent frame.  The model
    inputs come from a TWIN of each reference (a separate object built from the same numbers, never handed to orbit2frame), so the
    references the library holds are only ever touched by the library — and must be found unchanged (values, form, frame, date).
    All instants lie within 10..90 min after the epoch of the TLE (2008-09-20)."""

    def __init__(self, rng, idx, tag, n):
        import logging
        import numpy as np
        from beyond.dates import timedelta
        from beyond.io.tle import Tle
        from beyond.orbits import StateVector
        from beyond.propagators.kepler import Kepler
        from beyond.propagators.j2 import J2
        from beyond.propagators.keplernum import KeplerNum
        from beyond.env.solarsystem import get_body
        from beyond.frames.frames import orbit2frame, get_frame
        logging.getLogger("beyond.frames.frames").setLevel(logging.ERROR)
        self.idx, self.tag = idx, tag
        self.epoch = Tle(ISS_TLE).orbit().date
        cart0 = np.array(Tle(ISS_TLE).orbit().propagate(self.epoch).copy(form="cartesian"))
        # the date object the static references carry was created here, under the 'real' configuration: conversions AT that date read its record
        ed, es = self.epoch.d, round(self.epoch.s, 6)
        self.epoch_rec = indep_record("real", ed + es / 86400.0)
        self.epoch_t = pure_times("UTC", ed, es, self.epoch_rec)
        lib_tt, lib_ut1 = self.epoch.change_scale("TT"), self.epoch.change_scale("UT1")
        if abs(lib_ut1.jd - self.epoch_t["jdut1"]) <= 1e-9 and abs(lib_tt.julian_century - self.epoch_t["ttt"]) <= 1e-13:
            self.epoch_t.update(jdut1=lib_ut1.jd, tut1=lib_ut1.julian_century, ttt=lib_tt.julian_century)
        catalogue = [(k, g, f) for k, gs, fs in REF_KINDS for g in gs for f in fs]
        picks = rng.sample(catalogue, min(n, len(catalogue)))
        # every kind, and the static reference outside its parent frame, at least once
        for must in [("static", "TEME", "cartesian"), ("static", "ITRF", "spherical"), ("kepler", "TEME", "keplerian"), ("j2", "EME2000", "equinoctial"), ("num", "EME2000", "cartesian"),
                     ("tle", "TEME", "tle"), ("ephem", "MOD", "keplerian")]:
            if not any(p[0] == must[0] and (must[0] != "static" or (p[1] in ("ITRF", "PEF", "TIRF")) == (must[1] == "ITRF")) for p in picks):
                picks.append(must)

        def build(kind, G, form, cart):
            if kind == "tle":
                return Tle(ISS_TLE).orbit()
            base = StateVector(cart, self.epoch, "cartesian", G).copy(form=form)
            if kind == "static":
                return base
            if kind == "kepler":
                return base.as_orbit(Kepler())
            if kind == "j2":
                return base.as_orbit(J2())
            if kind == "num":
                return base.as_orbit(KeplerNum(timedelta(seconds=600), get_body("Earth"), frame=G))
            if kind == "ephem":
                return base.as_orbit(Kepler()).ephem(start=self.epoch, stop=timedelta(hours=2), step=timedelta(seconds=180))
            raise ValueError(kind)

        self.refs, self.frames, self.ohist, self.chist, self.lofs_static = [], [(nm, i, 0, nm) for nm, i in idx.items()], [], [], []
        node, cnode = 10, 1
        for k, (kind, G, form) in enumerate(picks):
            dv = np.array([rng.uniform(-5e4, 5e4) for _ in range(3)] + [rng.uniform(-20, 20) for _ in range(3)])
            if G in ("ITRF", "PEF", "TIRF"):
                cart = np.array([rng.uniform(3e6, 6e6), rng.uniform(-5e6, 5e6), rng.uniform(-4e6, 4e6), rng.uniform(-300, 300), rng.uniform(-300, 300), rng.uniform(-100, 100)])
            else:
                cart = cart0 + dv
            ref, twin = build(kind, G, form, cart), build(kind, G, form, cart)
            parent = "EME2000" if rng.random() < 0.7 else rng.choice(["GCRF", "MOD", "TEME"])
            entry = {"kind": kind, "G": G, "form": form, "ref": ref, "twin": twin, "snap": ref_snapshot(ref), "cls": f"ref-{kind}-{G}-{form}", "frames": []}
            for ori in (None, "QSW", "TNW"):
                name = f"C02r{tag}k{k}{ori or 'i'}"
                if ori is None:
                    orbit2frame(name, ref, exists_warning=False)
                    fr = (name, idx[G], cnode, f"ref-{kind}-{G}-{form}:inert")
                else:
                    orbit2frame(name, ref, orientation=ori, parent=get_frame(parent), exists_warning=False)
                    fr = (name, node, cnode, f"ref-{kind}-{G}-{form}:{ori}-below-{parent}")
                    self.ohist.append((idx[parent], node))
                    entry.setdefault("lofs", []).append((node, idx[parent], 1 if ori == "TNW" else 0))
                    node += 1
                self.chist.append((cnode, 0))
                entry["frames"].append(fr)
                entry.setdefault("cnodes", []).append(cnode)
                cnode += 1
                self.frames.append(fr)
            self.refs.append(entry)
        self.chist_full = list(self.chist)

    def rand_instant(self, rng):
        from beyond.dates import timedelta
        t = self.epoch + timedelta(seconds=round(rng.uniform(600, 5400), rng.choice([0, 3])))
        return t.d, round(t.s, 6)

    def point(self, entry, date):
        """cartesian coordinates, in its frame G, of the point the reference occupies at the date — from the twin"""
        import numpy as np
        tw = entry["twin"]
        p = tw.propagate(date) if hasattr(tw, "propagate") else tw
        if p.frame.name != entry["G"]:
            raise RuntimeError(f"twin of {entry['cls']} answers in {p.frame.name}")
        return np.array(p.copy(form="cartesian"))

    def model_inputs(self, date):
        cl, lofs = {}, []
        for e in self.refs:
            pv = self.point(e, date)
            for c in e["cnodes"]:
                cl[c] = (0, self.idx[e["G"]], pv)
            for node, par, tnw in e.get("lofs", []):
                # a reference without propagator is converted to the parent at ITS OWN date (that is what the code does)
                lofs.append((node, par, tnw, self.idx[e["G"]], pv, e["kind"] == "static"))
        return [], cl, lofs

    def check_untouched(self, out, where, inp):
        """the references handed to orbit2frame by the caller are what they were: values, form, frame, date"""
        for e in self.refs:
            out.count(key=("untouched", e["cls"], where), kind="reference-untouched", ref=e["kind"])
            now = ref_snapshot(e["ref"])
            if now != e["snap"]:
                bad = next(((a, b) for a, b in zip(now, e["snap"]) if a != b), (now[:1], e["snap"][:1]))
                out.fail(f"reference-untouched:{e['cls']}", "a reference state handed to orbit2frame was modified by converting to / from the frame attached to it (values, form, frame or date)",
                         dict(inp, reference=e["cls"], after=where), observed=str(bad[0])[:300], expected=str(bad[1])[:300], violates_property=True)
                e["snap"] = now      # reported once


_ref_scenarios = {}


def ref_scenario(rng, idx, tag, n):
    if tag not in _ref_scenarios:
        set_eop("real")
        _ref_scenarios[tag] = RefScenario(rng, idx, tag, n)
    return _ref_scenarios[tag]


# ---------------------------------------------------------------- independent formulas (oracle only)

def indep_gmst82(jd_ut1_day, sec_ut1):
    """GMST (IAU 1982) in radians from the 0h form: GMST(0h UT1) + ratio * UT1, independent of the code's polynomial in t"""
    # jd_ut1_day: JD at 0h UT1 (…​.5), sec_ut1 seconds elapsed in the UT1 day
    tu = (jd_ut1_day - 2451545.0) / 36525.0
    g0 = 24110.54841 + 8640184.812866 * tu + 0.093104 * tu * tu - 6.2e-6 * tu ** 3
    t_full = (jd_ut1_day + sec_ut1 / 86400.0 - 2451545.0) / 36525.0
    # ratio of sidereal to UT1 day, evaluated at the instant (Aoki et al. 1982)
    ratio = 1.002737909350795 + 5.9006e-11 * t_full - 5.9e-15 * t_full ** 2
    sec = (g0 + ratio * sec_ut1) % 86400.0
    return sec / 86400.0 * 2 * math.pi


def indep_era(jd_ut1_day, sec_ut1):
    tu_day = jd_ut1_day - 2451545.0
    f = sec_ut1 / 86400.0
    turns = (0.7790572732640 + 0.00273781191135448 * (tu_day + f) + (tu_day % 1.0) + f) % 1.0
    return turns * 2 * math.pi


def indep_precession(t):
    """IAU 1976 precession matrix MOD -> J2000 written entry by entry (Lieske 1979; Vallado eq. 3-89 transposed)"""
    import numpy as np
    z_a = (2306.2181 * t + 0.30188 * t * t + 0.017998 * t ** 3) * ARCSEC   # zeta
    th = (2004.3109 * t - 0.42665 * t * t - 0.041833 * t ** 3) * ARCSEC
    z = (2306.2181 * t + 1.09468 * t * t + 0.018203 * t ** 3) * ARCSEC
    cz, sz, ct, st, cZ, sZ = math.cos(z_a), math.sin(z_a), math.cos(th), math.sin(th), math.cos(z), math.sin(z)
    return np.array([
        [ct * cZ * cz - sZ * sz, sZ * ct * cz + sz * cZ, st * cz],
        [-sz * ct * cZ - sZ * cz, -sZ * sz * ct + cZ * cz, -st * sz],
        [-st * cZ, -st * sZ, ct],
    ])


def indep_nut80(ttt, rows):
    """IAU-1980 nutation from the fundamental arguments as published (arcseconds; Seidelmann 1992, IERS TN 21) and the rows of tab5.1
    parsed here: (mean obliquity rad, dpsi rad, deps rad, Omega of the kinematic terms rad)"""
    r, T = 1296000.0, ttt
    l = 485866.733 + (1325 * r + 715922.633) * T + 31.310 * T * T + 0.064 * T ** 3
    lp = 1287099.804 + (99 * r + 1292581.224) * T - 0.577 * T * T - 0.012 * T ** 3
    F = 335778.877 + (1342 * r + 295263.137) * T - 13.257 * T * T + 0.011 * T ** 3
    D = 1072261.307 + (1236 * r + 1105601.328) * T - 6.891 * T * T + 0.019 * T ** 3
    Om = 450160.280 - (5 * r + 482890.539) * T + 7.455 * T * T + 0.008 * T ** 3
    fa = [math.fmod(x, r) * ARCSEC for x in (l, lp, F, D, Om)]
    dpsi = deps = 0.0
    for row in rows:
        arg = sum(a * f for a, f in zip(row[:5], fa))
        dpsi += (row[5] + row[6] * T) * math.sin(arg)
        deps += (row[7] + row[8] * T) * math.cos(arg)
    eps0 = (84381.448 - 46.8150 * T - 0.00059 * T * T + 0.001813 * T ** 3) * ARCSEC
    om03 = math.fmod(450160.398036 - 6962890.2665 * T + 7.4722 * T * T + 0.007702 * T ** 3, r) * ARCSEC   # IERS 1996/2003 node
    return eps0, dpsi * 1e-4 * ARCSEC, deps * 1e-4 * ARCSEC, om03


def indep_eqeq(ttt, rows, utc_day, kinematic=True):
    """equation of the equinoxes (rad): dpsi cos(eps) + [from 1997-02-27 0h UTC = MJD 50506 on] 0.00264" sin Om + 0.000063" sin 2 Om (IERS TN 21)"""
    eps0, dpsi, _, om = indep_nut80(ttt, rows)
    eq = dpsi * math.cos(eps0)
    if kinematic and utc_day >= 50506:
        eq += (0.00264 * math.sin(om) + 0.000063 * math.sin(2 * om)) * ARCSEC
    return eq


def R1(t):
    import numpy as np
    c, s = math.cos(t), math.sin(t)
    return np.array([[1, 0, 0], [0, c, s], [0, -s, c]])


def R2(t):
    import numpy as np
    c, s = math.cos(t), math.sin(t)
    return np.array([[c, 0, -s], [0, 1, 0], [s, 0, c]])


def R3(t):
    import numpy as np
    c, s = math.cos(t), math.sin(t)
    return np.array([[c, s, 0], [-s, c, 0], [0, 0, 1]])


def wrap(x):
    return (x + math.pi) % (2 * math.pi) - math.pi


_t51 = []
_seen_instants = {}


def earth_rotation_checks(out, mode, scale, d, s, date, rec, via):
    """The clause "the Earth-fixed <-> inertial rotation agrees with independently computed sidereal time, Earth-rotation angle and
    precession", for the date AT HAND: every expected value is computed here from the text of the date (d, s, scale) and the EOP record
    `rec` of the CURRENT configuration, known independently of the library (UT1 = UTC + ut1_utc, TT = UTC + tai_utc + 32.184 s) — never
    from date.eop, date.change_scale or a helper of beyond.frames.
    via = 'matrix': Orientation.convert_to;  via = 'state': StateVector.copy(frame=...) of three basis states (what a user calls).
    The configurations under which this very text was converted earlier in the process are kept (`_seen_instants`) and named in the input."""
    import numpy as np
    from beyond.frames.frames import get_frame
    from beyond.orbits import StateVector
    if not _t51:
        _t51.extend(parse_tab51())
    t = pure_times(scale, d, s, rec)
    after = [m for m in _seen_instants.get((scale, d, s), []) if m != mode]
    _seen_instants.setdefault((scale, d, s), []).append(mode)
    hist = "" if not after else ":after-other-configuration"
    inp = {"eop": mode, "date": f"Date({d}, {s!r}, scale='{scale}')", "record": rec, "via": via}
    if after:
        inp["converted_before_under"] = list(after)
    tag = dict(eop=mode, via=via, scale=scale, history="revisit" if after else "first")
    # the record attached to the date is the one of the current configuration
    out.count(key=("eoprec", mode, scale, d, s), kind="eop-of-configuration", **tag)
    for k in EOP_FIELDS:
        if float(getattr(date.eop, k)) != rec[k]:
            out.fail(f"eop-of-configuration:{mode}:{k}{hist}", f"date.eop.{k} is not the value of the configured EOP source for that day", inp, observed=float(getattr(date.eop, k)), expected=rec[k])

    def blocks(a, b):
        if via == "matrix":
            m = get_frame(a).orientation.convert_to(date, get_frame(b).orientation)
            return m[:3, :3], m[3:, :3]
        cols = [np.array(StateVector([7e6 * (i == 0), 7e6 * (i == 1), 7e6 * (i == 2), 0, 0, 0], date, "cartesian", a).copy(frame=b)) / 7e6 for i in range(3)]
        return np.array([c[:3] for c in cols]).T, np.array([c[3:] for c in cols]).T

    w = 7.292115146706979e-5 * (1 - rec["lod"] / 1000.0 / 86400.0)
    wx = np.array([[0, -w, 0], [w, 0, 0], [0, 0, 0]])
    eq = indep_eqeq(t["ttt"], _t51, int(t["day"]))
    for a, b, name, expected in (("PEF", "TOD", "sidereal-independent", indep_gmst82(t["ut1_jd0"], t["ut1_sec"]) + eq),
                                 ("TIRF", "CIRF", "era-independent", indep_era(t["ut1_jd0"], t["ut1_sec"]))):
        r, bl = blocks(a, b)
        ang = math.atan2(r[1, 0], r[0, 0])
        out.count(key=(name, mode, scale, d, s, via), kind=name, **tag)
        if not abs(wrap(ang - expected)) <= 1e-3 * ARCSEC + (0 if via == "matrix" else 1e-12):   # 1 mas; jd is one double: 1.7e-9 rad of rounding
            out.fail(name + hist, f"{a}->{b} rotation angle differs from the sidereal time / Earth rotation angle computed independently from UT1 = {scale} text + offsets of the record of the date",
                     inp, observed=float(ang % (2 * math.pi)), expected=float(expected % (2 * math.pi)))
        out.count(key=("rate", a, mode, scale, d, s, via), kind="rate-block", **tag)
        if np.abs(bl - wx @ r).max() > 1e-15 + (0 if via == "matrix" else 1e-13):
            out.fail(f"rate-block:{a}>{b}{hist}", f"{a}->{b} velocity coupling is not +w x R r with w = w_earth (1 - lod/86400 s) of the record of the date", inp, observed=bl.tolist(), expected=(wx @ r).tolist())
    xp, yp = rec["x"] * ARCSEC, rec["y"] * ARCSEC
    sp = -0.000047 * t["ttt"] * ARCSEC
    eps0, dpsi, deps, _ = indep_nut80(t["ttt"], _t51)
    eq4 = indep_eqeq(t["ttt"], _t51[:4], int(t["day"]), kinematic=False)
    for a, b, name, exp, tol in (("ITRF", "PEF", "polar-motion-independent:1980", R1(yp) @ R2(xp), 1e-12),
                                 ("ITRF", "TIRF", "polar-motion-independent:2010", R3(-sp) @ R2(xp) @ R1(yp), 1e-12),
                                 ("TOD", "MOD", "nutation-independent", R1(-eps0) @ R3(dpsi) @ R1(eps0 + deps), 1e-9),
                                 ("TEME", "TOD", "teme-equinox-independent", R3(-eq4), 1e-9),
                                 ("MOD", "EME2000", "precession-independent", indep_precession(t["ttt"]), 1e-11)):
        r, _ = blocks(a, b)
        out.count(key=(name, mode, scale, d, s, via), kind=name.split(":")[0], **tag)
        if not np.abs(r - exp).max() <= tol + (0 if via == "matrix" else 1e-12):
            out.fail(name + hist, f"{a}->{b} differs from the matrix written here from the record / the text of the date", inp, observed=r.tolist(), expected=exp.tolist())
    # the public iau1980.nutation(date) with its default eop_correction=True (what iau1980.equinox(date), sideral(date, model="apparent")
    # and beyond/io/horizon.py read): the series plus the corrections dPsi, dEps of the record of the date
    from beyond.frames import iau1980
    exp = R1(-eps0) @ R3(dpsi + rec["dpsi"] * 1e-3 * ARCSEC) @ R1(eps0 + deps + rec["deps"] * 1e-3 * ARCSEC)
    got = iau1980.nutation(date)
    out.count(key=("nutcorr", mode, scale, d, s, via), kind="nutation-eop-correction", **tag)
    if not np.abs(got - exp).max() <= 1e-9:
        out.fail("nutation-eop-correction" + hist, "iau1980.nutation(date) (EOP corrections included) is not the 1980 series plus dPsi, dEps of the record of the date",
                 inp, observed=got.tolist(), expected=exp.tolist())
    # the kinematic terms of the equation of the equinoxes, isolated: equinox(kinematic=True) - equinox(kinematic=False) is
    # 0.00264" sin Om + 0.000063" sin 2 Om from 1997-02-27 0h UTC (MJD 50506, that day included) on and 0 before (IERS TN 21).  The date was
    # chosen by the IERS at a zero crossing of sin Om: on the very day the terms are ~5e-6", far below the 1 mas of the checks above.
    kin = iau1980.equinox(date, eop_correction=False, kinematic=True) - iau1980.equinox(date, eop_correction=False, kinematic=False)
    om = indep_nut80(t["ttt"], _t51[:1])[3]
    kin_exp = (0.00264 * math.sin(om) + 0.000063 * math.sin(2 * om)) / 3600.0 if int(t["day"]) >= 50506 else 0.0
    out.count(key=("kinematic", mode, scale, d, s, via), kind="kinematic-terms", side="from-50506" if int(t["day"]) >= 50506 else "before", **tag)
    if not abs(kin - kin_exp) <= 1e-12:
        out.fail("kinematic-terms" + (":switch-day" if abs(int(t["day"]) - 50506) <= 1 else "") + hist, "iau1980.equinox: the kinematic terms are not 0.00264\" sin Om + 0.000063\" sin 2 Om from MJD 50506 on (that day included) and 0 before",
                 inp, observed=float(kin), expected=float(kin_exp))
    # CIRF->GCRF: the third column of the CIO matrix is (X, Y, .) with X = X_series(TT) + dX of the record: X - dX must be the same number
    # under every configuration that gives the text the same TT instant (it is the series alone)
    r, _ = blocks("CIRF", "GCRF")
    xs, ys = r[0, 2] - rec["dx"] * 1e-3 * ARCSEC, r[1, 2] - rec["dy"] * 1e-3 * ARCSEC
    first = _xy_series.setdefault((scale, d, s, rec["tai_utc"]), (xs, ys, mode))
    out.count(key=("ciooff", mode, scale, d, s, via), kind="cio-offsets-of-record", **tag)
    if not (abs(xs - first[0]) <= 2e-12 and abs(ys - first[1]) <= 2e-12):
        out.fail("cio-offsets-of-record" + hist, f"CIRF->GCRF: X - dX, Y - dY of the record differ from what they were at this instant under configuration '{first[2]}' (the series depends on TT only)",
                 inp, observed=[float(xs), float(ys)], expected=[float(first[0]), float(first[1])])
    return t


_xy_series = {}


def history_oracle(out, rng, big):
    """THE SAME instants under the five configurations inside one process, in varying orders, each (configuration, instant) visited more
    than once, through StateVector.copy(frame=...): whatever was converted before, the rotation must be the one of the date at hand.
    Two kinds of texts: UTC (the calendar text is the same, TAI-UTC is the same in 4 of the 5 configurations) and TAI (the text is the
    same in all five; UT1 differs by up to 37 s between 'missing' and the others)."""
    from beyond.dates import Date
    for scale in ("UTC", "TAI"):
        n_inst = 5 if big else 2
        insts = [(rng.randrange(MJD_MIN, MJD_MAX), round(rng.uniform(200, 86200), rng.choice([0, 3, 6]))) for _ in range(n_inst)]
        if rng.random() < 0.5:
            insts[0] = (rng.randrange(50506 - 1800, 50506), insts[0][1])
        held = {}
        for rnd in range(3 if big else 2):
            order = list(MODES)
            rng.shuffle(order)
            for mode in order:
                set_eop(mode)
                sub = rng.sample(range(n_inst), rng.randint(max(1, n_inst - 1), n_inst))
                sub.insert(rng.randrange(len(sub) + 1), rng.choice(sub))      # one instant twice under the same configuration
                for i in sub:
                    d, s_utc = insts[i]
                    s = s_utc if scale == "UTC" else round(s_utc + indep_leap(d), 6)
                    if (mode, i) in held and rng.random() < 0.3:
                        date = held[(mode, i)]                                 # the Date object created at the earlier visit
                    else:
                        date = held[(mode, i)] = Date(d, s, scale=scale)
                    rec = indep_record(mode, d + s_utc / 86400.0)
                    earth_rotation_checks(out, mode, scale, d, s, date, rec, "state")
    set_eop("real")


def rot_angle(m):
    import numpy as np
    c = (np.trace(m) - 1) / 2
    s = np.linalg.norm([m[2, 1] - m[1, 2], m[0, 2] - m[2, 0], m[1, 0] - m[0, 1]]) / 2
    return math.atan2(s, c)


# ---------------------------------------------------------------- oracle on the real API

sc_class = {}


def family_of(kind, *frames):
    def cls(f):
        if f in BUILTIN:
            return f
        if f in sc_class:
            return sc_class[f]
        if f.startswith("C02orb"):
            return "orbit-" + ("QSW" if f.endswith("QSW") else "TNW" if f.endswith("TNW") else "inert")
        if f.startswith("C02"):
            return "station-equatorial" if f == "C02Equ" else "station"
        return "body-" + f
    return kind + ":" + ">".join(cls(f) for f in frames)


def oracle(ctx, widened):
    import numpy as np
    from beyond.dates import Date, timedelta
    from beyond.orbits import StateVector
    from beyond.frames.frames import get_frame
    from beyond.dates.eop import EopDb
    out = Outcome()
    rng = ctx.rng
    big = widened or ctx.thorough
    sta = stations()
    bod = body_frames()
    scs = scenarios(rng, {n: i for i, n in enumerate(orient_names())})
    for mode in MODES:
        set_eop(mode)
        N = (400 if big else 40) if mode == "real" else (150 if big else 14) if mode in ("zero", "missing") else (60 if big else 6)
        for _ in range(N):
            d_, s_ = rand_ds(rng)
            date = Date(d_, s_)
            att, ref = attached_frames(rng, date)
            names = BUILTIN + list(sta) + list(att) + list(bod)
            weights = [3] * len(BUILTIN) + [2] * len(sta) + [2] * len(att) + [1] * len(bod)
            sc = rng.choice(scs)
            cnames = names + [f[0] for f in sc.frames if f[0] not in names]       # compose / round trip also over nested, Moon-orbiter, station-point frames
            cweights = weights + [2] * (len(cnames) - len(names))
            sc_class.update({f[0]: f[3] for f in sc.frames})
            kepl = rand_kepl(rng)
            if rng.random() < 0.5:
                # a chaser close to the reference orbit of the attached frames
                kepl = list(map(float, ref.copy(form="keplerian")))
                kepl[0] += rng.uniform(-3e3, 3e3)
                kepl[5] += rng.uniform(-1e-3, 1e-3)
            orb = make_orbit(kepl, date)
            sv0 = orb.copy(form="cartesian")
            # ---- 1. path independence and round trip
            for _ in range(6):
                a, b, c = rng.choices(cnames, weights=cweights, k=3)
                try:
                    svA = sv0.copy(frame=a)
                    svB = svA.copy(frame=b)
                    svAC = np.array(svA.copy(frame=c))
                    svABC = np.array(svB.copy(frame=c))
                    svABA = np.array(svB.copy(frame=a))
                except Exception as e:
                    out.count(key=("triple", mode, a, b, c, str(date)), kind="compose", eop=mode)
                    out.fail(family_of("convert-raised", a, b, c), f"a conversion between connected frames raised {type(e).__name__}: {e}",
                             {"eop": mode, "date": str(date), "frames": [a, b, c], "state": list(map(float, sv0))}, observed="exception", expected="a state")
                    continue
                out.count(key=("triple", mode, a, b, c, str(date)), kind="compose", eop=mode, nontrivial=len({a, b, c}) == 3)
                # 1e-6 m / 1e-9 m/s, plus the resolution of a double at the largest distance involved (Sun-centred: 1.5e11 m -> 3e-5 m)
                big_r = max(np.abs(np.array(x)[:3]).max() for x in (svA, svB, svAC))
                big_v = max(np.abs(np.array(x)[3:]).max() for x in (svA, svB, svAC))
                # Earth-fixed intermediate: |w x r|; a local orbital frame that accounts for its own rate (1.3e-3 rad/s in LEO) likewise
                w_max = 1.3e-3 if any(family_of("", f).split(":")[1].split("-")[-1] in ("QSW", "TNW") for f in (a, b, c)) else 7.3e-5
                tp, tv = 1e-6 + 4e-15 * big_r, 1e-9 + 4e-15 * (big_v + w_max * big_r)
                if not (np.all(np.isfinite(svABC)) and np.all(np.abs(svABC[:3] - svAC[:3]) <= tp) and np.all(np.abs(svABC[3:] - svAC[3:]) <= tv)):
                    out.fail(family_of("compose", a, b, c), "A->B->C differs from A->C", {"eop": mode, "date": str(date), "frames": [a, b, c], "state": list(map(float, svA))},
                             observed=list(map(float, svABC)), expected=list(map(float, svAC)))
                if not (np.all(np.abs(svABA[:3] - np.array(svA)[:3]) <= tp) and np.all(np.abs(svABA[3:] - np.array(svA)[3:]) <= tv)):
                    out.fail(family_of("roundtrip", a, b), "A->B->A is not the identity", {"eop": mode, "date": str(date), "frames": [a, b], "state": list(map(float, svA))},
                             observed=list(map(float, svABA)), expected=list(map(float, svA)))
            # ---- 2. proper rotation between frames sharing a centre (orientation level)
            onames = BUILTIN + [n for n in sta if n != "C02Equ"] + [n for n in att if not n.endswith("inert")]
            for _ in range(4):
                a, b = rng.sample(onames, 2)
                oa, ob = get_frame(a).orientation, get_frame(b).orientation
                m = oa.convert_to(date, ob)
                r = m[:3, :3]
                out.count(key=("rot", mode, a, b, str(date)), kind="proper-rotation", eop=mode)
                err = np.abs(r.T @ r - np.eye(3)).max()
                det = np.linalg.det(r)
                blk = max(np.abs(m[:3, 3:]).max(), np.abs(m[3:, 3:] - r).max())
                if not (err < 1e-10 and abs(det - 1) < 1e-10 and blk < 1e-12):
                    out.fail(family_of("proper-rotation", a, b), "position block is not a proper rotation / 6x6 not of the form [[R,0],[B,R]]",
                             {"eop": mode, "date": str(date), "frames": [a, b]}, observed={"orth_err": float(err), "det": float(det), "block_err": float(blk)}, expected={"orth_err": 0, "det": 1})
            for _ in range(3):
                a, b = rng.sample(BUILTIN, 2)
                sA = sv0.copy(frame=a)
                sB = np.array(sA.copy(frame=b))
                out.count(key=("norm", mode, a, b, str(date)), kind="norm-preserved", eop=mode)
                if abs(np.linalg.norm(sB[:3]) - np.linalg.norm(np.array(sA)[:3])) > 1e-6:
                    out.fail(family_of("norm", a, b), "|r| changes between frames sharing the Earth centre", {"eop": mode, "date": str(date), "frames": [a, b], "state": list(map(float, sA))},
                             observed=float(np.linalg.norm(sB[:3])), expected=float(np.linalg.norm(np.array(sA)[:3])))
            # ---- 3. converted velocity = d/dt converted position (Richardson central differences along the Keplerian arc)
            # The EOP tables are piecewise constant per day (no interpolation, by design of SimpleEopDatabase): UT1-UTC and the pole step
            # at midnight, so Earth-fixed positions jump by up to ~1 m there; the difference window must not straddle a day boundary.
            # Body-centred frames are left out: the velocity of the Moon/Sun centre is itself a +-1 day difference quotient (C18).
            vnames = [n for n in names if n not in bod]
            vweights = [w for n, w in zip(names, weights) if n not in bod]
            for _ in range(3 if 60.0 < date.s < 86340.0 else 0):
                b = rng.choices(vnames, weights=vweights, k=1)[0]
                fam = family_of("velocity-derivative", b)
                vel = np.array(sv0.copy(frame=b))[3:]
                pos = {}
                for h in (-40.0, -20.0, 20.0, 40.0):
                    pos[h] = np.array(orb.propagate(date + timedelta(seconds=h)).copy(frame=b, form="cartesian"))[:3]
                d20 = (pos[20.0] - pos[-20.0]) / 40.0
                d40 = (pos[40.0] - pos[-40.0]) / 80.0
                fd = (4 * d20 - d40) / 3
                rmax = max(np.linalg.norm(np.array(sv0)[:3]), 7e6)
                # jd is one double (4e-5 s): Earth-fixed positions jitter by ~7.3e-5 rad/s * 2e-5 s * r; the slow precession/nutation rates are omitted by design (5e-5 m/s)
                tol = 2e-3 * rmax / 7e6 + 2e-4
                out.count(key=("vel", mode, b, str(date)), kind="velocity-derivative", eop=mode, target=fam.split(":")[1])
                inp = {"eop": mode, "date": str(date), "frame": b, "kepl": list(map(float, kepl)), "ref_kepl": list(map(float, ref.copy(form="keplerian")))}
                if b in att and not b.endswith("inert"):
                    # orbit-attached QSW / TNW frame: the code hands no rate to expand (open findings C02-lof-no-rate-*).  The theorem
                    # C02.lof_velocity_defect says what exactly is missing: d/dt(converted position) = converted velocity - w x rho with
                    # w = lofRate (two-body reference, C02.lof_rate_twobody: h/r^2 about W for QSW, mu h/(r^3 v^2) about W for TNW).
                    # The observed discrepancy must be that term and nothing else.
                    pr, vr = np.array(ref)[:3], np.array(ref)[3:]
                    hvec = np.cross(pr, vr)
                    hn, rn, vn = np.linalg.norm(hvec), np.linalg.norm(pr), np.linalg.norm(vr)
                    if b.endswith("QSW"):
                        w3 = hn / rn ** 2
                    else:
                        # TNW: a . (c x v) / (h v^2) with a the acceleration of the reference, MEASURED on its own arc (whatever value of
                        # mu the propagator uses; for two-body motion this is mu h / (r^3 v^2))
                        va = {h_: np.array(_pool_last[0].propagate(date + timedelta(seconds=h_)))[3:] for h_ in (-2.0, -1.0, 1.0, 2.0)}
                        acc = (4 * (va[1.0] - va[-1.0]) / 2.0 - (va[2.0] - va[-2.0]) / 4.0) / 3
                        w3 = acc @ np.cross(hvec, vr) / (hn * vn ** 2)
                    rho = np.array(sv0.copy(frame=b))[:3]
                    missing = -np.cross([0.0, 0.0, w3], rho)
                    out.count(key=("velterm", mode, b, str(date)), kind="velocity-lof-term", eop=mode, target=fam.split(":")[1], separation="far" if np.linalg.norm(rho) > 1e5 else "near")
                    tol_l = tol + 1e-9 * np.linalg.norm(rho)
                    # either the rate of the frame is accounted for (fd = vel), or the discrepancy is exactly the term the theorem names
                    if not (np.all(np.abs(fd - vel) <= tol_l) or np.all(np.abs(fd - vel - missing) <= tol_l)):
                        out.fail(fam.replace("velocity-derivative", "velocity-lof-term"), "in an orbit-attached local orbital frame the converted velocity differs from the derivative of the converted position "
                                 "by something else than the rotation term -w x rho of the frame (w = h/r^2 for QSW, mu h/(r^3 v^2) for TNW, along W): theorem C02.lof_velocity_defect",
                                 dict(inp, rho=list(map(float, rho)), w_lof=[0.0, 0.0, float(w3)]), observed=list(map(float, fd - vel)), expected=list(map(float, missing)))
                        continue
                if not np.all(np.abs(fd - vel) <= tol):
                    out.fail(fam, "converted velocity is not the time derivative of the converted position", inp,
                             observed=list(map(float, vel)), expected=list(map(float, fd)))
            # ---- 4. Earth rotation angle / sidereal time / polar motion / nutation / precession / rate against independent formulas
            #         evaluated with the EOP record of the current configuration (known independently of the library); 1980 vs 2010
            rec = indep_record(mode, d_ + s_ / 86400.0)
            if rec is not None:
                earth_rotation_checks(out, mode, "UTC", d_, s_, date, rec, "matrix")
            if mode in ("real", "zero"):
                g = get_frame("GCRF").orientation.convert_to(date, get_frame("EME2000").orientation)[:3, :3]
                ang = rot_angle(g)
                out.count(key=("1980v2010", mode, str(date)), kind="iau1980-vs-2010", eop=mode)
                if not ang < 0.1 * ARCSEC:
                    out.fail("iau1980-vs-2010", "GCRF -> (2010 chain) -> ITRF -> (1980 chain) -> EME2000 rotates by 0.1 arcsec or more", {"eop": mode, "date": str(date)},
                             observed=float(ang / ARCSEC), expected="< 0.1 arcsec")
        if mode == "real":
            eop_reader_oracle(out, rng, 300 if big else 60)
            offset_form_oracle(out, rng, 40 if big else 6)
        if mode in ("real", "zero", "missing"):
            attached_oracle(out, rng, scs, mode, 60 if big else 8)
    # the days at which a branch of the providers switches, both sides, every run
    set_eop("real")
    for b_ in BRANCH_DAYS:
        for d_ in (b_ - 1, b_, b_ + 1):
            s_ = round(rng.uniform(100, 86000), 3)
            earth_rotation_checks(out, "real", "UTC", d_, s_, Date(d_, s_), indep_record("real", d_ + s_ / 86400.0), "matrix")
    history_oracle(out, rng, big)
    reference_oracle(out, rng, big)
    # the same names registered again with another specification, the same instants before and after: "attached to X" follows the new X
    set_eop("real")
    insts = [rand_ds(rng) for _ in range(3)]
    attached_oracle(out, rng, scs[:1], "real", 12 if big else 3, instants=insts)
    _scenarios[0] = Scenario(rng, scs[0].idx, scs[0].tag)
    sc_class.update({f[0]: f[3] for f in _scenarios[0].frames})
    attached_oracle(out, rng, _scenarios[:1], "real", 24 if big else 4, instants=insts, kind=":after-re-registration")
    out.sample({"checks": "A->B->C vs A->C, A->B->A, orthonormality/det/block form, |r| preserved, Richardson finite-difference velocity, GMST82/ERA/IAU76 precession vs independent formulas, 1980 vs 2010 chain, EOP file reader vs independent column parse"})
    return out


def attached_oracle(out, rng, scs, mode, n, instants=None, kind=""):
    """What "a frame attached to X" means, on the real API, with expected values written by hand:
    X itself is the origin of the frame (both ways), and a point X + d is seen at d (same axes) or at R d (QSW/TNW axes of X).
    Covers references given in Earth-centred, orbit-attached (nested), station and Moon-centred frames, default and non-default parents."""
    import numpy as np
    from beyond.dates import Date
    from beyond.orbits import StateVector
    for _ in range(n):
        sc = rng.choice(scs)
        date = rand_date(rng) if instants is None else Date(*rng.choice(instants))
        pvA = np.array(sc.A.propagate(date))
        N = sc.names
        # (attached frame, class, reference state, frame it is given in, axes of the attached frame relative to that frame)
        cases = [(N["Ai"], "orbit-inert", pvA, "EME2000", np.eye(3)), (N["Aq"], "orbit-QSW", pvA, "EME2000", np_lof(False, pvA)), (N["At"], "orbit-TNW", pvA, "EME2000", np_lof(True, pvA)),
                 (N["Ci"], "nested-inert", sc.relC, N["Ai"], np.eye(3)), (N["Ct"], "nested-TNW", sc.relC, N["Ai"], np_lof(True, sc.relC)),
                 (N["Li"], "moon-orbiter-inert", sc.pvL, "Moon", np.eye(3)), (N["Lq"], "moon-orbiter-QSW", sc.pvL, "Moon", np_lof(False, sc.pvL)),
                 (N["Si"], "station-point", sc.pvS, N["Sta"], np.eye(3)), (N["Ki"], "kepl-point", sc.pvK, "EME2000", np.eye(3))]
        for F, cls, X, G, R in cases:
            inert = cls.endswith("inert") or cls.endswith("point")
            d = np.array([rng.uniform(-2e3, 2e3) for _ in range(3)] + [0.0, 0.0, 0.0])
            inp = {"eop": mode, "date": str(date), "attached_frame": F, "reference_state": list(map(float, X)), "given_in": G}
            scale = np.abs(X[:3]).max() + 4e8
            tp, tv = 1e-5 + 1e-14 * scale, 1e-7
            checks = [("origin", lambda: np.array(StateVector(X, date, "cartesian", G).copy(frame=F)), np.zeros(6), True),
                      ("origin-back", lambda: np.array(StateVector(np.zeros(6), date, "cartesian", F).copy(frame=G)), X, True),
                      ("offset", lambda: np.array(StateVector(X + d, date, "cartesian", G).copy(frame=F)), np.concatenate([R @ d[:3], np.zeros(3)]), inert)]
            for name, fn, exp, with_vel in checks:
                out.count(key=("attached", name, mode, F, str(date), kind), kind="attached-" + name, cls=cls, eop=mode)
                try:
                    got = fn()
                except Exception as e:
                    out.fail(f"attached-{name}:{cls}{kind}", f"conversion to/from a frame attached to a state given in {G} raised {type(e).__name__}: {e}", inp, observed="exception", expected=list(map(float, exp)))
                    continue
                ok = np.all(np.abs(got[:3] - exp[:3]) <= tp) and (not with_vel or np.all(np.abs(got[3:] - exp[3:]) <= tv))
                if not ok:
                    out.fail(f"attached-{name}:{cls}{kind}", f"frame attached to a state given in {G}: {name} check fails (the reference is the origin; X + d is seen at d / R d)",
                             dict(inp, d=list(map(float, d))), observed=list(map(float, got)), expected=list(map(float, exp)))


def reference_oracle(out, rng, big):
    """Frames attached to every kind of reference (plain StateVector, Orbit with Kepler / J2 / numerical / SGP4 propagator, Ephem; in the
    parent frame and in others; every form), used repeatedly, on the real API with expected values written by hand: the reference is
    the origin (both ways), a round trip is the identity, the same conversion made again gives the same numbers, and the reference
    object the caller handed to orbit2frame is unchanged afterwards (values, form, frame, date)."""
    import numpy as np
    from beyond.dates import Date
    from beyond.orbits import StateVector
    rsc = ref_scenario(rng, {n: i for i, n in enumerate(orient_names())}, 0, 16 if big else 6)
    insts = [rsc.rand_instant(rng) for _ in range(3 if big else 1)]
    for rnd in range(2 if big else 1):
        for mode in rng.sample(list(MODES), 3 if big else 2):
            set_eop(mode)
            for d, s in insts:
                date = Date(d, s)
                probe = np.array(make_orbit(rand_kepl(rng), date).copy(form="cartesian"))
                for e in rsc.refs:
                    X = rsc.point(e, date)
                    for F, _, _, cls in e["frames"]:
                        inert = cls.endswith(":inert")
                        inp = {"eop": mode, "date": f"Date({d}, {s!r})", "attached_frame": F, "reference": e["cls"], "reference_point": list(map(float, X)), "given_in": e["G"]}
                        tp = 1e-5 + 1e-14 * (np.abs(X[:3]).max() + 4e8)
                        checks = [("origin", lambda: np.array(StateVector(X, date, "cartesian", e["G"]).copy(frame=F)), np.zeros(6), inert),
                                  ("origin-back", lambda: np.array(StateVector(np.zeros(6), date, "cartesian", F).copy(frame=e["G"])), X, inert),
                                  ("roundtrip", lambda: np.array(StateVector(probe, date, "cartesian", "EME2000").copy(frame=F).copy(frame="EME2000")), probe, True)]
                        for name, fn, exp, with_vel in checks:
                            out.count(key=("refattached", name, mode, F, d, s, rnd), kind="attached-" + name, cls="ref-" + e["kind"], eop=mode)
                            try:
                                got, again = fn(), fn()
                            except Exception as ex:
                                out.fail(f"attached-{name}:{cls}", f"conversion to/from a frame attached to a reference ({e['cls']}) raised {type(ex).__name__}: {ex}", inp, observed="exception", expected=list(map(float, exp)))
                                continue
                            if not np.array_equal(got, again):
                                out.fail(f"repeated-conversion:{cls}", "the same conversion, made twice, gives two results", dict(inp, check=name), observed=list(map(float, again)), expected=list(map(float, got)))
                            if not (np.all(np.abs(got[:3] - exp[:3]) <= tp) and (not with_vel or np.all(np.abs(got[3:] - exp[3:]) <= 1e-7))):
                                out.fail(f"attached-{name}:{cls}", f"frame attached to a reference ({e['cls']}): {name} check fails", inp, observed=list(map(float, got)), expected=list(map(float, exp)))
                rsc.check_untouched(out, f"Date({d}, {s!r}) {mode}", {"eop": mode, "date": f"Date({d}, {s!r})"})
    set_eop("real")


_form_frames = {}


def offset_form_oracle(out, rng, n):
    """a frame attached to a fixed StateVector must not depend on the form in which that StateVector is held"""
    import numpy as np
    from beyond.dates import Date
    from beyond.orbits import StateVector
    from beyond.frames.frames import orbit2frame
    date = Date(2010, 3, 4, 5, 6, 7)
    if not _form_frames:
        k = [7.0e6, 0.01, 0.9, 1.0, 2.0, 3.0]
        svk = StateVector(k, date, "keplerian", "EME2000")
        for form in ("cartesian", "keplerian", "spherical", "equinoctial"):
            _form_frames[form] = orbit2frame("C02form" + form, svk.copy(form=form), orientation=None, exists_warning=False)
    for _ in range(n):
        sv = StateVector([7.0e6 + rng.uniform(-5e4, 5e4), 0.01, 0.9, 1.0, 2.0, 3.0 + rng.uniform(-1e-2, 1e-2)], date, "keplerian", "EME2000")
        ref = np.array(sv.copy(frame="C02formcartesian", form="cartesian"))
        for form in ("keplerian", "spherical", "equinoctial"):
            got = np.array(sv.copy(frame="C02form" + form, form="cartesian"))
            out.count(key=("form", form, tuple(map(float, sv))), kind="centre-offset-form")
            if not (np.all(np.abs(got[:3] - ref[:3]) < 1e-5) and np.all(np.abs(got[3:] - ref[3:]) < 1e-8)):
                out.fail("centre-offset-form:noncartesian", "a frame attached to a StateVector held in a non-cartesian form is centred on the raw element values, not on the point",
                         {"attached_form": form, "state_kepl": list(map(float, sv)), "date": str(date)}, observed=list(map(float, got)), expected=list(map(float, ref)))


def eop_reader_oracle(out, rng, n):
    """SimpleEopDatabase on the real IERS files against an independent parse of the same lines (IERS readme columns, 1-based)"""
    from beyond.dates.eop import EopDb
    rows = indep_rows()
    for _ in range(n):
        mjd = rng.randrange(MJD_MIN, MJD_MAX) + rng.random()
        e = EopDb.get(mjd)
        r = rows[int(mjd)]
        tai = indep_leap(mjd)
        out.count(key=("eop", int(mjd)), kind="eop-reader")
        for k in ("x", "y", "ut1_utc", "lod", "dpsi", "deps", "dx", "dy"):
            if r[k] is not None and getattr(e, k) != r[k]:
                out.fail("eop-reader:" + k, f"EopDb.get returns a different {k} than the IERS file line", {"mjd": mjd}, observed=getattr(e, k), expected=r[k])
        if e.tai_utc != tai:
            out.fail("eop-reader:tai_utc", "TAI-UTC differs from the leap second table", {"mjd": mjd}, observed=e.tai_utc, expected=tai)


# ---------------------------------------------------------------- correspondence: compiled Lean model vs the real code

def parse_tab51():
    """independent parse of tab5.1.txt: rows [a1..a5, A, B, C, D] (column 6 is the period, unused by the code)"""
    rows = []
    for line in open(_src("frames", "data", "tab5.1.txt"), encoding="utf-8"):
        if line.startswith("#") or not line.strip():
            continue
        f = line.split()
        rows.append([float(int(x)) for x in f[:5]] + [float(x) for x in f[6:10]])
    return rows


def parse_tab52():
    """independent parse of tab5.2{a,b,d}.txt: blocks (tab, j, rows [As, Ac, p1..p14]) in the order the code visits them"""
    per = []
    for fn in ("tab5.2a.txt", "tab5.2b.txt", "tab5.2d.txt"):
        blocks = []
        for line in open(_src("frames", "data", fn), encoding="ascii"):
            line = line.strip()
            if not line or line.startswith("#"):
                continue
            if line.startswith("j = "):
                blocks.append([])
                continue
            f = line.split()
            blocks[-1].append([float(f[1]), float(f[2])] + [float(int(x)) for x in f[3:17]])
        per.append(blocks)
    out = []
    for j in range(5):
        for tab in range(3):
            out.append((tab, j, per[tab][j]))
    return out


def fl(xs):
    return [f2b(float(x)) for x in xs]


def cmp_floats(out, family, what, inp, real, reply, rtol=1e-10, atol=0.0):
    if not reply or not reply[0].isdigit():
        out.fail(family, "model rejected the request: " + reply, inp, observed=[float(x) for x in real], expected=reply)
        return None
    model = [b2f(t) for t in reply.split()]
    if len(model) != len(real):
        out.fail(family, "result sizes differ", inp, observed=[float(x) for x in real], expected=model)
        return model
    for i, (a, b) in enumerate(zip(real, model)):
        if not core.close(float(a), b, rtol=rtol, atol=atol):
            out.fail(family, f"{what}: entry {i} differs between the implementation and the Lean model", inp, observed=[float(x) for x in real], expected=model)
            break
    return model


class Visit:
    """One (configuration, instant) of a history: the real conversions are made FIRST — the harness reads nothing from the library's
    internals before them — then what the model is given is collected: the date arguments as a pure function of the TEXT of the
    date and the independently known EOP record of the current configuration (`pure_times`), the frame specification at the date."""

    def __init__(self, out, rng, sc, mode, scale, d, s, s_utc, date, nconv, nxf, kind, orient_only=None, twice=False, ncen=0, pairs=()):
        import numpy as np
        from beyond.frames import iau1980, iau2010
        from beyond.frames.frames import get_frame
        self.mode, self.scale, self.d, self.s, self.s_utc, self.sc, self.kind = mode, scale, d, s, s_utc, sc, kind
        self.conv, self.xf = [], []
        self.text = f"Date({d}, {s!r}, scale='{scale}')"
        tag = dict(eop=mode, history=kind, scale=scale)
        byori = {}
        for fr in sc.frames:
            byori.setdefault(fr[1], fr)
        if orient_only is not None:
            byori = {k: v for k, v in byori.items() if k in orient_only}
        last = None
        todo = [(byori[sc.idx[na]], byori[sc.idx[nb]]) for na, nb in pairs] + [None] * nconv      # named pairs first (branch days), then random ones
        for want in todo:
            fa, fb = want or (byori[rng.choice(list(byori))], byori[rng.choice(list(byori))])
            if want is None and last is not None and rng.random() < 0.15:
                fa, fb = last                                   # the same request again
            last = (fa, fb)
            try:
                m = get_frame(fa[0]).orientation.convert_to(date, get_frame(fb[0]).orientation)
                shape_err = max(np.abs(m[:3, 3:]).max(), np.abs(m[3:, 3:] - m[:3, :3]).max())
                res = list(m[:3, :3].flatten()) + list(m[3:, :3].flatten())
                if shape_err > 1e-13:
                    out.fail("convert-shape", "6x6 matrix is not of the form [[R,0],[B,R]]", {"eop": mode, "date": self.text, "a": fa[0], "b": fb[0]}, observed=float(shape_err), expected=0.0)
            except Exception as e:   # connected orientations must be convertible
                res = f"raised {type(e).__name__}: {e}"
            self.conv.append((fa, fb, res))
            a, b = fa[1], fb[1]
            out.count(key=("conv", mode, self.text, fa[0], fb[0], kind), nontrivial=a != b, kind="orient-convert", pair=f"{min(a, 10)}-{min(b, 10)}" if max(a, b) >= 10 else "builtin", **tag)
        if nxf:
            sv0 = make_orbit(rand_kepl(rng), date).copy(form="cartesian")
        last = None
        for _ in range(nxf):
            fa, fb = rng.choice(sc.frames), rng.choice(sc.frames)
            if last is not None and rng.random() < 0.15:
                fa, fb = last
            last = (fa, fb)
            inp = {"eop": mode, "date": self.text, "from": fa[0], "to": fb[0]}
            try:
                sa = sv0.copy(frame=fa[0])
            except Exception as e:
                out.fail("model-transform", f"conversion EME2000 -> {fa[3]} raised {type(e).__name__}: {e}", inp, observed="exception", expected="a state")
                continue
            try:
                res = np.array(sa.copy(frame=fb[0]))
                if twice:
                    # the same request again, and once more after going elsewhere: a conversion is a function of its inputs
                    again = np.array(sa.copy(frame=fb[0]))
                    sa.copy(frame=rng.choice(sc.frames)[0])
                    third = np.array(sa.copy(frame=fb[0]))
                    if not (np.array_equal(res, again) and np.array_equal(res, third)):
                        out.fail(f"repeated-conversion:{fa[3]}>{fb[3]}", "the same conversion of the same state, repeated, gives another result", dict(inp, state=list(map(float, sa))),
                                 observed=[list(map(float, again)), list(map(float, third))], expected=list(map(float, res)), violates_property=True)
            except Exception as e:
                res = f"raised {type(e).__name__}: {e}"
            self.xf.append((fa, fb, np.array(sa), res))
            out.count(key=("xf", mode, self.text, fa[0], fb[0], kind), nontrivial=fa[0] != fb[0], kind="frame-transform", pair=f"{fa[3] if fa[2] or fa[1] >= 10 else 'builtin'}>{fb[3] if fb[2] or fb[1] >= 10 else 'builtin'}", **tag)
        # Center.convert_to alone: centre a -> centre b expressed in the orientation of a third frame; then the reverse request and the same
        # request towards another orientation (a history on the same centre objects), each compared with the model
        self.cen = []
        for _ in range(ncen):
            fa, fb, ft = rng.choice(sc.frames), rng.choice(sc.frames), rng.choice(sc.frames)
            for ga, gb, gt in ((fa, fb, ft), (fb, fa, ft), (fa, fb, rng.choice(sc.frames))):
                try:
                    res = np.array(get_frame(ga[0]).center.convert_to(date, get_frame(gb[0]).center, get_frame(gt[0]).orientation), float)
                except Exception as e:
                    res = f"raised {type(e).__name__}: {e}"
                self.cen.append((ga, gb, gt, res))
                out.count(key=("cen", mode, self.text, ga[0], gb[0], gt[0], kind), nontrivial=ga[2] != gb[2], kind="centre-convert",
                          pair=f"{ga[3] if ga[2] else 'Earth'}>{gb[3] if gb[2] else 'Earth'}", target=gt[3] if gt[1] >= 10 else "builtin", **tag)
        # ---- what the model is given
        rec = indep_record(mode, d + s_utc / 86400.0)
        self.rec_known = rec is not None
        if rec is None:                       # outside 1973-2017: the record the library attached (checked against nothing)
            rec = rec_of(date.eop)
        else:
            for k in EOP_FIELDS:
                if float(getattr(date.eop, k)) != rec[k]:
                    out.fail(f"eop-of-configuration:{mode}:{k}", f"date.eop.{k} is not the value of the configured EOP source for that day", {"eop": mode, "date": self.text, "record": rec},
                             observed=float(getattr(date.eop, k)), expected=rec[k])
        self.rec = rec
        t = pure_times(scale, d, s, rec)
        # time-scale arithmetic is C03's subject: the library's own TT / UT1 of this Date object are taken when they are the ones of the
        # record to the last bit or two of the Julian date (4e-5 s), so that a rounding of the last bit is not reported here
        lib_tt, lib_ut1 = date.change_scale("TT"), date.change_scale("UT1")
        if abs(lib_ut1.jd - t["jdut1"]) <= 1e-9 and abs(lib_tt.julian_century - t["ttt"]) <= 1e-13:
            t["jdut1"], t["tut1"], t["ttt"] = lib_ut1.jd, lib_ut1.julian_century, lib_tt.julian_century
        else:
            out.fail(f"timescale-of-record:{mode}:{scale}", "date.change_scale('UT1'/'TT') is not the text of the date plus the offsets of its EOP record", {"eop": mode, "date": self.text, "record": rec},
                     observed=[lib_ut1.jd, lib_tt.julian_century], expected=[t["jdut1"], t["ttt"]])
        if float(date.d) != t["day"]:
            out.fail("date-day", "date.d is not the day of the text", {"date": self.text}, observed=float(date.d), expected=t["day"])
        self.t = t
        self.lib_nutc = iau1980.nutation(date)          # public, eop_correction=True
        if orient_only is None:
            self.ex, self.cl, self.lofs = sc.model_inputs(date)
            if hasattr(sc, "check_untouched"):
                sc.check_untouched(out, self.text + " " + mode, {"eop": mode, "date": self.text})
            # the memoized / series functions as the library answers them NOW (after the conversions)
            self.lib_nut = {n: iau1980._nutation(date, False, n) for n in (106, 4)}
            self.lib_xys = iau2010._xysxy2(date) if kind != "fresh" or rng.random() < 0.3 else None

    def D(self, ser80, ser10, t=None, r=None):
        """the 18 date floats of the model: times and record from the text + configuration, series from the MODEL at the TT century"""
        t, r = t or self.t, r or self.rec
        n106, n4, xys = ser80[106][t["ttt"]], ser80[4][t["ttt"]], ser10[t["ttt"]]
        return fl([t["ttt"], t["tut1"], t["jdut1"], t["day"], r["x"], r["y"], r["dx"], r["dy"], r["lod"], n106[1], n106[2], n4[1], n4[2], xys[0], xys[1], xys[2], n106[0], n4[0]])


def history_plan(rng, scale, n_inst, rounds, modes):
    """instants shared by the configurations, visited in varying orders, each (configuration, instant) possibly several times"""
    insts = [(rng.randrange(MJD_MIN, MJD_MAX), round(rng.uniform(200, 86200), rng.choice([0, 3, 6]))) for _ in range(n_inst)]
    if rng.random() < 0.5:
        insts[0] = (rng.randrange(50506 - 1800, 50506 + 1800), insts[0][1])
    plan = []
    for _ in range(rounds):
        order = list(modes)
        rng.shuffle(order)
        for mode in order:
            sub = rng.sample(range(n_inst), rng.randint(max(1, n_inst - 1), n_inst))
            sub.insert(rng.randrange(len(sub) + 1), rng.choice(sub))
            plan.append((mode, [(i, insts[i][0], insts[i][1] if scale == "UTC" else round(insts[i][1] + indep_leap(insts[i][0]), 6), insts[i][1]) for i in sub]))
    return plan


def correspondence(ctx):
    import numpy as np
    from beyond.dates import Date
    from beyond.frames import iau1980, iau2010, local
    from beyond.frames.frames import get_frame
    from beyond.frames.stations import TopocentricFrame
    from beyond.frames import orient as orient_mod
    out = Outcome()
    rng = ctx.rng
    reqs, post = [], []
    # self-check of the independent table parsers against the library's own (memoized) readers, asked in varying order, twice
    t51, t52 = parse_tab51(), parse_tab52()
    asks = [106, 4, None, 106, 4, 30]
    rng.shuffle(asks)
    for n in asks:
        got = [[float(v) for v in ints] + list(reals) for ints, reals in iau1980._tab(n)]
        if got != (t51[:n] if n else t51):
            out.fail("table-reader", f"iau1980._tab({n}) differs from an independent parse of tab5.1.txt (asked in the order {asks})", {"max_i": n, "order": asks}, observed=len(got), expected=len(t51[:n] if n else t51))
        out.count(key=("tab80", n), kind="table-reader")
    for _ in range(2):
        lib52 = iau2010._tab()
        if any(rows != [[float(v) for v in r] for r in lib52[tab][j]] for tab, j, rows in t52):
            out.fail("table-reader", "iau2010._tab differs from an independent parse of the data files", {}, observed="differs")
    out.count(key="tables", kind="table-reader")
    names = orient_names()
    idx = {n: i for i, n in enumerate(names)}
    stations()
    body_frames()
    # ---- small closed forms
    set_eop("real")
    d0 = rand_date(rng)
    for _ in range(ctx.n(40, 2000)):
        kep = rand_kepl(rng)
        sv = np.array(make_orbit(kep, d0).copy(form="cartesian"))
        for tnw in (0, 1):
            reqs.append(" ".join(["c02lof", str(tnw)] + fl(sv)))
            post.append(("lof", {"tnw": tnw, "sv": sv.tolist()}, local.to_local("TNW" if tnw else "QSW", sv, expanded=False).T.flatten(), 1e-10, 1e-14))
            out.count(key=reqs[-1], kind="lof-" + ("TNW" if tnw else "QSW"))
        # the rotation rate of the local orbital frames: d/dt of the REAL to_local along a path, by Richardson central differences, against
        # the model's -[w]x to_local with w = lofRate(p, v, a).  Paths: a synthetic one p + v s + a s^2/2 + j s^3/6 with an acceleration
        # in a random direction (out of plane: all three components of w) and, every fourth case, the arc of the real Kepler propagator
        k_ = _counter[0] = _counter[0] + 1
        for tnw in (0, 1):
            nm = "TNW" if tnw else "QSW"
            acc = np.array([rng.gauss(0, 1) for _ in range(3)]) * rng.choice([0.0, 1e-3, 8.0])
            if rng.random() < 0.3:
                acc = -3.986e14 * sv[:3] / np.linalg.norm(sv[:3]) ** 3            # two-body
            jerk = np.array([rng.gauss(0, 1e-2) for _ in range(3)])
            path = lambda x: np.concatenate([sv[:3] + sv[3:] * x + acc * x * x / 2 + jerk * x ** 3 / 6, sv[3:] + acc * x + jerk * x * x / 2])
            kind_ = "synthetic"
            if k_ % 4 == 0:
                # (the analytical J2 propagator is no candidate: its velocity is not d/dt of its position — secular drift of the elements)
                from beyond.dates import timedelta
                orb_ = make_orbit(kep, d0)
                kind_ = "kepler-arc"
                path = lambda x, orb_=orb_: np.array(orb_.propagate(d0 + timedelta(seconds=x)).copy(form="cartesian", frame="EME2000"))
                hh_ = 2.0
                acc = (4 * (path(hh_)[3:] - path(-hh_)[3:]) / (2 * hh_) - (path(2 * hh_)[3:] - path(-2 * hh_)[3:]) / (4 * hh_)) / 3
            else:
                hh_ = 0.5
            P = lambda x: local.to_local(nm, path(x), expanded=False)
            Pd = (4 * (P(hh_) - P(-hh_)) / (2 * hh_) - (P(2 * hh_) - P(-2 * hh_)) / (4 * hh_)) / 3
            s0 = path(0.0)
            reqs.append(" ".join(["c02lofrate", str(tnw)] + fl(s0) + fl(acc)))
            post.append(("lofrate", {"tnw": tnw, "sv": s0.tolist(), "acc": acc.tolist(), "path": kind_}, ("rate", Pd.flatten()), 1e-6, 2e-9 if kind_ == "synthetic" else 2e-8))
            out.count(key=reqs[-1], kind="lof-rate-" + nm, path=kind_, acceleration="two-body" if abs(acc @ np.cross(s0[:3], s0[3:])) < 1e-3 else "out-of-plane")
        lat, lon, alt = rng.uniform(-1.57, 1.57), rng.uniform(-3.14, 3.14), rng.uniform(-100, 5000)
        from beyond.utils.matrix import rot2, rot3
        reqs.append(" ".join(["c02topo"] + fl([lat, lon])))
        post.append(("topo", {"lat": lat, "lon": lon}, (rot3(-lon) @ rot2(lat - np.pi / 2.0) @ rot3(np.pi)).flatten(), 1e-10, 1e-15))
        out.count(key=reqs[-1], kind="topocentric-matrix")
        reqs.append(" ".join(["c02geod"] + fl([lat, lon, alt])))
        post.append(("geodetic", {"lat": lat, "lon": lon, "alt": alt}, TopocentricFrame._geodetic_to_cartesian(lat, lon, alt), 1e-12, 1e-9))
        out.count(key=reqs[-1], kind="geodetic")
    # ---- phase A: the real code is driven through histories of conversions; nothing of the library is reset in between
    scs = scenarios(rng, idx)
    visits = []
    # A1. fresh instants under each configuration (10 % beyond the tables: the library falls back to zeros there)
    for mode in MODES:
        set_eop(mode)
        for _ in range(ctx.n(14, 600) if mode == "real" else ctx.n(5, 150) if mode in ("zero", "missing") else ctx.n(3, 80)):
            d, s = rand_ds(rng) if rng.random() < 0.9 or mode in ("altdb", "patched") else rand_ds(rng, 57800, 58800)
            visits.append(Visit(out, rng, rng.choice(scs), mode, "UTC", d, s, s, Date(d, s), 4, 6, "fresh", ncen=2))
    # A1b. the days at which a branch of the providers switches (iau1980.equinox: kinematic terms from MJD 50506 on), both sides, every run,
    # through the edges that read it.  The model's guard is read from the AST and pinned by C02.kinematic_guard_pinned: a disagreement
    # here is a deviation of the code from the pinned convention, reported with its input.
    set_eop("real")
    for b in BRANCH_DAYS:
        for d in (b - 1, b, b + 1):
            s_ = round(rng.uniform(100, 86000), 3)
            visits.append(Visit(out, rng, scs[0], "real", "UTC", d, s_, s_, Date(d, s_), 0, 0, "branch-day",
                                pairs=[("PEF", "TOD"), ("TOD", "PEF"), ("ITRF", "EME2000"), ("TEME", "PEF"), ("GCRF", "ITRF")]))
    # A2. the SAME instants under all five configurations in one process, varying orders, repeated requests: UTC texts (TAI-UTC, hence the
    # TT instant of the text, differs under 'missing') and TAI texts.  The model is asked call by call, statelessly: by the theorem
    # session_history_independent the history does not matter.
    for scale, modes in (("UTC", list(MODES)), ("TAI", list(MODES))):
        held = {}
        for mode, sub in history_plan(rng, scale, ctx.n(3, 12), ctx.n(2, 4), modes):
            set_eop(mode)
            for i, d, s, s_utc in sub:
                date = held[(mode, i)] if (mode, i) in held and rng.random() < 0.3 else Date(d, s, scale=scale)
                held[(mode, i)] = date
                visits.append(Visit(out, rng, rng.choice(scs), mode, scale, d, s, s_utc, date, 3, 3, "shared-" + scale, ncen=1))
    # A3. a history of Orientation.convert_to calls as ONE request to the model with the _nutation_series memo inside (sessionRun, c02seq):
    # UTC texts shared by configurations that disagree on TAI-UTC (before deb035a the code was history dependent here, ~2e-10 rad).
    # Orientation level, built-ins + station.
    sc = rng.choice(scs)
    seq = []
    for mode, sub in history_plan(rng, "UTC", ctx.n(3, 8), ctx.n(2, 4), ["real", "missing", "zero", "patched"]):
        set_eop(mode)
        for i, d, s, s_utc in sub:
            v = Visit(out, rng, sc, mode, "UTC", d, s, s_utc, Date(d, s), 3, 0, "shared-UTC-mixed-TAI-UTC", orient_only=set(range(11)))
            v.text_id = i
            seq.append(v)
    # A5. frames attached to every kind of reference (RefScenario), the same instants under several configurations, every conversion made
    # three times; afterwards the references are what the caller handed in
    rsc = ref_scenario(rng, idx, 0, ctx.n(6, 16))
    rinst = [rsc.rand_instant(rng) for _ in range(ctx.n(3, 10))]
    for rnd in range(ctx.n(1, 2)):
        order = list(MODES)
        rng.shuffle(order)
        for mode in order[:ctx.n(3, 4)]:
            set_eop(mode)
            for d, s_ in rng.sample(rinst, ctx.n(2, 4)):
                visits.append(Visit(out, rng, rsc, mode, "UTC", d, s_, s_, Date(d, s_), 0, ctx.n(8, 10), "attached-to-reference", twice=True, ncen=2))
    # A4. the same NAMES registered again with another specification (other station coordinates, reference orbits, offsets), then the
    # same instants under the same configurations as before: a conversion follows what the name means NOW
    old = scs[0]
    again = [v for v in visits if v.sc is old and v.kind.startswith("shared")]
    rng.shuffle(again)
    _scenarios[0] = Scenario(rng, idx, old.tag)
    for v in again[:ctx.n(6, 40)]:
        set_eop(v.mode)
        visits.append(Visit(out, rng, _scenarios[0], v.mode, v.scale, v.d, v.s, v.s_utc, Date(v.d, v.s, scale=v.scale), 3, 4, "re-registered", ncen=1))
    set_eop("real")
    # ---- phase B: the series of the model at every TT century in play (one batched request per table)
    ttts = sorted({v.t["ttt"] for v in visits + seq} | {rsc.epoch_t["ttt"]})
    drv = core.Driver(ID)
    sreq = [" ".join(["c02ser80", str(len(ttts))] + fl(ttts) + [str(n)] + [t for r in t51[:n] for t in fl(r)]) for n in (106, 4)]
    sreq.append(" ".join(["c02ser10", str(len(ttts))] + fl(ttts) + [str(len(t52))]
                         + [t for tab, j, rows in t52 for t in [str(tab), str(j), str(len(rows))] + [x for r in rows for x in fl(r)]]))
    srep = drv.run(sreq)
    ser80, ser10 = {}, {}
    for n, rep in zip((106, 4), srep[:2]):
        vals = [b2f(t) for t in rep.split()] if rep and rep[0].isdigit() else []
        if len(vals) != 3 * len(ttts):
            out.fail("model-series80", "model rejected the request: " + rep[:80], {"terms": n}, observed="", expected=rep[:80])
            return out
        ser80[n] = {t: vals[3 * k:3 * k + 3] for k, t in enumerate(ttts)}
    vals = [b2f(t) for t in srep[2].split()] if srep[2] and srep[2][0].isdigit() else []
    if len(vals) != 3 * len(ttts):
        out.fail("model-series10", "model rejected the request: " + srep[2][:80], {}, observed="", expected=srep[2][:80])
        return out
    ser10 = {t: vals[3 * k:3 * k + 3] for k, t in enumerate(ttts)}
    for v in visits:
        inp = {"eop": v.mode, "date": v.text, "history": v.kind}
        for n in (106, 4):
            out.count(key=("ser80", n, v.text, v.mode), kind=f"nutation-series-{n}", history=v.kind)
            for k, (a, b) in enumerate(zip(v.lib_nut[n], ser80[n][v.t["ttt"]])):
                if not core.close(float(a), b, rtol=1e-9, atol=1e-15):
                    out.fail("model-series80", f"_nutation(date, False, {n})[{k}] differs between the implementation (as it answers inside this history) and the Lean model at the TT century of the date",
                             dict(inp, terms=n), observed=[float(x) for x in v.lib_nut[n]], expected=ser80[n][v.t["ttt"]])
                    break
        if v.lib_xys is not None:
            out.count(key=("ser10", v.text, v.mode), kind="cio-series", history=v.kind)
            for k, (a, b) in enumerate(zip(v.lib_xys, ser10[v.t["ttt"]])):
                if not core.close(float(a), b, rtol=1e-10, atol=1e-10):
                    out.fail("model-series10", f"_xysxy2(date)[{k}] differs between the implementation and the Lean model", inp, observed=[float(x) for x in v.lib_xys], expected=ser10[v.t["ttt"]])
                    break
    # ---- phase C: every recorded conversion against the model, a pure function of (text of the date, EOP record, frame specification, state)
    for v in visits:
        D = v.D(ser80, ser10)
        sc = v.sc
        htoks = [str(len(sc.ohist))] + [str(x) for h in sc.ohist for x in h]
        etoks = [str(len(v.ex))] + [t for c, p, m in v.ex for t in [str(c), str(p)] + fl(np.asarray(m).flatten())]
        etoks += [str(len(v.lofs))] + [t for c, p, tnw, g, pv, own in v.lofs for t in [str(c), str(p), str(tnw), str(g)] + fl(pv) + (["1"] + v.D(ser80, ser10, sc.epoch_t, sc.epoch_rec) if own else ["0"])]
        chist = sc.chist_full
        ctoks = [str(len(chist))] + [str(x) for h in chist for x in h] + [str(len(v.cl))] + [t for c, (par, o, off) in v.cl.items() for t in [str(c), str(par), str(o)] + fl(off)]
        for fa, fb, res in v.conv:
            reqs.append(" ".join(["c02conv"] + D + htoks + etoks + [str(fa[1]), str(fb[1])]))
            post.append(("convert", {"eop": v.mode, "date": v.text, "history": v.kind, "a": fa[0], "b": fb[0], "record": v.rec}, res, 1e-12, 1e-14))     # observed agreement: a few ulp (same libm, same order of operations)
        for ga, gb, gt, res in v.cen:
            reqs.append(" ".join(["c02cen"] + D + htoks + etoks + ctoks + [str(ga[2]), str(gb[2]), str(gt[1])]))
            inp = {"eop": v.mode, "date": v.text, "history": v.kind, "from_centre_of": ga[0], "to_centre_of": gb[0], "in_orientation_of": gt[0], "record": v.rec}
            if isinstance(res, str):
                post.append(("centre", inp, res, 0, 0))
            else:
                scale_p = max(np.abs(res[:3]).max(), 7e6)
                post.append(("centre", inp, res, 1e-10, ("pv", 1e-9 * scale_p, 1e-9 * scale_p * 1e-3)))
        for fa, fb, sa, res in v.xf:
            reqs.append(" ".join(["c02xf"] + D + htoks + etoks + ctoks + [str(fa[1]), str(fa[2]), str(fb[1]), str(fb[2])] + fl(sa)))
            inp = {"eop": v.mode, "date": v.text, "history": v.kind, "from": fa[0], "to": fb[0], "state": list(map(float, sa)), "record": v.rec}
            if isinstance(res, str):
                post.append(("transform", inp, res, 0, 0))
            else:
                scale_p = max(np.abs(sa[:3]).max(), np.abs(res[:3]).max(), 7e6)
                post.append(("transform", inp, res, 1e-10, ("pv", 1e-9 * scale_p, 1e-9 * scale_p * 1e-3)))
    # iau1980.nutation(date) with the EOP corrections of the record (the tail of _nutation, translated from the source)
    rows106 = [str(len(t51))] + [t for r in t51 for t in fl(r)]
    for v in visits + seq:
        reqs.append(" ".join(["c02nutc"] + rows106 + fl([v.t["ttt"], v.rec["dpsi"], v.rec["deps"]])))
        post.append(("nutation-corrected", {"eop": v.mode, "date": v.text, "history": v.kind, "record": v.rec}, list(np.asarray(v.lib_nutc).flatten()), 1e-10, 1e-13))
        out.count(key=("nutc", v.mode, v.text), kind="nutation-eop-corrected", history=v.kind)
    # the mixed TAI-UTC history: one request, the memo inside the model
    sc = seq[0].sc
    lat, lon = math.radians(sc.latlonalt[0]), math.radians(sc.latlonalt[1])
    line = ["c02seq"] + rows106 + [str(len(sc.ohist))] + [str(x) for h in sc.ohist for x in h] + ["1", "10", str(sc.ITRF)] + fl(np_topo(lat, lon).flatten())
    calls = [(v, fa, fb, res) for v in seq for fa, fb, res in v.conv]
    line += [str(len(calls))] + [t for v, fa, fb, res in calls for t in v.D(ser80, ser10) + [str(fa[1]), str(fb[1])]]
    reqs.append(" ".join(line))
    post.append(("sequence", calls, None, 1e-10, 1e-13))
    replies = drv.run(reqs)
    for req, (kind, inp, real, rtol, atol), rep in zip(reqs, post, replies):
        if kind == "sequence":
            toks = rep.split()
            pos = 0
            for k, (v, fa, fb, res) in enumerate(inp):
                one = toks[pos:pos + 1] if toks[pos:pos + 1] == ["E"] else toks[pos:pos + 18]
                pos += len(one)
                cinp = {"eop": v.mode, "date": v.text, "history": v.kind, "call_number": k, "a": fa[0], "b": fb[0], "record": v.rec,
                        "earlier_calls": [f"{w.mode} {w.text} {x[0]}>{y[0]}" for w, x, y, _ in inp[max(0, k - 6):k]]}
                out.count(key=("seq", k, v.mode, v.text, fa[0], fb[0]), nontrivial=fa[1] != fb[1], kind="orient-convert-in-history", eop=v.mode, history=v.kind)
                if isinstance(res, str):
                    if one != ["E"]:
                        out.fail("model-sequence", "the implementation " + res + " where the model converts", cinp, observed=res, expected="a matrix")
                    continue
                cmp_floats(out, "model-sequence", "Orientation.convert_to inside a history of calls (model: sessionRun with the _nutation_series memo)", cinp, res, " ".join(one), rtol=rtol, atol=atol)
            continue
        if isinstance(real, tuple) and real[0] == "rate":
            vals = [b2f(t) for t in rep.split()] if rep and rep[0].isdigit() else []
            if len(vals) != 12 or not all(core.close(float(a), b, rtol=rtol, atol=atol) for a, b in zip(real[1], vals[3:])):
                out.fail("model-lofrate", "d/dt of to_local along the path (finite differences on the real code) differs from the model's -[w]x to_local, w = lofRate(p, v, a)",
                         inp, observed=[float(x) for x in real[1]], expected=vals[3:] or rep)
            continue
        if isinstance(real, str):
            # the implementation raised where the model (the specification of the frame graph) yields a value
            if rep and rep[0].isdigit():
                out.fail("model-" + kind, "the implementation " + real + " where the frames are connected and the model converts", inp, observed=real, expected=[b2f(t) for t in rep.split()][:6])
            continue
        if isinstance(atol, tuple):
            # position / velocity tolerances of a converted state
            if not rep or not rep[0].isdigit():
                out.fail("model-" + kind, "model rejected the request: " + rep, inp, observed=[float(x) for x in real], expected=rep)
                continue
            model = [b2f(t) for t in rep.split()]
            ok = all(abs(a - b) <= atol[1] for a, b in zip(real[:3], model[:3])) and all(abs(a - b) <= atol[2] for a, b in zip(real[3:], model[3:]))
            if not ok:
                out.fail("model-" + kind, ("Center.convert_to" if kind == "centre" else "Frame.transform") + " differs between the implementation and the Lean model", inp, observed=[float(x) for x in real], expected=model)
        else:
            n_before = len(out.failures)
            model = cmp_floats(out, "model-" + kind + (":branch-day" if inp.get("history") == "branch-day" else ""), kind, inp, real, rep, rtol=rtol, atol=atol)
            if inp.get("history") == "branch-day":
                for f in out.failures[n_before:]:
                    f["violates_property"] = True      # the model side is pinned by a theorem to the published convention
        out.sample({"request": req[:100] + "…", "impl": [float(x) for x in real][:6], "model": (model or [])[:6]}, limit=3)
    return out


def orient_names():
    """node names of the built-in orientation graph in the order of Generated/Graphs.lean (execution order of `+`)"""
    import re
    txt = open(os.path.join(core.LEAN, "BeyondVerif", "Generated", "Graphs.lean")).read()
    m = re.search(r"def orientNames : List String := \[(.*?)\]", txt)
    return [s.strip().strip('"') for s in m.group(1).split(",")]


def replay(f):
    """re-run a short oracle sweep (the recorded input names the family, frames, date and state of the failing case)"""
    return oracle(core.Ctx(ID, "quick", 0), False)
