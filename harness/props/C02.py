"""C02 — frame conversions are consistent rigid motions with correct kinematics."""
import math
import os

from harness import core
from harness.core import Outcome, f2b, b2f

ID = "C02"
LEAN_TARGETS = ["BeyondVerif.Props.C02"]
THEOREMS = []
LEVEL_TEXT = ""
LEVEL_NOTE = ""
TECHNIQUE = ""
TRUSTED = []
ASSUMPTIONS = []
NOT_COVERED = []
OPEN = []
RULE = ""

BUILTIN = ["EME2000", "MOD", "TOD", "TEME", "PEF", "ITRF", "TIRF", "CIRF", "GCRF", "G50"]
ROTATING = {"PEF", "ITRF", "TIRF"}
ARCSEC = math.pi / 180 / 3600
MJD_MIN, MJD_MAX = 41684, 57754   # 1973-01-02 .. 2017-01-01: every column of the IERS test files is filled


# ---------------------------------------------------------------- EOP configurations

_real_db = {}


def set_eop(mode):
    """real: tests/data/pole through SimpleEopDatabase; zero: all parameters 0 but TAI-UTC from tai-utc.dat;
    missing: the database cannot be instantiated, policy 'pass' (what a fresh installation does)"""
    from beyond.config import config
    from beyond.dates.eop import EopDb, SimpleEopDatabase, Eop, TaiUtc
    from beyond.frames import iau1980
    # _nutation is memoized on str(date): the TT instant of a UTC string depends on TAI-UTC, i.e. on the EOP source
    iau1980._nutation._cache.clear()
    folder = os.path.join(core.REPO, "tests", "data", "pole")
    config.set("eop", "missing_policy", "pass")
    config.set("eop", "folder", folder)
    config.set("eop", "type", "all")
    EopDb._load_entry_points()
    if mode == "real":
        if folder not in _real_db:
            _real_db[folder] = SimpleEopDatabase()
        EopDb._dbs["default"] = _real_db[folder]
    elif mode == "zero":
        t = TaiUtc(os.path.join(folder, "tai-utc.dat"))

        class ZeroDb:
            def __getitem__(self, mjd):
                return Eop(x=0, y=0, dx=0, dy=0, deps=0, dpsi=0, lod=0, ut1_utc=0, tai_utc=t[mjd])
        EopDb._dbs["default"] = ZeroDb()
    elif mode == "missing":
        class Broken:
            def __init__(self):
                raise FileNotFoundError("no EOP files")
        EopDb._dbs["default"] = Broken
    else:
        raise ValueError(mode)


# ---------------------------------------------------------------- frames used by the sweeps

_stations = {}
_counter = [0]


def stations():
    from beyond.frames.stations import create_station
    if not _stations:
        _stations["C02Tls"] = create_station("C02Tls", (43.604482, 1.443962, 172.0))
        _stations["C02Sth"] = create_station("C02Sth", (-72.0, -130.5, 30.0))
        _stations["C02Eqt"] = create_station("C02Eqt", (0.1, 179.9, 2500.0))
        _stations["C02Equ"] = create_station("C02Equ", (28.5, -80.6, 3.0), equatorial=True)
    return _stations


def rand_date(rng, lo=MJD_MIN, hi=MJD_MAX):
    from beyond.dates import Date
    d = rng.randrange(lo, hi)
    s = round(rng.uniform(0, 86399.0), rng.choice([0, 3, 6]))
    if rng.random() < 0.1:
        s = rng.choice([0.0, 1.0, 43200.0, 86398.0])
    return Date(d, s)


def rand_kepl(rng):
    a = rng.choice([6.8e6, 7.2e6, 1.2e7, 2.66e7, 4.2164e7]) * rng.uniform(0.97, 1.03)
    e = rng.choice([0.0005, 0.01, 0.1, 0.3, 0.6])
    if a * (1 - e) < 6.6e6:
        e = 0.001
    return [a, e, rng.uniform(0.05, 3.0), rng.uniform(0, 6.28), rng.uniform(0, 6.28), rng.uniform(0, 6.28)]


def make_orbit(kepl, date, frame="EME2000"):
    from beyond.orbits import Orbit
    from beyond.propagators.kepler import Kepler
    return Orbit(kepl, date, "keplerian", frame, Kepler())


_pool = []


def attached_frames(rng, date):
    """orbit-attached frames: centre on a Keplerian orbit (propagated to the date of the state by the library), orientation
    parent / QSW / TNW.  A pool of 4 reference orbits is created once per process (every frame is registered globally)."""
    from beyond.frames.frames import orbit2frame, EME2000
    if not _pool:
        for k in range(4):
            ref = make_orbit(rand_kepl(rng), date)
            out = {}
            for ori in (None, "QSW", "TNW"):
                name = f"C02orb{k}{ori or 'inert'}"
                out[name] = orbit2frame(name, ref, orientation=ori, parent=EME2000, exists_warning=False)
            _pool.append((out, ref))
    out, ref = rng.choice(_pool)
    return out, ref.propagate(date)


_bodies = {}


def body_frames():
    from beyond.env import solarsystem
    if not _bodies:
        for b in ("Moon", "Sun"):
            _bodies[b] = solarsystem.get_frame(b)
    return _bodies


# ---------------------------------------------------------------- independent formulas (oracle only)

def indep_gmst82(jd_ut1_day, sec_ut1):
    """GMST (IAU 1982) in radians from the 0h form: GMST(0h UT1) + ratio * UT1, independent of the code's polynomial in t"""
    # jd_ut1_day: JD at 0h UT1 (…​.5), sec_ut1 seconds elapsed in the UT1 day
    tu = (jd_ut1_day - 2451545.0) / 36525.0
    g0 = 24110.54841 + 8640184.812866 * tu + 0.093104 * tu * tu - 6.2e-6 * tu ** 3
    t_full = (jd_ut1_day + sec_ut1 / 86400.0 - 2451545.0) / 36525.0
    # ratio of sidereal to UT1 day, evaluated at the instant (Aoki et al. 1982)
    ratio = 1.002737909350795 + 5.9006e-11 * t_full - 5.9e-15 * t_full ** 2
    sec = (g0 + ratio * sec_ut1) % 86400.0
    return sec / 86400.0 * 2 * math.pi


def indep_era(jd_ut1_day, sec_ut1):
    tu_day = jd_ut1_day - 2451545.0
    f = sec_ut1 / 86400.0
    turns = (0.7790572732640 + 0.00273781191135448 * (tu_day + f) + (tu_day % 1.0) + f) % 1.0
    return turns * 2 * math.pi


def indep_precession(t):
    """IAU 1976 precession matrix MOD -> J2000 written entry by entry (Lieske 1979; Vallado eq. 3-89 transposed)"""
    import numpy as np
    z_a = (2306.2181 * t + 0.30188 * t * t + 0.017998 * t ** 3) * ARCSEC   # zeta
    th = (2004.3109 * t - 0.42665 * t * t - 0.041833 * t ** 3) * ARCSEC
    z = (2306.2181 * t + 1.09468 * t * t + 0.018203 * t ** 3) * ARCSEC
    cz, sz, ct, st, cZ, sZ = math.cos(z_a), math.sin(z_a), math.cos(th), math.sin(th), math.cos(z), math.sin(z)
    return np.array([
        [ct * cZ * cz - sZ * sz, sZ * ct * cz + sz * cZ, st * cz],
        [-sz * ct * cZ - sZ * cz, -sZ * sz * ct + cZ * cz, -st * sz],
        [-st * cZ, -st * sZ, ct],
    ])


def rot_angle(m):
    import numpy as np
    c = (np.trace(m) - 1) / 2
    s = np.linalg.norm([m[2, 1] - m[1, 2], m[0, 2] - m[2, 0], m[1, 0] - m[0, 1]]) / 2
    return math.atan2(s, c)


# ---------------------------------------------------------------- oracle on the real API

def family_of(kind, *frames):
    def cls(f):
        if f in BUILTIN:
            return f
        if f.startswith("C02orb"):
            return "orbit-" + ("QSW" if f.endswith("QSW") else "TNW" if f.endswith("TNW") else "inert")
        if f.startswith("C02"):
            return "station-equatorial" if f == "C02Equ" else "station"
        return "body-" + f
    return kind + ":" + ">".join(cls(f) for f in frames)


def oracle(ctx, widened):
    import numpy as np
    from beyond.dates import Date, timedelta
    from beyond.orbits import StateVector
    from beyond.frames.frames import get_frame
    from beyond.dates.eop import EopDb
    out = Outcome()
    rng = ctx.rng
    big = widened or ctx.thorough
    sta = stations()
    bod = body_frames()
    for mode in ("real", "zero", "missing"):
        set_eop(mode)
        N = (400 if big else 40) if mode == "real" else (150 if big else 14)
        for _ in range(N):
            date = rand_date(rng)
            att, ref = attached_frames(rng, date)
            names = BUILTIN + list(sta) + list(att) + list(bod)
            weights = [3] * len(BUILTIN) + [2] * len(sta) + [2] * len(att) + [1] * len(bod)
            kepl = rand_kepl(rng)
            if rng.random() < 0.5:
                # a chaser close to the reference orbit of the attached frames
                kepl = list(map(float, ref.copy(form="keplerian")))
                kepl[0] += rng.uniform(-3e3, 3e3)
                kepl[5] += rng.uniform(-1e-3, 1e-3)
            orb = make_orbit(kepl, date)
            sv0 = orb.copy(form="cartesian")
            # ---- 1. path independence and round trip
            for _ in range(5):
                a, b, c = rng.choices(names, weights=weights, k=3)
                svA = sv0.copy(frame=a)
                svB = svA.copy(frame=b)
                svAC = np.array(svA.copy(frame=c))
                svABC = np.array(svB.copy(frame=c))
                svABA = np.array(svB.copy(frame=a))
                out.count(key=("triple", mode, a, b, c, str(date)), kind="compose", eop=mode, nontrivial=len({a, b, c}) == 3)
                # 1e-6 m / 1e-9 m/s, plus the resolution of a double at the largest distance involved (Sun-centred: 1.5e11 m -> 3e-5 m)
                big_r = max(np.abs(np.array(x)[:3]).max() for x in (svA, svB, svAC))
                big_v = max(np.abs(np.array(x)[3:]).max() for x in (svA, svB, svAC))
                tp, tv = 1e-6 + 4e-15 * big_r, 1e-9 + 4e-15 * (big_v + 7.3e-5 * big_r)  # Earth-fixed intermediate: |w x r|
                if not (np.all(np.isfinite(svABC)) and np.all(np.abs(svABC[:3] - svAC[:3]) <= tp) and np.all(np.abs(svABC[3:] - svAC[3:]) <= tv)):
                    out.fail(family_of("compose", a, b, c), "A->B->C differs from A->C", {"eop": mode, "date": str(date), "frames": [a, b, c], "state": list(map(float, svA))},
                             observed=list(map(float, svABC)), expected=list(map(float, svAC)))
                if not (np.all(np.abs(svABA[:3] - np.array(svA)[:3]) <= tp) and np.all(np.abs(svABA[3:] - np.array(svA)[3:]) <= tv)):
                    out.fail(family_of("roundtrip", a, b), "A->B->A is not the identity", {"eop": mode, "date": str(date), "frames": [a, b], "state": list(map(float, svA))},
                             observed=list(map(float, svABA)), expected=list(map(float, svA)))
            # ---- 2. proper rotation between frames sharing a centre (orientation level)
            onames = BUILTIN + [n for n in sta if n != "C02Equ"] + [n for n in att if not n.endswith("inert")]
            for _ in range(4):
                a, b = rng.sample(onames, 2)
                oa, ob = get_frame(a).orientation, get_frame(b).orientation
                m = oa.convert_to(date, ob)
                r = m[:3, :3]
                out.count(key=("rot", mode, a, b, str(date)), kind="proper-rotation", eop=mode)
                err = np.abs(r.T @ r - np.eye(3)).max()
                det = np.linalg.det(r)
                blk = max(np.abs(m[:3, 3:]).max(), np.abs(m[3:, 3:] - r).max())
                if not (err < 1e-10 and abs(det - 1) < 1e-10 and blk < 1e-12):
                    out.fail(family_of("proper-rotation", a, b), "position block is not a proper rotation / 6x6 not of the form [[R,0],[B,R]]",
                             {"eop": mode, "date": str(date), "frames": [a, b]}, observed={"orth_err": float(err), "det": float(det), "block_err": float(blk)}, expected={"orth_err": 0, "det": 1})
            for _ in range(3):
                a, b = rng.sample(BUILTIN, 2)
                sA = sv0.copy(frame=a)
                sB = np.array(sA.copy(frame=b))
                out.count(key=("norm", mode, a, b, str(date)), kind="norm-preserved", eop=mode)
                if abs(np.linalg.norm(sB[:3]) - np.linalg.norm(np.array(sA)[:3])) > 1e-6:
                    out.fail(family_of("norm", a, b), "|r| changes between frames sharing the Earth centre", {"eop": mode, "date": str(date), "frames": [a, b], "state": list(map(float, sA))},
                             observed=float(np.linalg.norm(sB[:3])), expected=float(np.linalg.norm(np.array(sA)[:3])))
            # ---- 3. converted velocity = d/dt converted position (Richardson central differences along the Keplerian arc)
            # The EOP tables are piecewise constant per day (no interpolation, by design of SimpleEopDatabase): UT1-UTC and the pole step
            # at midnight, so Earth-fixed positions jump by up to ~1 m there; the difference window must not straddle a day boundary.
            # Body-centred frames are left out: the velocity of the Moon/Sun centre is itself a +-1 day difference quotient (C18).
            vnames = [n for n in names if n not in bod]
            vweights = [w for n, w in zip(names, weights) if n not in bod]
            for _ in range(3 if 60.0 < date.s < 86340.0 else 0):
                b = rng.choices(vnames, weights=vweights, k=1)[0]
                fam = family_of("velocity-derivative", b)
                vel = np.array(sv0.copy(frame=b))[3:]
                pos = {}
                for h in (-40.0, -20.0, 20.0, 40.0):
                    pos[h] = np.array(orb.propagate(date + timedelta(seconds=h)).copy(frame=b, form="cartesian"))[:3]
                d20 = (pos[20.0] - pos[-20.0]) / 40.0
                d40 = (pos[40.0] - pos[-40.0]) / 80.0
                fd = (4 * d20 - d40) / 3
                rmax = max(np.linalg.norm(np.array(sv0)[:3]), 7e6)
                # jd is one double (4e-5 s): Earth-fixed positions jitter by ~7.3e-5 rad/s * 2e-5 s * r; the slow precession/nutation rates are omitted by design (5e-5 m/s)
                tol = 2e-3 * rmax / 7e6 + 2e-4
                out.count(key=("vel", mode, b, str(date)), kind="velocity-derivative", eop=mode, target=fam.split(":")[1])
                if not np.all(np.abs(fd - vel) <= tol):
                    out.fail(fam, "converted velocity is not the time derivative of the converted position",
                             {"eop": mode, "date": str(date), "frame": b, "kepl": list(map(float, kepl)), "ref_kepl": list(map(float, ref.copy(form="keplerian")))},
                             observed=list(map(float, vel)), expected=list(map(float, fd)))
            # ---- 4. Earth rotation angle / sidereal time / precession against independent formulas; 1980 vs 2010
            ut1 = date.change_scale("UT1")
            jd0, sec = ut1.d + 2400000.5, ut1.s
            pef, tod, tirf, cirf = (get_frame(n).orientation for n in ("PEF", "TOD", "TIRF", "CIRF"))
            m = pef.convert_to(date, tod)[:3, :3]     # rot3(-GAST)
            gast = math.atan2(m[1, 0], m[0, 0]) % (2 * math.pi)
            from beyond.frames import iau1980
            eq = math.radians(iau1980.equinox(date, eop_correction=False))
            gmst_i = indep_gmst82(jd0, sec)
            out.count(key=("gmst", mode, str(date)), kind="sidereal-independent", eop=mode)
            dg = (gast - eq - gmst_i + math.pi) % (2 * math.pi) - math.pi
            if abs(dg) > 1e-8:   # 2 mas; jd quantisation alone is 3e-9 rad
                out.fail("sidereal-independent", "PEF->TOD rotation angle minus equation of equinoxes differs from independently computed GMST82",
                         {"eop": mode, "date": str(date)}, observed=float(gast - eq), expected=float(gmst_i))
            m = tirf.convert_to(date, cirf)[:3, :3]
            era = math.atan2(m[1, 0], m[0, 0]) % (2 * math.pi)
            de = (era - indep_era(jd0, sec) + math.pi) % (2 * math.pi) - math.pi
            out.count(key=("era", mode, str(date)), kind="era-independent", eop=mode)
            if abs(de) > 1e-8:
                out.fail("era-independent", "TIRF->CIRF rotation angle differs from independently computed Earth rotation angle", {"eop": mode, "date": str(date)},
                         observed=float(era), expected=float(indep_era(jd0, sec)))
            tt = date.change_scale("TT")
            tcen = ((tt.d - 51544) - 0.5 + tt.s / 86400.0) / 36525.0
            mp = get_frame("MOD").orientation.convert_to(date, get_frame("EME2000").orientation)[:3, :3]
            out.count(key=("prec", mode, str(date)), kind="precession-independent", eop=mode)
            if np.abs(mp - indep_precession(tcen)).max() > 1e-11:
                out.fail("precession-independent", "MOD->EME2000 differs from the IAU-1976 precession matrix written entry by entry", {"eop": mode, "date": str(date)},
                         observed=mp.tolist(), expected=indep_precession(tcen).tolist())
            # rate vector: the velocity coupling block equals -[w]x R with w = (0,0,-w_earth(1-lod/86400))
            m6 = pef.convert_to(date, tod)
            w = 7.292115146706979e-5 * (1 - date.eop.lod / 1000.0 / 86400.0)
            expB = np.array([[0, -w, 0], [w, 0, 0], [0, 0, 0]]) @ m6[:3, :3]
            out.count(key=("rate", mode, str(date)), kind="rate-block", eop=mode)
            if np.abs(m6[3:, :3] - expB).max() > 1e-15:
                out.fail("rate-block", "PEF->TOD coupling block is not +w x R (v_inertial = R v + w x R r)", {"eop": mode, "date": str(date)},
                         observed=m6[3:, :3].tolist(), expected=expB.tolist())
            if mode in ("real", "zero"):
                g = get_frame("GCRF").orientation.convert_to(date, get_frame("EME2000").orientation)[:3, :3]
                ang = rot_angle(g)
                out.count(key=("1980v2010", mode, str(date)), kind="iau1980-vs-2010", eop=mode)
                if not ang < 0.1 * ARCSEC:
                    out.fail("iau1980-vs-2010", "GCRF -> (2010 chain) -> ITRF -> (1980 chain) -> EME2000 rotates by 0.1 arcsec or more", {"eop": mode, "date": str(date)},
                             observed=float(ang / ARCSEC), expected="< 0.1 arcsec")
        if mode == "real":
            eop_reader_oracle(out, rng, 300 if big else 60)
    set_eop("real")
    out.sample({"checks": "A->B->C vs A->C, A->B->A, orthonormality/det/block form, |r| preserved, Richardson finite-difference velocity, GMST82/ERA/IAU76 precession vs independent formulas, 1980 vs 2010 chain, EOP file reader vs independent column parse"})
    return out


def eop_reader_oracle(out, rng, n):
    """SimpleEopDatabase on the real IERS files against an independent parse of the same lines (IERS readme columns, 1-based)"""
    from beyond.dates.eop import EopDb
    folder = os.path.join(core.REPO, "tests", "data", "pole")
    rows = {}
    for fn, d1, d2 in (("finals.all", "dpsi", "deps"), ("finals2000A.all", "dx", "dy")):
        for line in open(os.path.join(folder, fn), encoding="ascii"):
            mjd = int(float(line[7:15]))
            def col(a, b):
                s = line[a - 1:b].strip()
                return float(s) if s else None
            r = rows.setdefault(mjd, {})
            r.update({"x": col(19, 27), "y": col(38, 46), "ut1_utc": col(59, 68), "lod": col(80, 86), d1: col(98, 106), d2: col(117, 125)})
    leap = [(41317, 10.0), (41499, 11.0), (41683, 12.0), (42048, 13.0), (42413, 14.0), (42778, 15.0), (43144, 16.0), (43509, 17.0), (43874, 18.0), (44239, 19.0),
            (44786, 20.0), (45151, 21.0), (45516, 22.0), (46247, 23.0), (47161, 24.0), (47892, 25.0), (48257, 26.0), (48804, 27.0), (49169, 28.0), (49534, 29.0),
            (50083, 30.0), (50630, 31.0), (51179, 32.0), (53736, 33.0), (54832, 34.0), (56109, 35.0), (57204, 36.0), (57754, 37.0)]
    for _ in range(n):
        mjd = rng.randrange(MJD_MIN, MJD_MAX) + rng.random()
        e = EopDb.get(mjd)
        r = rows[int(mjd)]
        tai = [v for m, v in leap if m <= mjd][-1]
        out.count(key=("eop", int(mjd)), kind="eop-reader")
        for k in ("x", "y", "ut1_utc", "lod", "dpsi", "deps", "dx", "dy"):
            if r[k] is not None and getattr(e, k) != r[k]:
                out.fail("eop-reader:" + k, f"EopDb.get returns a different {k} than the IERS file line", {"mjd": mjd}, observed=getattr(e, k), expected=r[k])
        if e.tai_utc != tai:
            out.fail("eop-reader:tai_utc", "TAI-UTC differs from the leap second table", {"mjd": mjd}, observed=e.tai_utc, expected=tai)
