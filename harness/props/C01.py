"""C01 — orbital element forms are lossless, definition-true views of one state."""
import ast
import math
import os
import re

from harness import core, py2lean, instantiate
from harness.core import Outcome, f2b, b2f

ID = "C01"
LEAN_TARGETS = ["BeyondVerif.Props.C01", "BeyondVerif.Witness.C01"]
THEOREMS = ["BeyondVerif.C01." + t for t in (
    "cart_cyl_cart cyl_cart_cyl cart_sph_cart sph_cart_sph kepl_circ_kepl circ_kepl_circ mean_mcirc_mean mcirc_mean_mcirc "
    "mean_tle_mean tle_mean_tle kepl_equi_kepl equi_kepl_equi kepl_ecc_kepl_elliptic ecc_kepl_ecc_elliptic "
    "kepl_ecc_kepl_hyperbolic ecc_kepl_ecc_hyperbolic m2eLoop_exit m2e_residual_elliptic mean_ecc_mean_elliptic "
    "ecc_mean_ecc_elliptic m2e_exit m2e_reduction_elliptic m2e_residual_hyperbolic mean_ecc_mean_hyperbolic ecc_mean_ecc_hyperbolic mean_mcirc_mean_hyperbolic keplToCart_respects_angEq keplToCirc_respects_angEq "
    "edge_methods_are_links forms_walk_unique infos_fpa_components_unit infos_fpa_tan infos_visviva_energy infos_period "
    "infos_apsides infos_hyperbolic keplToCart_radius_speed_momentum keplToCart_dot_node kepl_cart_kepl cart_kepl_cart_of_image walk_roundtrip_exact walk_roundtrip_cyl_sph").split()] + [
    "BeyondVerif.C01W.m2e_start_clamped", "BeyondVerif.C01W.mean_circular_keeps_hyperbolic_M"]
LEVEL_TEXT = ("Lean theorems over R about the 17 edge functions, the M2E reduction/start/update/exit test/return and the Infos formulas translated from "
              "forms.py / statevector.py on every run (py2lean): round trips of all 9 links in both directions for all inputs in the stated domains "
              "(cyl, sph, circular, mean-circular incl. hyperbolic M exact, TLE, equinoctial, true<->eccentric/hyperbolic anomaly, keplerian->cartesian->"
              "keplerian in full, cartesian->keplerian->cartesian on every state that is the view of elements in the domain), angles as points of the "
              "circle and exact inside one turn; Kepler-equation residual at the returned value for both conics (2 tol (1+e) / 8 e cosh H tol^2) and "
              "eccentric<->mean round trips, for every fuel, every M and every start branch; keplerian->cartesian invariant under the circle relation and "
              "definition-true (radius, vis-viva, angular momentum, r.v, node-line component); routing = unique tree walk (C20), walk round trip by "
              "induction over the path (exact form); Infos relations. Differential correspondence of every edge, M2E, Infos and StateVector.copy "
              "along the routed walk against the compiled Lean model.")
LEVEL_NOTE = ("proof (partial): not proved are (1) that every cartesian state with h != 0, sin i != 0, e != 0 is the view of some elements (so "
              "cartesian->keplerian->cartesian is proved on the image of keplerian->cartesian only), (2) termination of the Kepler loop (fuel; covered by "
              "correspondence with fuel 10^4 and a watchdog oracle), (3) the walk round trip for links that return angles modulo 2 pi as one statement; "
              "R -> double gap covered by tolerance-bounded correspondence; Lean kernel + propext/Classical.choice/Quot.sound; py2lean translator trusted")
TECHNIQUE = "Lean 4 proof over edge formulas translated from the Python AST (py2lean) on every run; differential correspondence per edge; API oracle"
TRUSTED = [
    "harness/py2lean.py translate_fn/translate_expr: Python AST of the 17 `_a_to_b` methods, M2E pieces and 13 Infos properties -> Generated/Forms{F,R}.lean on every run",
    "harness/props/C01.py m2e_pieces: checks that the M2E loop and the mean->eccentric edge still have exactly the modelled shape (AST equality), else the run is reported broken",
    "lean/templates/Forms.tpl: hand-written fuel loop, 6-list plumbing, name dispatch (tied by the correspondence run)",
    "atan2 y x := Complex.arg (x + iy), Python % := x - m floor(x/m), np.linalg.norm := sqrt of the sum of squares (NumReal.lean / py2lean)",
    "numpy / libm double arithmetic vs R: correspondence tolerance 1e-9 relative (scaled by the conditioning of arctanh near 1 for hyperbolic anomalies)",
]
ASSUMPTIONS = [
    "theorems are over R; the implementation computes in IEEE doubles",
    "domains: off the z axis for spherical/cylindrical; e > 0 (circular forms, equinoctial), 0 < i < pi (equinoctial), 0 <= e < 1 or e > 1 with 1 + e cos(nu) > 0 (anomalies), a > 0 (TLE)",
    "angles are compared as points of the circle (same cos and sin); equality of numbers is proved inside the turn the code itself returns",
]
NOT_COVERED = [
    "cartesian -> keplerian -> cartesian for an ARBITRARY cartesian state: proved on the image of keplerian->cartesian (cart_kepl_cart_of_image); existence of elements for every state with h != 0, sin i != 0, e != 0 is not proved (oracle: independent textbook elements + round trips on the real API)",
    "termination of the Kepler iteration (the model carries fuel; the code's loop is unbounded): correspondence with fuel 10^4 on all start branches and up to 60 revolutions, watchdog oracle incl. the pinned former non-returning inputs",
    "definition-truth of cartesian->keplerian (a from energy, e = |eccentricity vector|, node, perigee) is checked by the oracle against an independent numpy computation, not proved",
    "spherical rates as time derivatives (HasDerivAt) not proved; oracle uses central differences",
    "conditioning near e->0, i->0, e->1 (excluded by the quantifier); rounding",
]
OPEN = [
    "surjectivity of keplerian->cartesian onto the non-degenerate cartesian states (would turn cart_kepl_cart_of_image into the unconditional statement)",
    "termination of Form.M2E as a theorem (exists fuel, m2e fuel e M != none) for 0 <= e < 1 after the reduction of b41fd8b, and for e > 1",
    "walk_roundtrip for paths through links that return angles as circle points: walk_roundtrip_exact is the induction over the path for links with exact round trips; the AngEq version needs 'respects AngEq' for all 18 edges (proved for keplerian->cartesian and keplerian->circular)",
]
RULE = ("correspondence: 2500 (quick) / 40000 (thorough) orbits, alternating ellipse/hyperbola, e in [1e-4,0.99] u [1.001,20], i in [0.01,pi-0.01], "
        "any node/perigee, anomalies incl. M<0, M>2pi, |H|<=8, three bodies; every one of the 18 edge methods on each orbit, StateVector.copy along the "
        "routed walk for a random pair, Form.M2E on all start branches, 13 Infos values; rtol 1e-9, angles mod 2pi; non-trivial = every case; "
        "distinct = distinct request line. oracle: mean->cartesian vs an independent perifocal construction, 9 forms x 6 numbers vs textbook "
        "definitions computed with numpy, 10x10 round trips (1e-6 r, 1e-6 v), Infos relations, Kepler residual of Form.M2E")

FORMS_PY = os.path.join(core.REPO, "beyond", "orbits", "forms.py")
SV_PY = os.path.join(core.REPO, "beyond", "orbits", "statevector.py")

FORMS = ["cartesian", "spherical", "cylindrical", "keplerian", "keplerian_eccentric", "keplerian_mean",
         "keplerian_circular", "keplerian_mean_circular", "equinoctial", "tle"]
TWO_PI = 2 * math.pi

# ---------------------------------------------------------------- generators (shared by K and S)

MUS = None


def bodies():
    from beyond import constants
    return [constants.Earth, constants.Moon, constants.Sun]


def frames():
    """one inertial frame per central body (never transformed, only carrying `center.body`)"""
    from beyond.frames import frames as fr, orient, center
    out = []
    for b in bodies():
        name = "C01_" + b.name
        if name not in fr.dynamic:
            fr.Frame(name, orient.EME2000, center.Center(name, body=b), exists_warning=False)
        out.append(fr.dynamic[name])
    return out


def gen_elements(rng, conic=None):
    """(mu-index, hyperbolic?, a, e, i, Omega, omega, anomaly-kind, anomaly) inside the property's quantifier"""
    k = rng.randrange(3)
    hyper = (rng.random() < 0.4) if conic is None else conic
    rbody = [6.4e6, 1.8e6, 7e8][k]
    if hyper:
        e = rng.choice([1.001, 1.01, 1.2, 1.59, 1.61, 3.59, 3.61, 20.0]) if rng.random() < 0.25 else 1.001 + (rng.random() ** 2) * 18.999
        a = -rbody * math.exp(rng.uniform(0.0, 4.0))
    else:
        e = rng.choice([1e-4, 0.002, 0.5, 0.99]) if rng.random() < 0.2 else rng.uniform(1e-4, 0.99)
        a = rbody * math.exp(rng.uniform(0.05, 4.0))
    i = rng.choice([0.01, math.pi / 2, math.pi - 0.01, 1.0, 2.5]) if rng.random() < 0.2 else rng.uniform(0.01, math.pi - 0.01)
    Om = rng.uniform(0, TWO_PI)
    om = rng.uniform(0, TWO_PI)
    return k, hyper, a, e, i, Om, om


def gen_anomaly(rng, hyper, e):
    """mean anomaly drawn so that every start branch of M2E is visited; returns (M, E-or-H)"""
    if hyper:
        H = rng.uniform(-8, 8) if rng.random() < 0.7 else rng.uniform(-1.5, 1.5)
        return e * math.sinh(H) - H, H
    r = rng.random()
    if r < 0.12:
        E = rng.uniform(-60, 60) * TWO_PI     # many revolutions away (the reduction of fix b41fd8b)
    elif r < 0.5:
        E = rng.uniform(0, TWO_PI)
    elif r < 0.75:
        E = rng.uniform(-TWO_PI, 0)          # M < 0
    else:
        E = rng.uniform(TWO_PI, 2 * TWO_PI)  # M > 2 pi
    return E - e * math.sin(E), E


class Hang(Exception):
    pass


class watchdog:
    """raise Hang in the main thread if the body runs longer than `seconds` (Form.M2E used not to return for some inputs)"""

    def __init__(self, seconds=2.0):
        self.s = seconds

    def __enter__(self):
        import signal

        def h(*a):
            raise Hang()
        self.old = signal.signal(signal.SIGALRM, h)
        signal.setitimer(signal.ITIMER_REAL, self.s)

    def __exit__(self, *a):
        import signal
        signal.setitimer(signal.ITIMER_REAL, 0)
        signal.signal(signal.SIGALRM, self.old)
        return False


def guarded_m2e(e, M):
    """Form.M2E(e, M) as a float, or None if it does not return within 2 s"""
    import numpy as np
    from beyond.orbits.forms import Form
    try:
        with watchdog(2.0), np.errstate(all="ignore"):
            return float(Form.M2E(e, M))
    except Hang:
        return None


def nu_from_anomaly(hyper, e, EH):
    if hyper:
        return 2 * math.atan(math.sqrt((e + 1) / (e - 1)) * math.tanh(EH / 2))
    return 2 * math.atan2(math.sqrt(1 + e) * math.sin(EH / 2), math.sqrt(1 - e) * math.cos(EH / 2))


def truth_cartesian(mu, a, e, i, Om, om, nu):
    """independent textbook construction: perifocal state rotated by R3(-Om) R1(-i) R3(-om)"""
    import numpy as np
    p = a * (1 - e * e)
    r = p / (1 + e * math.cos(nu))
    rp = np.array([r * math.cos(nu), r * math.sin(nu), 0.0])
    vp = math.sqrt(mu / p) * np.array([-math.sin(nu), e + math.cos(nu), 0.0])

    def R3(t):
        return np.array([[math.cos(t), -math.sin(t), 0], [math.sin(t), math.cos(t), 0], [0, 0, 1]])

    def R1(t):
        return np.array([[1, 0, 0], [0, math.cos(t), -math.sin(t)], [0, math.sin(t), math.cos(t)]])
    Q = R3(Om) @ R1(i) @ R3(om)
    return np.concatenate([Q @ rp, Q @ vp])


def start_value(e, M):
    """the UNCLAMPED start value of M2E for a hyperbolic orbit (what the code used before fix 31f549a clamps |H| > 30 to
    the asymptotic solution) — only used to name the failure family should the overflow return"""
    if e < 1.6:
        return M - e if (-math.pi < M < 0 or M > math.pi) else M + e
    if e < 3.6 and abs(M) > math.pi:
        return M - math.copysign(e, M)
    return M / (e - 1)


def branch(e, M):
    if e < 1:
        M = M - TWO_PI * math.floor((M + math.pi) / TWO_PI)   # the reduction of fix b41fd8b
        return "ell-minus" if (-math.pi < M < 0 or M > math.pi) else "ell-plus"
    if e < 1.6:
        return "hyp-lt1.6-minus" if (-math.pi < M < 0 or M > math.pi) else "hyp-lt1.6-plus"
    if e < 3.6 and abs(M) > math.pi:
        return "hyp-lt3.6-sign"
    return "hyp-ratio"


def defined_for(form, hyper):
    return not (hyper and form == "tle")


def angdiff(a, b):
    d = (a - b) % TWO_PI
    return min(d, TWO_PI - d)


def arr(sv):
    import numpy as np
    return np.array(sv.base if hasattr(sv, "base") and sv.base is not None else sv, dtype=float).reshape(6)


# ---------------------------------------------------------------- oracle on the real API

def textbook(mu, c):
    """every element of every form, computed from the cartesian state by the textbook definitions (numpy, independent of beyond)"""
    import numpy as np
    r, v = c[:3], c[3:]
    rn, vn = np.linalg.norm(r), np.linalg.norm(v)
    h = np.cross(r, v)
    hn = np.linalg.norm(h)
    hh = h / hn
    ev = np.cross(v, h) / mu - r / rn
    e = np.linalg.norm(ev)
    a = 1 / (2 / rn - vn * vn / mu)
    i = math.acos(hh[2])
    nvec = np.array([-h[1], h[0], 0.0])
    nh = nvec / np.linalg.norm(nvec)
    Om = math.atan2(nvec[1], nvec[0]) % TWO_PI
    om = math.atan2(np.dot(np.cross(nh, ev), hh), np.dot(nh, ev)) % TWO_PI
    nu = math.atan2(np.dot(np.cross(ev, r), hh), np.dot(ev, r)) % TWO_PI
    u = math.atan2(np.dot(np.cross(nh, r), hh), np.dot(nh, r)) % TWO_PI
    d = {"a": a, "e": e, "i": i, "Ω": Om, "ω": om, "ν": nu, "u": u}
    if e < 1:
        E = 2 * math.atan2(math.sqrt(1 - e) * math.sin(nu / 2), math.sqrt(1 + e) * math.cos(nu / 2))
        M = E - e * math.sin(E)
        d["n"] = math.sqrt(mu / a ** 3)
    else:
        nus = (nu + math.pi) % TWO_PI - math.pi
        E = 2 * math.atanh(math.sqrt((e - 1) / (e + 1)) * math.tan(nus / 2))
        M = e * math.sinh(E) - E
    d["E"], d["M"] = E, M
    d["ex_c"], d["ey_c"] = float(np.dot(ev, nh)), float(np.dot(ev, np.cross(hh, nh)))
    d["α"] = om + M
    d["ex_q"], d["ey_q"] = e * math.cos(Om + om), e * math.sin(Om + om)
    d["ix"], d["iy"] = math.tan(i / 2) * math.cos(Om), math.tan(i / 2) * math.sin(Om)
    d["l"] = Om + om + nu
    # spherical / cylindrical: angles by definition, rates by central differences along the straight line r + v t
    x, y, z = r
    d["r"], d["θ"], d["φ"] = rn, math.atan2(y, x), math.asin(z / rn)
    d["rho"] = math.hypot(x, y)
    dt = 1e-4 * rn / vn

    def ang(t):
        q = r + v * t
        return np.array([np.linalg.norm(q), math.atan2(q[1], q[0]), math.asin(q[2] / np.linalg.norm(q)), math.hypot(q[0], q[1])])
    dd = (ang(dt) - ang(-dt))
    dd[1] = (dd[1] + math.pi) % TWO_PI - math.pi
    dd /= 2 * dt
    d["r_dot"], d["θ_dot"], d["φ_dot"], d["rho_dot"] = dd
    return d


ANG = {"Ω", "ω", "ν", "u", "E", "M", "α", "l", "θ"}


def expected_form(form, d, hyper):
    """list of (param name, textbook value, is-angle, scale) for the six numbers of `form`"""
    if form == "keplerian":
        ks = ["a", "e", "i", "Ω", "ω", "ν"]
    elif form == "keplerian_eccentric":
        ks = ["a", "e", "i", "Ω", "ω", "E"]
    elif form == "keplerian_mean":
        ks = ["a", "e", "i", "Ω", "ω", "M"]
    elif form == "keplerian_circular":
        ks = ["a", "ex_c", "ey_c", "i", "Ω", "u"]
    elif form == "keplerian_mean_circular":
        ks = ["a", "ex_c", "ey_c", "i", "Ω", "α"]
    elif form == "equinoctial":
        ks = ["a", "ex_q", "ey_q", "ix", "iy", "l"]
    elif form == "tle":
        ks = ["i", "Ω", "e", "ω", "M", "n"]
    elif form == "spherical":
        ks = ["r", "θ", "φ", "r_dot", "θ_dot", "φ_dot"]
    elif form == "cylindrical":
        ks = ["rho", "θ", "z", "rho_dot", "θ_dot", "vz"]
    else:
        return []
    return ks


def orbit_checks(out, fr, k, hyper, a, e, i, Om, om, M, EH):
    """all oracle predicates for one orbit given by mean elements (shared by the sweep and by replay)"""
    import numpy as np
    from beyond.orbits import StateVector
    from beyond.dates import Date
    date = Date(2020, 1, 1)
    mu = fr.center.body.mu
    nu = nu_from_anomaly(hyper, e, EH)
    truth = truth_cartesian(mu, a, e, i, Om, om, nu)
    rs, vs = np.linalg.norm(truth[:3]), np.linalg.norm(truth[3:])
    inp = {"body": fr.center.body.name, "a": a, "e": e, "i": i, "Omega": Om, "omega": om, "M": M, "E_or_H": EH}
    conic = "hyp" if hyper else "ell"
    # 0. the mean-anomaly state, converted to cartesian by the code, is the independently constructed state
    s0 = StateVector([a, e, i, Om, om, M], date, "keplerian_mean", fr)
    with np.errstate(all="ignore"):
        c0 = arr(s0.copy(form="cartesian"))
    out.count(key=("m2cart", k, a, e, M), kind="mean->cartesian-vs-textbook", conic=conic, m2e=branch(e, M))
    if not np.all(np.isfinite(c0)):
        fam = "m2e-hyperbolic-start-overflow" if (hyper and abs(start_value(e, M)) > 709.0) else f"non-finite-mean-to-cartesian-{conic}"
        out.fail(fam, "keplerian_mean -> cartesian returns a non-finite state inside the property's domain (M2E start value overflows sinh/cosh)",
                 inp, observed=[float(x) for x in c0], expected=[float(x) for x in truth], start_value=start_value(e, M) if hyper else None)
        # continue from the true-anomaly state so that the remaining checks still run on this orbit
        s0 = StateVector([a, e, i, Om, om, nu], date, "keplerian", fr)
        c0 = arr(s0.copy(form="cartesian"))
    if not (np.linalg.norm(c0[:3] - truth[:3]) <= 1e-6 * rs and np.linalg.norm(c0[3:] - truth[3:]) <= 1e-6 * vs):
        out.fail(f"mean-to-cartesian-{conic}-{branch(e, M)}", "keplerian_mean -> cartesian differs from the textbook perifocal construction",
                 inp, observed=[float(x) for x in c0], expected=[float(x) for x in truth])
        return
    cart = StateVector(truth, date, "cartesian", fr)
    # 1. definition truth: every form's six numbers from the cartesian state
    d = textbook(mu, truth)
    d["z"], d["vz"] = truth[2], truth[5]
    for form in FORMS[1:]:
        if not defined_for(form, hyper):
            continue
        with np.errstate(all="ignore"):
            got = arr(cart.copy(form=form))
        ks = expected_form(form, d, hyper)
        out.count(key=("def", form, k, a, e, nu), kind="definition-" + form, conic=conic)
        for idx, kname in enumerate(ks):
            exp = d[kname]
            g = float(got[idx])
            base = kname.split("_")[0]
            if kname in ANG:
                if kname in ("E", "M", "α") and hyper:
                    # not angles on a hyperbola: compared as numbers (α = ω + M whole)
                    ok = abs(g - exp) <= 1e-6 * max(1.0, abs(exp))
                else:
                    ok = angdiff(g, exp) <= 2e-6 / (e if kname in ("ω", "ν", "E", "M") and e < 1e-2 else 1.0) / (math.sin(i) if kname in ("Ω", "ω", "u", "α") and math.sin(i) < 0.1 else 1.0)
            elif kname.endswith("_dot"):
                sc = {"r_dot": vs, "rho_dot": vs, "θ_dot": vs / d["rho"], "φ_dot": vs / d["rho"]}[kname]
                ok = abs(g - exp) <= 2e-5 * sc
            else:
                sc = {"a": abs(a), "r": rs, "rho": rs, "z": rs, "vz": vs, "n": d.get("n", 1.0)}.get(kname, 1.0)
                ok = abs(g - exp) <= 1e-6 * sc * (1.0 / math.sin(i) if kname in ("ix", "iy") else 1.0) * (1 + abs(exp) if kname in ("ix", "iy") else 1.0)
            if not (ok and math.isfinite(g)):
                fam = "mean-circular-hyperbolic-M-mod-2pi" if (hyper and kname == "α") else f"definition-{form}-{kname}-{conic}"
                out.fail(fam, f"{form}[{idx}] is not the textbook value of {kname} computed from the cartesian state",
                         dict(inp, cartesian=[float(x) for x in truth]), observed=g, expected=float(exp))
    # 2. round trips over all ordered pairs
    for src in FORMS:
        if not defined_for(src, hyper):
            continue
        with np.errstate(all="ignore"):
            sx = cart.copy(form=src)
        for dst in FORMS:
            if dst == src or not defined_for(dst, hyper):
                continue
            with np.errstate(all="ignore"):
                back = sx.copy(form=dst).copy(form=src)
                cb = arr(back.copy(form="cartesian"))
            out.count(key=("rt", src, dst, k, a, e, nu), kind=f"roundtrip-{conic}", pair=f"{src[:9]}>{dst[:9]}")
            if not (np.all(np.isfinite(cb)) and np.linalg.norm(cb[:3] - truth[:3]) <= 1e-6 * rs and np.linalg.norm(cb[3:] - truth[3:]) <= 1e-6 * vs):
                fam = f"roundtrip-{src}-{dst}-{conic}"
                if hyper and not np.all(np.isfinite(cb)) and abs(start_value(e, d["M"])) > 709.0:
                    fam = "m2e-hyperbolic-start-overflow"
                elif hyper and "keplerian_mean_circular" in (src, dst):
                    fam = "mean-circular-hyperbolic-M-mod-2pi"
                out.fail(fam, f"{src} -> {dst} -> {src} does not return the same position and velocity",
                         dict(inp, cartesian=[float(x) for x in truth], src=src, dst=dst), observed=[float(x) for x in cb], expected=[float(x) for x in truth])
    # 3. Infos: defining relations
    inf = cart.infos
    vn = vs
    h = np.linalg.norm(np.cross(truth[:3], truth[3:]))
    energy = vn * vn / 2 - mu / rs
    checks = [("v", inf.v, vn, vn), ("energy", inf.energy, energy, abs(energy)), ("r", inf.r, rs, rs),
              ("pericenter", inf.pericenter, a * (1 - e), abs(a)), ("rp", inf.rp, a * (1 - e), abs(a)),
              ("vp", inf.vp, h / (a * (1 - e)), vn), ("n", inf.n, math.sqrt(mu / abs(a) ** 3), math.sqrt(mu / abs(a) ** 3)),
              ("cos_fpa", inf.cos_fpa, h / (rs * vn), 1.0), ("sin_fpa", inf.sin_fpa, float(np.dot(truth[:3], truth[3:])) / (rs * vn), 1.0),
              ("fpa", inf.fpa, math.atan2(float(np.dot(truth[:3], truth[3:])), h), 1.0),
              ("cos2+sin2", inf.cos_fpa ** 2 + inf.sin_fpa ** 2, 1.0, 1.0),
              ("zp", inf.zp, a * (1 - e) - fr.center.body.equatorial_radius, abs(a))]
    if hyper:
        checks += [("vinf", inf.vinf, math.sqrt(2 * energy), vn), ("dinf", inf.dinf, h / math.sqrt(2 * energy), abs(a) * e),
                   ("type", float(inf.type == "hyperbolic"), 1.0, 1.0)]
        for nm in ("period", "apocenter", "va"):
            try:
                getattr(inf, nm)
                out.fail("infos-" + nm + "-hyperbolic", f"infos.{nm} of a hyperbolic orbit does not raise", inp)
            except ValueError:
                pass
    else:
        checks += [("period", inf.period.total_seconds(), TWO_PI * math.sqrt(a ** 3 / mu), TWO_PI * math.sqrt(a ** 3 / mu)),
                   ("apocenter", inf.apocenter, a * (1 + e), a), ("ra", inf.ra, a * (1 + e), a), ("va", inf.va, h / (a * (1 + e)), vn),
                   ("za", inf.za, a * (1 + e) - fr.center.body.equatorial_radius, a), ("type", float(inf.type == "elliptic"), 1.0, 1.0)]
    for nm, got, exp, sc in checks:
        out.count(key=("infos", nm, k, a, e, nu), kind="infos", conic=conic)
        if not (math.isfinite(float(got)) and abs(float(got) - exp) <= 1e-6 * sc + (1e-6 if nm == "period" else 0.0)):
            out.fail(f"infos-{nm}-{conic}", f"infos.{nm} violates its defining relation", dict(inp, cartesian=[float(x) for x in truth]),
                     observed=float(got), expected=float(exp))


def oracle(ctx, widened):
    import numpy as np
    out = Outcome()
    rng = ctx.rng
    big = widened or ctx.thorough
    frs = frames()
    from beyond.orbits import StateVector
    from beyond.orbits.forms import Form
    from beyond.dates import Date
    date = Date(2020, 1, 1)
    N = 400 if big else 40
    for _ in range(N):
        k, hyper, a, e, i, Om, om = gen_elements(rng)
        M, EH = gen_anomaly(rng, hyper, e)
        try:
            with watchdog(10.0):
                orbit_checks(out, frs[k], k, hyper, a, e, i, Om, om, M, EH)
        except Hang:
            out.fail("m2e-elliptic-no-return" if not hyper else "m2e-hyperbolic-no-return", "a conversion of this state does not return within 10 s (Kepler loop)",
                     {"body": frs[k].center.body.name, "a": a, "e": e, "i": i, "Omega": Om, "omega": om, "M": M, "E_or_H": EH})
    # 4. Kepler equation through the public helper, all start branches, incl. the overflow region named by lead 18
    pinned = [(False, 0.826, 25.953, None), (False, 0.9, 100 * math.pi + 0.3, None), (False, 0.97, -31.0, None), (True, 1.2, 720.0, None)]
    cases = pinned + [None] * (2000 if big else 300)
    for c in cases:
        if c is None:
            hyper = rng.random() < 0.5
            e = (1.001 + rng.random() ** 2 * 18.999) if hyper else rng.uniform(1e-4, 0.99)
            M, EH = gen_anomaly(rng, hyper, e)
        else:
            hyper, e, M, EH = c
        got = guarded_m2e(e, M)
        out.count(key=("m2e", e, M), kind="M2E", m2e=branch(e, M), revolutions="|M|>2pi" if abs(M) > TWO_PI else "|M|<=2pi")
        if got is None:
            out.fail("m2e-elliptic-no-return" if not hyper else "m2e-hyperbolic-no-return", "Form.M2E does not return (Newton iteration cycles or wanders)",
                     {"e": e, "M": M, "true_E_or_H": EH}, observed="no return within 2 s", expected=EH)
            continue
        res = (e * math.sinh(got) - got - M) if hyper else (got - e * math.sin(got) - M)
        if not (math.isfinite(got) and abs(res) <= 1e-6 * max(1.0, abs(M))):
            fam = "m2e-hyperbolic-start-overflow" if (hyper and not math.isfinite(got) and abs(start_value(e, M)) > 709.0) else "m2e-residual-" + branch(e, M)
            out.fail(fam, "Form.M2E does not return a solution of Kepler's equation inside the property's domain",
                     {"e": e, "M": M, "true_E_or_H": EH, "start_value": start_value(e, M) if hyper else None}, observed=got, expected=EH)
    out.sample({"checks": "mean->cartesian vs textbook, definition truth of 9 forms, 10x10 round trips, infos relations, M2E residual"})
    return out


# ---------------------------------------------------------------- extract: formulas and tables regenerated from /repo

SHORT = {"cartesian": "Cart", "keplerian": "Kepl", "keplerian_eccentric": "Ecc", "keplerian_mean": "Mean", "keplerian_circular": "Circ",
         "keplerian_mean_circular": "Mcirc", "tle": "Tle", "spherical": "Sph", "equinoctial": "Equi", "cylindrical": "Cyl"}
CARGS = ["c0", "c1", "c2", "c3", "c4", "c5"]
MU_CONSTS = {"body.µ": "mu", "body.μ": "mu", "body.mu": "mu", "body": "body_unused"}

M2E_EDGE_SRC = "a, e, i, Ω, ω, M = coord\nE = cls.M2E(e, M)\nreturn np.array([a, e, i, Ω, ω, E], dtype=float)\n"


def edge_lean_name(pyname):
    a, b = pyname[1:].split("_to_")
    return SHORT[a][0].lower() + SHORT[a][1:] + "To" + SHORT[b], a, b


def rename_ast(nodes, mapping):
    class Rn(ast.NodeTransformer):
        def visit_Name(self, n):
            return ast.copy_location(ast.Name(id=mapping.get(n.id, n.id), ctx=n.ctx), n)

        def visit_arg(self, n):
            return ast.copy_location(ast.arg(arg=mapping.get(n.arg, n.arg), annotation=None), n)

        def visit_FunctionDef(self, n):
            self.generic_visit(n)
            n.name = mapping.get(n.name, n.name)
            return n
    import copy
    return [Rn().visit(copy.deepcopy(n)) for n in nodes]


def m2e_pieces(tree):
    """Form.M2E: everything before the Newton update function (reduction of M, start value selection, clamp) and the
    update itself are translated, as is the final `return` expression; the loop
    (`X1 = next(X); while abs(X1 - X) >= tol: X = X1; X1 = next(X)`) is checked to have exactly this shape and is written
    with a fuel argument in lean/templates/Forms.tpl"""
    fn = py2lean.find_function(tree, "Form.M2E")
    body = [s for s in fn.body if not (isinstance(s, ast.Expr) and isinstance(s.value, ast.Constant))]
    if not (len(body) == 2 and isinstance(body[0], ast.Assign) and body[0].targets[0].id == "tol" and isinstance(body[1], ast.If)):
        raise py2lean.Untranslatable("M2E: unexpected top-level shape")
    tol = py2lean.translate_expr(body[0].value)
    top = body[1]
    test = py2lean.translate_expr(top.test)
    out = {}
    expected = ast.dump(ast.parse("X1 = next_X(X, e, M)\nwhile abs(X1 - X) >= tol:\n    X = X1\n    X1 = next_X(X, e, M)\n"))
    for tag, blk, var, nxt in (("E", top.body, "E", "next_E"), ("H", top.orelse, "H", "next_H")):
        k = next((n for n, st in enumerate(blk) if isinstance(st, ast.FunctionDef)), None)
        if k is None or blk[k].name != nxt or len(blk) != k + 4 or not isinstance(blk[-1], ast.Return):
            raise py2lean.Untranslatable(f"M2E: unexpected shape of the {tag} branch")
        pre = blk[:k]
        ret = blk[-1].value
        free = {n.id for n in ast.walk(ret) if isinstance(n, ast.Name)} - {var + "1"}
        if len(free) > 1 or not free <= set(py2lean.Tr().assigned(pre)):
            raise py2lean.Untranslatable(f"M2E: return expression of the {tag} branch uses {sorted(free)}")
        extra = next(iter(free), None)
        for key, name in (("start", var), ("red", "M"), ("extra", extra)):
            if name is None:
                out[key + tag] = "(0 : R)"
                continue
            tr = py2lean.TrFn()
            tr.defined |= {"e", "M"}
            out[key + tag] = tr.stmts(list(pre) + [ast.Return(value=ast.Name(id=name, ctx=ast.Load()))])
        out["finish" + tag] = py2lean.translate_expr(rename_ast([ret], {var + "1": "X1", **({extra: "extra"} if extra else {})})[0])
        nf = blk[k]
        if [a.arg for a in nf.args.args] != [var, "e", "M"] or len(nf.body) != 1 or not isinstance(nf.body[0], ast.Return):
            raise py2lean.Untranslatable("M2E: unexpected Newton update function")
        out["next" + tag] = py2lean.translate_expr(rename_ast([nf.body[0].value], {var: "X"})[0])
        sh = ast.dump(ast.Module(body=rename_ast(blk[k + 1:-1], {var: "X", var + "1": "X1", nxt: "next_X"}), type_ignores=[]))
        if sh != expected:
            raise py2lean.Untranslatable("M2E: the iteration loop no longer has the modelled shape")
    out["tol"], out["test"] = tol, test
    return out


INFOS = [("energy", "infosEnergy"), ("n", "infosN"), ("period", "infosPeriod"), ("apocenter", "infosApocenter"), ("pericenter", "infosPericenter"),
         ("v", "infosV"), ("va", "infosVa"), ("vp", "infosVp"), ("vinf", "infosVinf"), ("dinf", "infosDinf"), ("cos_fpa", "infosCosFpa"),
         ("sin_fpa", "infosSinFpa"), ("fpa", "infosFpa")]
INFOS_ARGS = "mu r a e nu"


def infos_defs(tree):
    consts = {"self.mu": "mu", "self.r": "r", "self.kep.a": "a", "self.kep.e": "e", "self.kep.nu": "nu", "self.kep.ν": "nu"}
    lines = []
    guards = {}
    for py, ln in INFOS:
        fn = py2lean.find_function(tree, "Infos." + py)
        body = [s for s in fn.body if not (isinstance(s, ast.Expr) and isinstance(s.value, ast.Constant))]
        guard = None
        if len(body) == 2 and isinstance(body[0], ast.If) and isinstance(body[0].body[0], ast.Raise):
            guard = ast.unparse(body[0].test)
            body = body[1:]
        if len(body) != 1 or not isinstance(body[0], ast.Return):
            raise py2lean.Untranslatable(f"Infos.{py}: not a single return")
        v = body[0].value
        if isinstance(v, ast.Call) and py2lean.Tr().dotted(v.func) == "timedelta":
            if len(v.keywords) != 1 or v.keywords[0].arg != "seconds" or v.args:
                raise py2lean.Untranslatable("Infos.period: timedelta call")
            v = v.keywords[0].value
        text = py2lean.translate_expr(v, consts=consts)
        lines.append(f"/-- `Infos.{py}`" + (f" (raises ValueError if `{guard}`)" if guard else "") + f" -/\ndef {ln} ({INFOS_ARGS} : R) : R :=\n  {text}\n")
        guards[py] = guard
        consts["self." + py] = f"({ln} {INFOS_ARGS})"
        if py == "apocenter":
            consts["self.ra"] = consts["self.apocenter"]
        if py == "pericenter":
            consts["self.rp"] = consts["self.pericenter"]
    # ra / rp are plain aliases
    for alias, target in (("ra", "apocenter"), ("rp", "pericenter")):
        fn = py2lean.find_function(tree, "Infos." + alias)
        ret = [s for s in fn.body if isinstance(s, ast.Return)][0]
        if ast.unparse(ret.value) != "self." + target:
            raise py2lean.Untranslatable(f"Infos.{alias} is no longer an alias of {target}")
    return "\n".join(lines), guards


def lean_str_list(xs):
    return "[" + ", ".join('"' + x + '"' for x in xs) + "]"


def extract(ctx):
    src = open(FORMS_PY).read()
    tree = ast.parse(src)
    cls = py2lean.find_function(tree, "Form")
    parts = []
    edges = []
    for f in cls.body:
        if isinstance(f, ast.FunctionDef) and f.name.startswith("_") and "_to_" in f.name:
            ln, a, b = edge_lean_name(f.name)
            if f.name == "_keplerian_mean_to_keplerian_eccentric":
                stm = [s for s in f.body if not (isinstance(s, ast.Expr) and isinstance(s.value, ast.Constant))]
                if [ast.dump(s) for s in stm] != [ast.dump(s) for s in ast.parse(M2E_EDGE_SRC).body]:
                    raise py2lean.Untranslatable("_keplerian_mean_to_keplerian_eccentric no longer has the modelled shape (a,e,i,Ω,ω,M2E(e,M))")
                edges.append((ln, a, b, False))
                continue
            parts.append(f"/-- `Form.{f.name}` (forms.py line {f.lineno}) -/\n" +
                         py2lean.translate_fn(FORMS_PY, "Form." + f.name, ln, vec_params={"coord": CARGS}, consts=MU_CONSTS, extra_args=["mu"], tree=tree, ret_type="List R"))
            edges.append((ln, a, b, True))
    m = m2e_pieces(tree)
    parts.append(f"/-- `tol` of `Form.M2E` -/\ndef m2eTol : R := {m['tol']}\n")
    def two(doc, name, args, a, b):
        return (f"/-- {doc} -/\ndef {name} ({args} : R) : R :=\n  if " + m["test"] + " then\n" + py2lean.indent(a, 4) + "\n  else\n" + py2lean.indent(b, 4) + "\n")
    parts.append(two("the mean anomaly the Newton iteration of `Form.M2E` works on (ellipse: reduced to [-pi, pi))", "m2eReduced", "e M", m["redE"], m["redH"]))
    parts.append(two("what `Form.M2E` adds back to the result of the loop (ellipse: the whole revolutions taken out of M)", "m2eExtra", "e M", m["extraE"], m["extraH"]))
    parts.append(two("start value of the Newton iteration in `Form.M2E`, as a function of the ORIGINAL arguments (all branches, incl. the clamp)", "m2eStart", "e M", m["startE"], m["startH"]))
    parts.append(two("the `return` expression of `Form.M2E`", "m2eFinish", "e X1 extra", m["finishE"], m["finishH"]))
    parts.append("/-- `next_E` / `next_H` of `Form.M2E` -/\ndef m2eNext (X e M : R) : R :=\n  if " + m["test"] + " then " + m["nextE"] + "\n  else " + m["nextH"] + "\n")
    parts.append("/-- the `while` test of `Form.M2E` -/\ndef m2eContinue {α : Type} (X1 X : R) (yes no : α) : α :=\n  if (absR (X1 - X)) ≥ m2eTol then yes else no\n")
    svtree = ast.parse(open(SV_PY).read())
    itext, guards = infos_defs(svtree)
    parts.append(itext)
    ctx.infos_guards = guards
    body = "\n".join(parts)
    ch = py2lean.instantiate(core.LEAN, "Forms", body, "beyond/orbits/forms.py, beyond/orbits/statevector.py")
    # tables: live objects (param names, aliases, cache) + the edge methods found in the AST
    import importlib
    forms = importlib.import_module("beyond.orbits.forms")
    names = [n for n in _graph_names()]
    t = ["/- GENERATED by harness/props/C01.py from beyond/orbits/forms.py — do not edit. -/", "namespace BeyondVerif.Generated"]
    t.append("/-- `Form.param_names`, in the node order of `formsNames` (Generated/Graphs.lean) -/")
    t.append("def formsParamNames : List (String × List String) := [" + ", ".join(f'("{n}", {lean_str_list(forms._cache[n].param_names)})' for n in names) + "]")
    t.append("/-- `Form.alt` -/")
    t.append("def formsAlt : List (String × String) := [" + ", ".join(f'("{k}", "{v}")' for k, v in forms.Form.alt.items()) + "]")
    t.append("/-- `forms._cache`: accepted form names -> canonical name -/")
    t.append("def formsCache : List (String × String) := [" + ", ".join(f'("{k}", "{v.name}")' for k, v in forms._cache.items()) + "]")
    t.append("/-- the `_a_to_b` conversion methods defined on `Form` (AST), as pairs of indices into `formsNames` -/")
    t.append("def formsEdgeMethods : List (Nat × Nat) := [" + ", ".join(f"({names.index(a)}, {names.index(b)})" for _, a, b, _ in edges) + "]")
    t.append("end BeyondVerif.Generated")
    if core.write_if_changed(os.path.join(core.LEAN, "BeyondVerif", "Generated", "FormTables.lean"), "\n".join(t) + "\n"):
        ch.append("Generated/FormTables.lean")
    ctx.edges = edges
    ctx.sv_tables = sv_tables(svtree, tree, ast.parse(open(FRAMES_PY).read()))
    if write_sv_tables(ctx.sv_tables):
        ch.append("Generated/SVTables.lean")
    ch += instantiate.main()
    return ch



# ---------------------------------------------------------------- StateVector as a state machine: tables read from the AST

FRAMES_PY = os.path.join(core.REPO, "beyond", "frames", "frames.py")

SHAPES = {
    # (file key, qualified name): source text the model of lean/templates/SVMachine.tpl was written against
    ("sv", "Infos.__init__"): "self.orb = orb\n",
    ("sv", "Infos.kep"): "if not hasattr(self, '_kep'):\n    self._kep = self.orb.copy(form='keplerian')\nreturn self._kep\n",
    ("sv", "Infos.sphe"): "if not hasattr(self, '_sphe'):\n    self._sphe = self.orb.copy(form='spherical')\nreturn self._sphe\n",
    ("sv", "Infos.mu"): "return self.orb.frame.center.body.mu\n",
    ("sv", "Infos.r"): "return self.sphe.r\n",
    ("forms", "Form.__call__"): ("if isinstance(new_form, Form):\n    new_form = new_form.name\ncoord = orbit.copy()\nif new_form != orbit.form.name:\n"
                                 "    for a, b in self.steps(new_form):\n        name = f'_{a.name.lower()}_to_{b.name.lower()}'\n"
                                 "        coord = getattr(self, name)(coord, orbit.frame.center.body)\nreturn coord\n"),
    ("frames", "Frame.transform"): ("new_orb = orbit.copy(form='cartesian')\noffset = self.center.convert_to(orbit.date, new_frame.center, new_frame.orientation)\n"
                                    "m = self.orientation.convert_to(orbit.date, new_frame.orientation)\nnew_orb[:] = m @ new_orb + offset\n"
                                    "new_orb._frame = new_frame\nnew_orb.form = orbit.form\nreturn new_orb\n"),
}


def _nodoc(body):
    return [s for s in body if not (isinstance(s, ast.Expr) and isinstance(s.value, ast.Constant))]


def _dump(stmts):
    return [ast.dump(s) for s in stmts]


def _same(stmts, text):
    return _dump(stmts) == _dump(ast.parse(text).body)


def _find_prop(tree, cls, name, kind):
    """the getter (`kind='getter'`: decorated `@property`) or setter (`@<name>.setter`) of a property of class `cls`"""
    c = py2lean.find_function(tree, cls)
    for f in c.body:
        if isinstance(f, ast.FunctionDef) and f.name == name:
            decs = [ast.unparse(d) for d in f.decorator_list]
            if (kind == "getter" and "property" in decs) or (kind == "setter" and f"{name}.setter" in decs):
                return f
    raise py2lean.Untranslatable(f"{cls}.{name} ({kind}) not found")


def _flatten(stmts):
    """statements in the order they execute when nothing raises: a `try … finally` contributes its body, then its
    finally block (handlers / else are not modelled)"""
    out = []
    for s in stmts:
        if isinstance(s, ast.Try):
            if s.handlers or s.orelse:
                raise py2lean.Untranslatable("setter: try with handlers / else is not modelled")
            out += _flatten(s.body) + _flatten(s.finalbody)
        else:
            out.append(s)
    return out


def sv_tables(svtree, formstree, framestree):
    """what the state machine of lean/templates/SVMachine.tpl interprets, read from the current source:
    the order of the effects inside the `form` setter, the `frame` setter and `copy`, and the two keys of the `infos`
    property; everything else the machine relies on is checked to have exactly the modelled shape"""
    trees = {"sv": svtree, "forms": formstree, "frames": framestree}
    for (k, qn), text in SHAPES.items():
        fn = py2lean.find_function(trees[k], qn)
        if not _same(_nodoc(fn.body), text):
            raise py2lean.Untranslatable(f"{qn} no longer has the modelled shape")
    # --- infos property
    fn = _find_prop(svtree, "StateVector", "infos", "getter")
    body = _nodoc(fn.body)
    if not (len(body) == 2 and isinstance(body[0], ast.If) and not body[0].orelse and len(body[0].body) == 1 and isinstance(body[1], ast.Return)):
        raise py2lean.Untranslatable("StateVector.infos: unexpected shape")
    test = ast.unparse(body[0].test)
    m = re.fullmatch(r"not hasattr\(self, '([^']+)'\)", test)
    if m:
        guard = m.group(1)
        forms = importlib_forms()
        if guard in forms._cache_param_names or forms.Form.alt.get(guard, guard) in forms._cache_param_names:
            raise py2lean.Untranslatable("StateVector.infos: the guard tests the name of an orbital element")
    else:
        m = re.fullmatch(r"'([^']+)' not in self\._data(?:\.keys\(\))?", test)
        if not m:
            raise py2lean.Untranslatable(f"StateVector.infos: guard `{test}` is not modelled")
        guard = m.group(1)
    st = ast.unparse(body[0].body[0])
    m = re.fullmatch(r"self\._data\['([^']+)'\] = Infos\(self\)", st)
    if not m:
        raise py2lean.Untranslatable(f"StateVector.infos: `{st}` is not modelled")
    store = m.group(1)
    if ast.unparse(body[1].value) != f"self._data['{store}']":
        raise py2lean.Untranslatable("StateVector.infos: does not return the stored helper")
    # --- form setter
    fn = _find_prop(svtree, "StateVector", "form", "setter")
    body = _nodoc(fn.body)
    arg = fn.args.args[1].arg
    if not (body and _same(body[:1], f"if isinstance({arg}, str):\n    {arg} = get_form({arg})\n")):
        raise py2lean.Untranslatable("form setter: unexpected head")
    form_steps = []
    for s in _flatten(body[1:]):
        t = ast.unparse(s)
        if t == f"self.view(np.ndarray)[:] = self._data['form'](self, {arg})":
            form_steps.append("convert")
        elif t == f"self._data['form'] = {arg}":
            form_steps.append("commit")
        else:
            raise py2lean.Untranslatable(f"form setter: `{t}` is not modelled")
    if sorted(form_steps) != ["commit", "convert"]:
        raise py2lean.Untranslatable(f"form setter: effects {form_steps}")
    # --- frame setter
    fn = _find_prop(svtree, "StateVector", "frame", "setter")
    body = _nodoc(fn.body)
    arg = fn.args.args[1].arg
    head = f"old_form = self.form\nold_frame = self.frame\nif isinstance({arg}, str):\n    {arg} = get_frame({arg})\n"
    tail = f"if self.cov is not None and self.cov.frame == old_frame:\n    self.cov.frame = {arg}\n"
    if not (len(body) == 5 and _same(body[:3], head) and _same(body[4:], tail) and isinstance(body[3], ast.If) and not body[3].orelse
            and ast.unparse(body[3].test) == f"{arg} != self.frame"):
        raise py2lean.Untranslatable("frame setter: unexpected skeleton")
    frame_steps = []
    pending = None
    for s in _flatten(body[3].body):
        t = ast.unparse(s)
        m = re.fullmatch(rf"(\w+) = self\.frame\.transform\(self, {arg}\)", t)
        if t == "self.form = 'cartesian'":
            frame_steps.append("toCart")
        elif m:
            pending = m.group(1)
            frame_steps.append("transform")
        elif pending and t == f"self.view(np.ndarray)[:] = {pending}":
            frame_steps.append("store")
        elif t == f"self.view(np.ndarray)[:] = self.frame.transform(self, {arg})":
            frame_steps += ["transform", "store"]
        elif t == f"self._data['frame'] = {arg}":
            frame_steps.append("commit")
        elif t == "self.form = old_form":
            frame_steps.append("restore")
        else:
            raise py2lean.Untranslatable(f"frame setter: `{t}` is not modelled")
    if sorted(frame_steps) != sorted(["toCart", "transform", "store", "commit", "restore"]):
        raise py2lean.Untranslatable(f"frame setter: effects {frame_steps}")
    # --- copy: the two conversions at its end
    fn = py2lean.find_function(svtree, "StateVector.copy")
    copy_steps = []
    for s in _nodoc(fn.body):
        t = ast.unparse(s)
        if t == "if frame and frame != self.frame:\n    new_obj.frame = frame":
            copy_steps.append("frame")
        elif t == "if form and form != self.form:\n    new_obj.form = form":
            copy_steps.append("form")
    if sorted(copy_steps) != ["form", "frame"]:
        raise py2lean.Untranslatable(f"copy: conversions {copy_steps}")
    return {"guard": guard, "store": store, "form": form_steps, "frame": frame_steps, "copy": copy_steps}


def importlib_forms():
    import importlib
    return importlib.import_module("beyond.orbits.forms")


def write_sv_tables(t):
    L = ["/- GENERATED by harness/props/C01.py from beyond/orbits/statevector.py — do not edit. -/", "namespace BeyondVerif.Generated",
         "/-- the name under which the `infos` property looks for an existing `Infos` helper (`hasattr(self, KEY)` / `KEY in self._data`) -/",
         f'def infosGuardKey : String := "{t["guard"]}"',
         "/-- the key of `_data` under which the `infos` property stores the helper it creates -/",
         f'def infosStoreKey : String := "{t["store"]}"',
         "/-- effects of the `form` setter in source order: convert = `self.view(np.ndarray)[:] = self._data[\"form\"](self, new_form)`, commit = `self._data[\"form\"] = new_form` -/",
         "def formSetterSteps : List String := " + lean_str_list(t["form"]),
         "/-- effects of the `frame` setter (inside `if new_frame != self.frame`) in execution order: toCart = `self.form = \"cartesian\"`, transform = `self.frame.transform(self, new_frame)`, "
         "store = `self.view(np.ndarray)[:] = …`, commit = `self._data[\"frame\"] = new_frame`, restore = `self.form = old_form` -/",
         "def frameSetterSteps : List String := " + lean_str_list(t["frame"]),
         "/-- the conversions at the end of `copy`, in source order -/",
         "def copySteps : List String := " + lean_str_list(t["copy"]),
         "end BeyondVerif.Generated"]
    return core.write_if_changed(os.path.join(core.LEAN, "BeyondVerif", "Generated", "SVTables.lean"), "\n".join(L) + "\n")


def _graph_names():
    """node order of the forms graph as recorded in Generated/Graphs.lean (written by C20's extract)"""
    import re
    txt = open(os.path.join(core.LEAN, "BeyondVerif", "Generated", "Graphs.lean")).read()
    m = re.search(r"def formsNames : List String := \[(.*?)\]", txt)
    return [x.strip().strip('"') for x in m.group(1).split(",")]


# ---------------------------------------------------------------- correspondence: compiled Lean model vs the real edge methods

ANGLE_IDX = {"keplerian": (3, 4, 5), "keplerian_eccentric": (3, 4, 5), "keplerian_mean": (3, 4, 5), "keplerian_circular": (4, 5),
             "keplerian_mean_circular": (4, 5), "equinoctial": (5,), "tle": (1, 3, 4), "spherical": (1,), "cylindrical": (1,), "cartesian": ()}


def source_coords(mu, hyper, a, e, i, Om, om, M, EH, nu, rng):
    """the same orbit written in each of the ten forms by formulas local to this harness"""
    c = truth_cartesian(mu, a, e, i, Om, om, nu)
    x, y, z, vx, vy, vz = c
    r = math.sqrt(x * x + y * y + z * z)
    rho2 = x * x + y * y
    rho = math.sqrt(rho2)
    wrap = (lambda t: t) if rng.random() < 0.5 else (lambda t: t % TWO_PI)
    d = {
        "cartesian": list(c),
        "keplerian": [a, e, i, Om, om, nu if rng.random() < 0.5 else nu % TWO_PI],
        "keplerian_eccentric": [a, e, i, Om, om, EH],
        "keplerian_mean": [a, e, i, Om, om, M],
        "keplerian_circular": [a, e * math.cos(om), e * math.sin(om), i, Om, wrap(om + nu)],
        "keplerian_mean_circular": [a, e * math.cos(om), e * math.sin(om), i, Om, wrap(om + M) if not hyper else om + M],
        "equinoctial": [a, e * math.cos(Om + om), e * math.sin(Om + om), math.tan(i / 2) * math.cos(Om), math.tan(i / 2) * math.sin(Om), wrap(Om + om + nu)],
        "spherical": [r, math.atan2(y, x), math.asin(z / r), (x * vx + y * vy + z * vz) / r, (x * vy - y * vx) / rho2,
                      (vz * rho2 - z * (x * vx + y * vy)) / (r * r * rho)],
        "cylindrical": [rho, math.atan2(y, x), z, (x * vx + y * vy) / rho, (x * vy - y * vx) / rho2, vz],
    }
    if not hyper:
        d["tle"] = [i, Om, e, om, M, math.sqrt(mu / a ** 3)]
    return d


def out_scales(form, mu, a, c):
    r = math.sqrt(c[0] ** 2 + c[1] ** 2 + c[2] ** 2)
    v = math.sqrt(c[3] ** 2 + c[4] ** 2 + c[5] ** 2)
    if form == "cartesian":
        return [r, r, r, v, v, v]
    if form == "spherical":
        return [r, 1, 1, v, v / r, v / r]
    if form == "cylindrical":
        return [r, 1, r, v, v / r, v]
    if form == "tle":
        return [1, 1, 1, 1, 1, math.sqrt(mu / abs(a) ** 3)]
    return [abs(a), 1, 1, 1, 1, 1]


def tree_path(names, hist, s, t):
    adj = {n: [] for n in range(len(names))}
    for a, b in hist:
        adj[a].append(b); adj[b].append(a)
    prev = {s: None}
    todo = [s]
    while todo:
        u = todo.pop(0)
        for w in adj[u]:
            if w not in prev:
                prev[w] = u; todo.append(w)
    p = [t]
    while p[-1] != s:
        p.append(prev[p[-1]])
    return p[::-1]


def _graph_hist():
    import re
    txt = open(os.path.join(core.LEAN, "BeyondVerif", "Generated", "Graphs.lean")).read()
    m = re.search(r"def formsHist : List \(Nat × Nat\) := \[(.*?)\]\n", txt)
    return [tuple(int(v) for v in p.split(",")) for p in re.findall(r"\((\d+, \d+)\)", m.group(1))]


class FakeBody:
    def __init__(self, mu):
        self.mu = mu
        setattr(self, "µ", mu)
        setattr(self, "μ", mu)


def cmp_vec(out, fam, what, inp, real, model, form, scales, hyper, cond=1.0):
    for idx in range(6):
        a, b = float(real[idx]), float(model[idx])
        if not (math.isfinite(a) and math.isfinite(b)):
            ok = (not math.isfinite(a)) and (not math.isfinite(b))
        elif idx in ANGLE_IDX[form] and not (hyper and idx == 5 and form in ("keplerian_eccentric", "keplerian_mean", "keplerian_mean_circular")):
            ok = angdiff(a, b) <= 1e-9 * cond
        else:
            ok = abs(a - b) <= 1e-9 * cond * max(abs(a), abs(b), scales[idx] if idx < 3 or form in ("cartesian", "spherical", "cylindrical", "tle") else 1.0)
        if not ok:
            out.fail(fam, f"{what}: component {idx} differs between the real code and the Lean model", inp, observed=[float(v) for v in real], expected=list(model))
            return False
    return True


def correspondence(ctx):
    import numpy as np
    out = Outcome()
    rng = ctx.rng
    from beyond.orbits.forms import Form
    from beyond.orbits import StateVector
    from beyond.dates import Date
    edges = getattr(ctx, "edges", None)
    if edges is None:
        raise RuntimeError("extract did not run")
    frs = frames()
    names = _graph_names()
    hist = _graph_hist()
    date = Date(2020, 1, 1)
    reqs, meta = [], []
    n_orbits = ctx.n(2500, 40000)
    for it in range(n_orbits):
        k, hyper, a, e, i, Om, om = gen_elements(rng, conic=(it % 2 == 1))
        mu = frs[k].center.body.mu
        M, EH = gen_anomaly(rng, hyper, e)
        nu = nu_from_anomaly(hyper, e, EH)
        src = source_coords(mu, hyper, a, e, i, Om, om, M, EH, nu, rng)
        conic = "hyp" if hyper else "ell"
        body = FakeBody(mu)
        for ln, fa, fb, translated in edges:
            if fa not in src:
                continue
            pyname = f"_{fa}_to_{fb}"
            c = src[fa]
            try:
                with watchdog(2.0), np.errstate(all="ignore"):
                    real = getattr(Form, pyname)(np.array(c, dtype=float), body)
            except Hang:
                real = [float("nan")] * 6
            reqs.append(" ".join(["form", pyname[1:], f2b(mu)] + [f2b(v) for v in c]))
            cond = 1.0
            if hyper and fb == "keplerian_eccentric" and fa == "keplerian":
                cond = max(1.0, 1e-3 * math.cosh(EH) ** 2)   # arctanh(t), t -> 1: one ulp of t moves H by 1e-16 cosh^2 H
            meta.append(("edge-" + pyname[1:], [float(v) for v in real], fb, out_scales(fb, mu, a, src["cartesian"]), hyper, cond,
                         {"edge": pyname, "mu": mu, "coord": c}))
            qd = ""
            if fa == "cartesian" and fb in ("spherical", "cylindrical"):
                qd = "Q%d" % (int(c[0] < 0) + 2 * int(c[1] < 0))
            out.count(key=reqs[-1], kind=pyname[1:] + "-" + conic, **({"m2e": branch(e, M)} if fa == "keplerian_mean" and fb == "keplerian_eccentric" else {}),
                      **({"atan2_quadrant": qd} if qd else {}))
        # API level: StateVector.copy(form=) along the unique tree path for a random pair
        if it % 4 == 0:
            fa, fb = rng.sample([f for f in FORMS if f in src], 2)
            path = tree_path(names, hist, names.index(fa), names.index(fb))
            meths = [f"{names[u]}_to_{names[w]}" for u, w in zip(path, path[1:])]
            sv = StateVector(src[fa], date, fa, frs[k])
            real_steps = [f"{x.name}_to_{y.name}" for x, y in sv.form.steps(fb)]
            out.count(key=("route", fa, fb), kind="route")
            if real_steps != meths:
                out.fail("route-" + fa + "-" + fb, "Form.steps differs from the unique path of the regenerated forms tree", {"src": fa, "dst": fb}, observed=real_steps, expected=meths)
                continue
            try:
                with watchdog(2.0), np.errstate(all="ignore"):
                    real = arr(sv.copy(form=fb))
            except Hang:
                real = [float("nan")] * 6
            reqs.append(" ".join(["walk", f2b(mu)] + [f2b(v) for v in src[fa]] + meths))
            cond = max(1.0, 1e-3 * math.cosh(EH) ** 2) if hyper else 1.0
            if len(meths) > 1:
                cond *= 50.0 * max(1.0, 1e-3 / e) * (1 / (1 - e) if e < 1 else 1.0)
            meta.append(("copy-" + fa + "-" + fb, [float(v) for v in real], fb, out_scales(fb, mu, a, src["cartesian"]), hyper, cond,
                         {"copy": [fa, fb], "body": frs[k].center.body.name, "coord": src[fa]}))
            out.count(key=reqs[-1], kind="copy-" + conic, hops=len(meths))
    # M2E alone, all branches
    for _ in range(ctx.n(3000, 100000)):
        hyper = rng.random() < 0.5
        e = (1.001 + rng.random() ** 2 * 18.999) if hyper else rng.uniform(1e-4, 0.99)
        M, EH = gen_anomaly(rng, hyper, e)
        real = guarded_m2e(e, M)
        real = float("nan") if real is None else real
        reqs.append(" ".join(["m2e", f2b(e), f2b(M)]))
        meta.append(("m2e", real, None, None, hyper, 1.0, {"e": e, "M": M}))
        out.count(key=reqs[-1], kind="m2e", m2e=branch(e, M), finite=math.isfinite(real))
    # Infos
    for _ in range(ctx.n(300, 5000)):
        k, hyper, a, e, i, Om, om = gen_elements(rng)
        mu = frs[k].center.body.mu
        M, EH = gen_anomaly(rng, hyper, e)
        nu = nu_from_anomaly(hyper, e, EH)
        sv = StateVector(truth_cartesian(mu, a, e, i, Om, om, nu), date, "cartesian", frs[k])
        inf = sv.infos
        vals = []
        for py, _ in INFOS:
            try:
                v = getattr(inf, py)
                vals.append(float(v.total_seconds()) if hasattr(v, "total_seconds") else float(v))
            except ValueError:
                vals.append(None)
        kep, r = inf.kep, float(inf.r)
        reqs.append(" ".join(["infos", f2b(mu), f2b(r), f2b(kep.a), f2b(kep.e), f2b(kep.nu)]))
        meta.append(("infos", vals, None, None, hyper, 1.0, {"body": frs[k].center.body.name, "r": r, "a": float(kep.a), "e": float(kep.e), "nu": float(kep.nu)}))
        out.count(key=reqs[-1], kind="infos-" + ("hyp" if hyper else "ell"))
    replies = core.Driver().run(reqs)
    for req, (kind, real, form, scales, hyper, cond, inp), rep in zip(reqs, meta, replies):
        if kind == "m2e":
            if rep == "fuel":
                if math.isfinite(real):
                    out.fail("m2e-fuel", "the model's Kepler loop needs more than 10^4 iterations where the code returns", inp, observed=real, expected="fuel")
                else:
                    out.tally("m2e: code returns non-finite, model loop does not terminate (NaN never passes the exit test in Lean's Float either)")
                continue
            m = b2f(rep)
            if not ((not math.isfinite(real) and not math.isfinite(m)) or abs(real - m) <= 1e-9 * max(1.0, abs(real))):
                out.fail("m2e", "Form.M2E differs from the Lean model", inp, observed=real, expected=m)
            continue
        if rep in ("bad-op", "fuel"):
            if rep == "fuel" and not all(math.isfinite(v) for v in real if v is not None):
                out.tally("walk/edge: code returns non-finite, model loop runs out of fuel")
                continue
            out.fail(kind, "model rejected the request: " + rep, inp, observed=real, expected=rep)
            continue
        model = [b2f(s) for s in rep.split()]
        if kind == "infos":
            for (py, _), a_, b_ in zip(INFOS, real, model):
                if a_ is None:
                    continue
                if not ((not math.isfinite(a_) and not math.isfinite(b_)) or abs(a_ - b_) <= 1e-9 * max(abs(a_), abs(b_)) + (1e-6 if py == "period" else 0)):
                    out.fail("infos-" + py, f"infos.{py} differs from the Lean model", inp, observed=a_, expected=b_)
            continue
        cmp_vec(out, kind, kind, inp, real, model, form, scales, hyper, cond)
        out.sample({"request": req[:100] + "…", "impl": real, "model": model}, limit=3)
    return out


def replay(f):
    """re-run the recorded failing input on the real API"""
    import numpy as np
    out = Outcome()
    fail = f.get("failure", f)
    inp = fail.get("input", {})
    from beyond.orbits.forms import Form
    if "e" in inp and "M" in inp and "a" not in inp:
        got = guarded_m2e(inp["e"], inp["M"])
        if got is None:
            out.count(key="replay")
            out.fail(fail["family"], fail["what"], inp, observed="no return within 2 s", expected=fail.get("expected"))
            return out
        res = inp["e"] * math.sinh(got) - got - inp["M"] if inp["e"] >= 1 else got - inp["e"] * math.sin(got) - inp["M"]
        out.count(key="replay")
        if not (math.isfinite(got) and abs(res) <= 1e-6 * max(1.0, abs(inp["M"]))):
            out.fail(fail["family"], fail["what"], inp, observed=got, expected=fail.get("expected"))
        return out
    if "a" in inp and "Omega" in inp:
        frs = frames()
        k = [b.name for b in bodies()].index(inp["body"])
        orbit_checks(out, frs[k], k, inp["e"] >= 1, inp["a"], inp["e"], inp["i"], inp["Omega"], inp["omega"], inp["M"], inp["E_or_H"])
        out.failures = [x for x in out.failures if x["family"] == fail["family"]]
        return out
    ctx = core.Ctx(ID, "quick", 0)
    return oracle(ctx, False)
