"""C01 — orbital element forms are lossless, definition-true views of one state."""
import ast
import math
import os
import re

from harness import core, py2lean, instantiate
from harness.core import Outcome, f2b, b2f

ID = "C01"
LEAN_TARGETS = ["BeyondVerif.Props.C01", "BeyondVerif.Props.C01Machine", "BeyondVerif.Witness.C01"]
THEOREMS = [
    "BeyondVerif.C01.cart_cyl_cart",
    "BeyondVerif.C01.cyl_cart_cyl",
    "BeyondVerif.C01.cart_sph_cart",
    "BeyondVerif.C01.sph_cart_sph",
    "BeyondVerif.C01.kepl_circ_kepl",
    "BeyondVerif.C01.circ_kepl_circ",
    "BeyondVerif.C01.mean_mcirc_mean",
    "BeyondVerif.C01.mcirc_mean_mcirc",
    "BeyondVerif.C01.mean_tle_mean",
    "BeyondVerif.C01.tle_mean_tle",
    "BeyondVerif.C01.kepl_equi_kepl",
    "BeyondVerif.C01.equi_kepl_equi",
    "BeyondVerif.C01.kepl_ecc_kepl_elliptic",
    "BeyondVerif.C01.ecc_kepl_ecc_elliptic",
    "BeyondVerif.C01.kepl_ecc_kepl_hyperbolic",
    "BeyondVerif.C01.ecc_kepl_ecc_hyperbolic",
    "BeyondVerif.C01.m2eLoop_exit",
    "BeyondVerif.C01.m2e_residual_elliptic",
    "BeyondVerif.C01.mean_ecc_mean_elliptic",
    "BeyondVerif.C01.ecc_mean_ecc_elliptic",
    "BeyondVerif.C01.m2e_exit",
    "BeyondVerif.C01.m2e_reduction_elliptic",
    "BeyondVerif.C01.m2e_residual_hyperbolic",
    "BeyondVerif.C01.mean_ecc_mean_hyperbolic",
    "BeyondVerif.C01.ecc_mean_ecc_hyperbolic",
    "BeyondVerif.C01.mean_mcirc_mean_hyperbolic",
    "BeyondVerif.C01.keplToCart_respects_angEq",
    "BeyondVerif.C01.keplToCirc_respects_angEq",
    "BeyondVerif.C01.edge_methods_are_links",
    "BeyondVerif.C01.forms_walk_unique",
    "BeyondVerif.C01.infos_fpa_components_unit",
    "BeyondVerif.C01.infos_fpa_tan",
    "BeyondVerif.C01.infos_visviva_energy",
    "BeyondVerif.C01.infos_period",
    "BeyondVerif.C01.infos_apsides",
    "BeyondVerif.C01.infos_hyperbolic",
    "BeyondVerif.C01.keplToCart_radius_speed_momentum",
    "BeyondVerif.C01.keplToCart_dot_node",
    "BeyondVerif.C01.kepl_cart_kepl",
    "BeyondVerif.C01.cart_kepl_cart_of_image",
    "BeyondVerif.C01.walk_roundtrip_exact",
    "BeyondVerif.C01.walk_roundtrip_cyl_sph",
    "BeyondVerif.C01.infos_helper_never_reused",
    "BeyondVerif.C01.frame_setter_order",
    "BeyondVerif.C01.form_setter_order",
    "BeyondVerif.C01.copy_order",
    "BeyondVerif.C01.readInfos_fresh",
    "BeyondVerif.C01.readInfos_withSlot",
    "BeyondVerif.C01.applyOp_withSlot",
    "BeyondVerif.C01.run_independent_of_slot",
    "BeyondVerif.C01.run_congr_core",
    "BeyondVerif.C01.run_erase_reads",
    "BeyondVerif.C01.setForm_elements",
    "BeyondVerif.C01.setFrame_elements",
    "BeyondVerif.C01.routes_mirror",
    "BeyondVerif.C01.setForm_back",
    "BeyondVerif.C01.setFrame_cartesian_view",
    "BeyondVerif.C01.form_names_as_documented",
    "BeyondVerif.C01.form_names_only_documented",
    "BeyondVerif.C01.form_names_cover_graph",
    "BeyondVerif.C01.short_names_are_suffixes",
    "BeyondVerif.C01.canonForm_documented",
    "BeyondVerif.C01.setForm_by_any_documented_name",
    "BeyondVerif.C01.setForm_undocumented_name",
    "BeyondVerif.C01.param_names_as_documented",
    "BeyondVerif.C01.paramNames_documented",
    "BeyondVerif.C01.element_aliases_as_documented",
    "BeyondVerif.C01W.m2e_start_clamped",
    "BeyondVerif.C01W.mean_circular_keeps_hyperbolic_M",
]
LEVEL_TEXT = ("Lean theorems over R about the 17 edge functions, the M2E reduction/start/update/exit test/return and the Infos formulas translated from "
              "forms.py / statevector.py on every run (py2lean): round trips of all 9 links in both directions for all inputs in the stated domains "
              "(cyl, sph, circular, mean-circular incl. hyperbolic M exact, TLE, equinoctial, true<->eccentric/hyperbolic anomaly, keplerian->cartesian->"
              "keplerian in full, cartesian->keplerian->cartesian on every state that is the view of elements in the domain), angles as points of the "
              "circle and exact inside one turn; Kepler-equation residual at the returned value for both conics (2 tol (1+e) / 8 e cosh H tol^2) and "
              "eccentric<->mean round trips, for every fuel, every M and every start branch; keplerian->cartesian invariant under the circle relation and "
              "definition-true (radius, vis-viva, angular momentum, r.v, node-line component); routing = unique tree walk (C20), walk round trip by "
              "induction over the path (exact form); Infos relations. "
              "The object as a state machine (Model/SVMachine: six numbers, form, frame with the mu of its centre, the _data['infos'] slot with the memoising "
              "helper; operations = element / slice / name assignment, in-place arithmetic, form setter, frame setter, copy(frame=, form=), infos read), its "
              "setters INTERPRETING the order of effects read from the AST on every run: for every history the reports and the final state are a function of "
              "(six numbers, form, frame, mu) only (no hidden state), a read returns what a fresh object returns and never disturbs, the frame setter writes the "
              "elements of the transformed cartesian state for the mu of the NEW centre and the object then stands for exactly that state, form there-and-back "
              "returns the numbers; `decide`d facts about the regenerated tables (helper never reused, frame committed before the form is restored, convert "
              "before commit, copy: frame then form); the NAMES: the table get_form looks names up in (forms._cache, regenerated) is the documented one — every form under its full "
              "name, the four keplerian variants also under the name without `keplerian_`, nothing else —, so for EVERY string `sv.form = name` is the change to the form "
              "documented under that name (any case) or an UnknownFormError that changes nothing; element names and aliases are the documented ones. Differential correspondence of every edge, M2E, Infos, StateVector.copy along the routed walk, and of "
              "random operation histories on real StateVector / Orbit objects (4 central bodies, 16 frames) against the compiled Lean model.")
LEVEL_NOTE = ("proof (partial): not proved are (1) that every cartesian state with h != 0, sin i != 0, e != 0 is the view of some elements (so "
              "cartesian->keplerian->cartesian is proved on the image of keplerian->cartesian only), (2) termination of the Kepler loop (fuel; covered by "
              "correspondence with fuel 10^4 and a watchdog oracle), (3) the walk round trip for links that return angles modulo 2 pi as one statement "
              "(setFrame_cartesian_view / setForm_back take the per-link round trips on the visited states as hypothesis, like walk_roundtrip_exact); "
              "R -> double gap covered by tolerance-bounded correspondence; Lean kernel + propext/Classical.choice/Quot.sound; py2lean translator trusted")
TECHNIQUE = ("Lean 4 proof over edge formulas translated from the Python AST (py2lean) on every run and over a state machine of the object interpreting setter "
             "orders read from the AST; differential correspondence per edge and per operation history; API oracle")
TRUSTED = [
    "harness/py2lean.py translate_fn/translate_expr: Python AST of the 17 `_a_to_b` methods, M2E pieces and 13 Infos properties -> Generated/Forms{F,R}.lean on every run",
    "harness/props/C01.py m2e_pieces: checks that the M2E loop and the mean->eccentric edge still have exactly the modelled shape (AST equality), else the run is reported broken",
    "harness/props/C01.py regen_forms_graph: rewrites the forms part of Generated/Graphs.lean from the links recorded by harness/extract_graphs.py (as C20 does), reports a graph that is not a tree",
    "harness/props/C01.py sv_tables: reads the order of the effects of the form setter, the frame setter and copy, and the two keys of the infos property, from the AST into Generated/SVTables.lean; "
    "checks by AST equality that Infos.__init__/kep/sphe/mu/r, Form.__call__, get_form and Frame.transform have the modelled shape, else the run is reported broken",
    "harness/props/C01.py DOC_FORM_NAMES / DOC_PARAMS / DOC_ALT and C01.documentedFormNames / documentedParamNames / documentedAlt (Props/C01Machine.lean): the documented names of the forms and "
    "of their elements, written by hand from doc/source/api/orbits.rst and the docstrings of the Form constants (the specification the regenerated tables are proved equal to and the oracle resolves names by)",
    "lean/templates/Forms.tpl: hand-written fuel loop, 6-list plumbing, name dispatch (tied by the correspondence run)",
    "lean/templates/SVMachine.tpl: hand-written interpreter of the setter steps, name/alias resolution over the regenerated tables, routing by C20's Node.path on the regenerated forms graph (tied by the history correspondence)",
    "the affine map of a frame change (rotation 6x6, offset of the centres) is an INPUT of the machine, computed from the orientation / centre objects (their correctness belongs to C02/C03)",
    "atan2 y x := Complex.arg (x + iy), Python % := x - m floor(x/m), np.linalg.norm := sqrt of the sum of squares (NumReal.lean / py2lean)",
    "numpy / libm double arithmetic vs R: correspondence tolerance 1e-9 relative (scaled by the conditioning of arctanh near 1 for hyperbolic anomalies); histories: 2e-10 times the accumulated conditioning of the visited states",
]
ASSUMPTIONS = [
    "theorems are over R; the implementation computes in IEEE doubles",
    "domains: off the z axis for spherical/cylindrical; e > 0 (circular forms, equinoctial), 0 < i < pi (equinoctial), 0 <= e < 1 or e > 1 with 1 + e cos(nu) > 0 (anomalies), a > 0 (TLE)",
    "angles are compared as points of the circle (same cos and sin); equality of numbers is proved inside the turn the code itself returns",
    "histories: every state visited (also the intermediate state of copy(frame=, form=)) lies inside the property's quantifier about the centre of its frame, |H| <= 6, and the numbers written are themselves canonical elements (0 <= e, 0 < i < pi, r > 0 ...)",
]
NOT_COVERED = [
    "cartesian -> keplerian -> cartesian for an ARBITRARY cartesian state: proved on the image of keplerian->cartesian (cart_kepl_cart_of_image); existence of elements for every state with h != 0, sin i != 0, e != 0 is not proved (oracle: independent textbook elements + round trips on the real API)",
    "termination of the Kepler iteration (the model carries fuel; the code's loop is unbounded): correspondence with fuel 10^4 on all start branches and up to 60 revolutions, watchdog oracle incl. the pinned former non-returning inputs",
    "definition-truth of cartesian->keplerian (a from energy, e = |eccentricity vector|, node, perigee) is checked by the oracle against an independent numpy computation, not proved",
    "spherical rates as time derivatives (HasDerivAt) not proved; oracle uses central differences",
    "conditioning near e->0, i->0, e->1 (excluded by the quantifier); rounding. Observed, outside the quantifier: for e < ~1e-8 cartesian->keplerian computes e = sqrt(1 - h^2/(a mu)) from a rounded difference and can return NaN; the nearly-circular sweep therefore starts at e = 1e-7, where 1e-6 is attainable in doubles",
    "an Infos helper KEPT by the caller (`inf = sv.infos`) across an in-place change of sv: the helper memoises its keplerian / spherical views (modelled: Handle) while reading mu live; the property is checked for values read through `sv.infos` after the change, not through a helper obtained before it",
    "views sharing the buffer (`sv[:]`, `sv.view()`), whose form label can diverge from the shared six numbers; writes of names that are no orbital element (stored in _data)",
    "frame changes whose transform raises (unlinked centres, Hill frame): only the normal path of try/finally is modelled (oracle: the object is unchanged after such a change)",
    "objects carrying a covariance: the tail of the frame setter (`if self.cov is not None and self.cov.frame == old_frame`, incl. the restore of coordinates and frame when the covariance cannot follow) is unreachable in the machine, whose objects have no covariance; the extractor checks the guard and the known tail shapes and refuses others",
]
OPEN = [
    "surjectivity of keplerian->cartesian onto the non-degenerate cartesian states (would turn cart_kepl_cart_of_image into the unconditional statement)",
    "termination of Form.M2E as a theorem (exists fuel, m2e fuel e M != none) for 0 <= e < 1 after the reduction of b41fd8b, and for e > 1",
    "walk_roundtrip for paths through links that return angles as circle points: walk_roundtrip_exact is the induction over the path for links with exact round trips; the AngEq version needs 'respects AngEq' for all 18 edges (proved for keplerian->cartesian and keplerian->circular); the same gap is the RoundTrips hypothesis of setFrame_cartesian_view / setForm_back",
    "cartesian view invariant under `sv.form = g` for arbitrary f, g (cancellation of the common part of the two tree paths to cartesian): proved only as there-and-back (setForm_back)",
]
RULE = ("correspondence: 2500 (quick) / 40000 (thorough) orbits, alternating ellipse/hyperbola, e in [1e-4,0.99] u [1.001,20], i in [0.01,pi-0.01], "
        "any node/perigee, anomalies incl. M<0, M>2pi, |H|<=8, three bodies; every one of the 18 edge methods on each orbit, StateVector.copy along the "
        "routed walk for a random pair, Form.M2E on all start branches, 13 Infos values; rtol 1e-9, angles mod 2pi; 150 (quick) / 3000 (thorough) random + 20 pinned "
        "operation histories of 3-12 operations on real StateVector / Orbit objects (made directly, by copy, pickle, as_orbit, numpy arithmetic; some after a read of "
        "the original) over 16 frames about Earth, Moon, Sun, Mars (constant-offset centres and the moving Moon / Sun of beyond.env.solarsystem), every state inside the "
        "quantifier, compared after every operation (six numbers, outcome, 14 infos values) with the Lean state machine; non-trivial = every case; "
        "distinct = distinct request line; forms are named by every documented spelling (full / short name, any case, Form constant) in the constructor, the setter and copy, plus spellings that are no name. "
        "oracle: names are resolved by the DOCUMENTED tables, never by the library's own; get_form on 42 spellings of the 14 documented names and 14 non-names; per orbit each documented name through "
        "copy(form=), sv.form= and the constructor (label, six numbers vs textbook elements of the form of that name, position/velocity, every element readable by its documented name and aliases); mean->cartesian vs an independent perifocal construction, 9 forms x 6 numbers vs textbook "
        "definitions computed with numpy, 10x10 round trips (1e-6 r, 1e-6 v), Infos relations — on 40 (quick) / 400 (thorough) orbits of the quantifier plus 15 / 150 nearly circular ones (1e-7 <= e < 1e-4, same tolerances, angle tolerances scaled by 1/e) —, Kepler residual of Form.M2E; every library conversion under a 1 s watchdog, non-return and non-finite results inside the domain are failures; 70 (quick) / 500 (thorough) random + 20 pinned "
        "operation histories: after every operation the six numbers vs the textbook elements of the reference cartesian state for the mu of the CURRENT centre, "
        "position/velocity directly and through another form, every infos quantity vs its defining relation and vs a freshly constructed object, the untouched original of a copy")

FORMS_PY = os.path.join(core.REPO, "beyond", "orbits", "forms.py")
SV_PY = os.path.join(core.REPO, "beyond", "orbits", "statevector.py")

FORMS = ["cartesian", "spherical", "cylindrical", "keplerian", "keplerian_eccentric", "keplerian_mean",
         "keplerian_circular", "keplerian_mean_circular", "equinoctial", "tle"]
TWO_PI = 2 * math.pi

# ---------------------------------------------------------------- the documented names (specification, NOT read from the library)
#
# doc/source/api/orbits.rst ("Some forms have aliases": circular, mean, mean_circular, eccentric point to the keplerian
# variant of that name) and the docstrings of the ten Form constants of forms.py (the six element names of each form, the
# aliases of the Greek-letter elements).  The reference semantics of the histories, the generators and the by-name oracle
# family resolve names through THESE tables; the Lean side proves that the table regenerated from the code
# (`forms._cache`) is this one (C01.form_names_as_documented / form_names_only_documented / canonForm_documented).
DOC_SHORT_NAMES = {"circular": "keplerian_circular", "mean": "keplerian_mean", "mean_circular": "keplerian_mean_circular",
                   "eccentric": "keplerian_eccentric"}
DOC_FORM_NAMES = dict({f: f for f in FORMS}, **DOC_SHORT_NAMES)
FORM_CONST = {"cartesian": "CART", "spherical": "SPHE", "cylindrical": "CYL", "keplerian": "KEPL", "keplerian_eccentric": "KEPL_E",
              "keplerian_mean": "KEPL_M", "keplerian_circular": "KEPL_C", "keplerian_mean_circular": "KEPL_MC", "equinoctial": "EQUI", "tle": "TLE"}
DOC_PARAMS = {
    "cartesian": ["x", "y", "z", "vx", "vy", "vz"],
    "spherical": ["r", "θ", "φ", "r_dot", "θ_dot", "φ_dot"],
    "cylindrical": ["r", "θ", "z", "r_dot", "θ_dot", "vz"],
    "keplerian": ["a", "e", "i", "Ω", "ω", "ν"],
    "keplerian_eccentric": ["a", "e", "i", "Ω", "ω", "E"],
    "keplerian_mean": ["a", "e", "i", "Ω", "ω", "M"],
    "keplerian_circular": ["a", "ex", "ey", "i", "Ω", "u"],
    "keplerian_mean_circular": ["a", "ex", "ey", "i", "Ω", "α"],
    "equinoctial": ["a", "ex", "ey", "ix", "iy", "l"],
    "tle": ["i", "Ω", "e", "ω", "M", "n"],
}
DOC_ALT = {"theta": "θ", "phi": "φ", "raan": "Ω", "Omega": "Ω", "omega": "ω", "nu": "ν", "theta_dot": "θ_dot", "phi_dot": "φ_dot",
           "aol": "u", "H": "E", "x_dot": "vx", "y_dot": "vy", "z_dot": "vz", "alpha": "α", "maol": "α"}
DOC_ALL_PARAMS = {p for ps in DOC_PARAMS.values() for p in ps}
# spellings that are NOT names of a form: must end as UnknownFormError, whatever table the library keeps
UNDOCUMENTED_NAMES = ["kepler", "circ", "mean_circ", "keplerian_mean_circ", "mean-circular", "meancircular", "keplerian_", "_circular",
                      "keplerian_tle", "true", "cart", "equinoctial_mean", "circular_mean", "keplerian_keplerian"]


def doc_form(name):
    """canonical name of the form documented under `name` (any case), or None"""
    return DOC_FORM_NAMES.get(name.lower())


def spellings(name):
    return [name, name.upper(), name.capitalize()]


# ---------------------------------------------------------------- generators (shared by K and S)

MUS = None


def bodies():
    from beyond import constants
    return [constants.Earth, constants.Moon, constants.Sun]


def frames():
    """one inertial frame per central body (never transformed, only carrying `center.body`)"""
    from beyond.frames import frames as fr, orient, center
    out = []
    for b in bodies():
        name = "C01_" + b.name
        if name not in fr.dynamic:
            fr.Frame(name, orient.EME2000, center.Center(name, body=b), exists_warning=False)
        out.append(fr.dynamic[name])
    return out


unlinked_frames = frames


def gen_elements(rng, conic=None):
    """(mu-index, hyperbolic?, a, e, i, Omega, omega, anomaly-kind, anomaly) inside the property's quantifier"""
    k = rng.randrange(3)
    hyper = (rng.random() < 0.4) if conic is None else conic
    rbody = [6.4e6, 1.8e6, 7e8][k]
    if hyper:
        e = rng.choice([1.001, 1.01, 1.2, 1.59, 1.61, 3.59, 3.61, 20.0]) if rng.random() < 0.25 else 1.001 + (rng.random() ** 2) * 18.999
        a = -rbody * math.exp(rng.uniform(0.0, 4.0))
    else:
        e = rng.choice([1e-4, 0.002, 0.5, 0.99]) if rng.random() < 0.2 else rng.uniform(1e-4, 0.99)
        a = rbody * math.exp(rng.uniform(0.05, 4.0))
    i = rng.choice([0.01, math.pi / 2, math.pi - 0.01, 1.0, 2.5]) if rng.random() < 0.2 else rng.uniform(0.01, math.pi - 0.01)
    Om = rng.uniform(0, TWO_PI)
    om = rng.uniform(0, TWO_PI)
    return k, hyper, a, e, i, Om, om


def gen_anomaly(rng, hyper, e):
    """mean anomaly drawn so that every start branch of M2E is visited; returns (M, E-or-H)"""
    if hyper:
        H = rng.uniform(-8, 8) if rng.random() < 0.7 else rng.uniform(-1.5, 1.5)
        return e * math.sinh(H) - H, H
    r = rng.random()
    if r < 0.12:
        E = rng.uniform(-60, 60) * TWO_PI     # many revolutions away (the reduction of fix b41fd8b)
    elif r < 0.5:
        E = rng.uniform(0, TWO_PI)
    elif r < 0.75:
        E = rng.uniform(-TWO_PI, 0)          # M < 0
    else:
        E = rng.uniform(TWO_PI, 2 * TWO_PI)  # M > 2 pi
    return E - e * math.sin(E), E


class Hang(Exception):
    pass


class HangBudget(Exception):
    """too many library calls did not return: the sweep stops looking further (the failures are recorded)"""


HANGS = {"n": 0, "budget": 6}


def note_hang():
    HANGS["n"] += 1
    if HANGS["n"] >= HANGS["budget"]:
        raise HangBudget()


class watchdog:
    """raise Hang in the main thread if the body runs longer than `seconds` (a conversion loop of the library may not return);
    may be nested: leaving an inner watchdog re-arms the outer one with the time it has left"""

    def __init__(self, seconds=2.0):
        self.s = seconds

    def __enter__(self):
        import signal
        import time

        def h(*a):
            raise Hang()
        self.t0 = time.time()
        self.outer = signal.getitimer(signal.ITIMER_REAL)[0]
        self.old = signal.signal(signal.SIGALRM, h)
        signal.setitimer(signal.ITIMER_REAL, self.s if not self.outer else min(self.s, self.outer))

    def __exit__(self, *a):
        import signal
        import time
        signal.setitimer(signal.ITIMER_REAL, 0)
        signal.signal(signal.SIGALRM, self.old)
        if self.outer:
            signal.setitimer(signal.ITIMER_REAL, max(1e-3, self.outer - (time.time() - self.t0)))
        return False


def convert_guarded(sv, form, seconds=1.0):
    """sv.copy(form=form) as a float array, or None if the conversion does not return within `seconds`"""
    import numpy as np
    try:
        with watchdog(seconds), np.errstate(all="ignore"):
            return sv.copy(form=form)
    except Hang:
        return None


def guarded_m2e(e, M):
    """Form.M2E(e, M) as a float, or None if it does not return within 2 s"""
    import numpy as np
    from beyond.orbits.forms import Form
    try:
        with watchdog(2.0), np.errstate(all="ignore"):
            return float(Form.M2E(e, M))
    except Hang:
        return None


def nu_from_anomaly(hyper, e, EH):
    if hyper:
        return 2 * math.atan(math.sqrt((e + 1) / (e - 1)) * math.tanh(EH / 2))
    return 2 * math.atan2(math.sqrt(1 + e) * math.sin(EH / 2), math.sqrt(1 - e) * math.cos(EH / 2))


def truth_cartesian(mu, a, e, i, Om, om, nu):
    """independent textbook construction: perifocal state rotated by R3(-Om) R1(-i) R3(-om)"""
    import numpy as np
    p = a * (1 - e * e)
    r = p / (1 + e * math.cos(nu))
    rp = np.array([r * math.cos(nu), r * math.sin(nu), 0.0])
    vp = math.sqrt(mu / p) * np.array([-math.sin(nu), e + math.cos(nu), 0.0])

    def R3(t):
        return np.array([[math.cos(t), -math.sin(t), 0], [math.sin(t), math.cos(t), 0], [0, 0, 1]])

    def R1(t):
        return np.array([[1, 0, 0], [0, math.cos(t), -math.sin(t)], [0, math.sin(t), math.cos(t)]])
    Q = R3(Om) @ R1(i) @ R3(om)
    return np.concatenate([Q @ rp, Q @ vp])


def start_value(e, M):
    """the UNCLAMPED start value of M2E for a hyperbolic orbit (what the code used before fix 31f549a clamps |H| > 30 to
    the asymptotic solution) — only used to name the failure family should the overflow return"""
    if e < 1.6:
        return M - e if (-math.pi < M < 0 or M > math.pi) else M + e
    if e < 3.6 and abs(M) > math.pi:
        return M - math.copysign(e, M)
    return M / (e - 1)


def branch(e, M):
    if e < 1:
        M = M - TWO_PI * math.floor((M + math.pi) / TWO_PI)   # the reduction of fix b41fd8b
        return "ell-minus" if (-math.pi < M < 0 or M > math.pi) else "ell-plus"
    if e < 1.6:
        return "hyp-lt1.6-minus" if (-math.pi < M < 0 or M > math.pi) else "hyp-lt1.6-plus"
    if e < 3.6 and abs(M) > math.pi:
        return "hyp-lt3.6-sign"
    return "hyp-ratio"


def defined_for(form, hyper):
    return not (hyper and form == "tle")


def angdiff(a, b):
    d = (a - b) % TWO_PI
    return min(d, TWO_PI - d)


def arr(sv):
    import numpy as np
    return np.array(sv.base if hasattr(sv, "base") and sv.base is not None else sv, dtype=float).reshape(6)


# ---------------------------------------------------------------- oracle on the real API

def textbook(mu, c):
    """every element of every form, computed from the cartesian state by the textbook definitions (numpy, independent of beyond)"""
    import numpy as np
    r, v = c[:3], c[3:]
    rn, vn = np.linalg.norm(r), np.linalg.norm(v)
    h = np.cross(r, v)
    hn = np.linalg.norm(h)
    hh = h / hn
    ev = np.cross(v, h) / mu - r / rn
    e = np.linalg.norm(ev)
    a = 1 / (2 / rn - vn * vn / mu)
    i = math.acos(hh[2])
    nvec = np.array([-h[1], h[0], 0.0])
    nh = nvec / np.linalg.norm(nvec)
    Om = math.atan2(nvec[1], nvec[0]) % TWO_PI
    om = math.atan2(np.dot(np.cross(nh, ev), hh), np.dot(nh, ev)) % TWO_PI
    nu = math.atan2(np.dot(np.cross(ev, r), hh), np.dot(ev, r)) % TWO_PI
    u = math.atan2(np.dot(np.cross(nh, r), hh), np.dot(nh, r)) % TWO_PI
    d = {"a": a, "e": e, "i": i, "Ω": Om, "ω": om, "ν": nu, "u": u}
    if e < 1:
        E = 2 * math.atan2(math.sqrt(1 - e) * math.sin(nu / 2), math.sqrt(1 + e) * math.cos(nu / 2))
        M = E - e * math.sin(E)
        d["n"] = math.sqrt(mu / a ** 3)
    else:
        nus = (nu + math.pi) % TWO_PI - math.pi
        E = 2 * math.atanh(math.sqrt((e - 1) / (e + 1)) * math.tan(nus / 2))
        M = e * math.sinh(E) - E
    d["E"], d["M"] = E, M
    d["ex_c"], d["ey_c"] = float(np.dot(ev, nh)), float(np.dot(ev, np.cross(hh, nh)))
    d["α"] = om + M
    d["ex_q"], d["ey_q"] = e * math.cos(Om + om), e * math.sin(Om + om)
    d["ix"], d["iy"] = math.tan(i / 2) * math.cos(Om), math.tan(i / 2) * math.sin(Om)
    d["l"] = Om + om + nu
    # spherical / cylindrical: angles by definition, rates by central differences along the straight line r + v t
    x, y, z = r
    d["r"], d["θ"], d["φ"] = rn, math.atan2(y, x), math.asin(z / rn)
    d["rho"] = math.hypot(x, y)
    dt = 1e-4 * rn / vn

    def ang(t):
        q = r + v * t
        return np.array([np.linalg.norm(q), math.atan2(q[1], q[0]), math.asin(q[2] / np.linalg.norm(q)), math.hypot(q[0], q[1])])
    dd = (ang(dt) - ang(-dt))
    dd[1] = (dd[1] + math.pi) % TWO_PI - math.pi
    dd /= 2 * dt
    d["r_dot"], d["θ_dot"], d["φ_dot"], d["rho_dot"] = dd
    return d


ANG = {"Ω", "ω", "ν", "u", "E", "M", "α", "l", "θ"}


def expected_form(form, d, hyper):
    """list of (param name, textbook value, is-angle, scale) for the six numbers of `form`"""
    if form == "keplerian":
        ks = ["a", "e", "i", "Ω", "ω", "ν"]
    elif form == "keplerian_eccentric":
        ks = ["a", "e", "i", "Ω", "ω", "E"]
    elif form == "keplerian_mean":
        ks = ["a", "e", "i", "Ω", "ω", "M"]
    elif form == "keplerian_circular":
        ks = ["a", "ex_c", "ey_c", "i", "Ω", "u"]
    elif form == "keplerian_mean_circular":
        ks = ["a", "ex_c", "ey_c", "i", "Ω", "α"]
    elif form == "equinoctial":
        ks = ["a", "ex_q", "ey_q", "ix", "iy", "l"]
    elif form == "tle":
        ks = ["i", "Ω", "e", "ω", "M", "n"]
    elif form == "spherical":
        ks = ["r", "θ", "φ", "r_dot", "θ_dot", "φ_dot"]
    elif form == "cylindrical":
        ks = ["rho", "θ", "z", "rho_dot", "θ_dot", "vz"]
    else:
        return []
    return ks


def definition_mismatches(form, got, d, hyper, a, e, i, rs, vs):
    """(index, element name, observed, textbook value) for every one of the six numbers `got` of `form` that is not the
    textbook value in `d` (= textbook(mu, cartesian state), with d['z'], d['vz'] added); tolerances of the property text,
    widened by the conditioning of the element (1/e for the perigee-related angles, 1/sin i for the node-related ones)"""
    bad = []
    for idx, kname in enumerate(expected_form(form, d, hyper)):
        exp = d[kname]
        g = float(got[idx])
        if kname in ANG:
            if kname in ("E", "M", "α") and hyper:
                # not angles on a hyperbola: compared as numbers (α = ω + M whole)
                ok = abs(g - exp) <= 1e-6 * max(1.0, abs(exp))
            else:
                ok = angdiff(g, exp) <= 2e-6 / (e if kname in ("ω", "ν", "E", "M") and e < 1e-2 else 1.0) / (math.sin(i) if kname in ("Ω", "ω", "u", "α") and math.sin(i) < 0.1 else 1.0)
        elif kname.endswith("_dot"):
            sc = {"r_dot": vs, "rho_dot": vs, "θ_dot": vs / d["rho"], "φ_dot": vs / d["rho"]}[kname]
            ok = abs(g - exp) <= 2e-5 * sc
        else:
            sc = {"a": abs(a), "r": rs, "rho": rs, "z": rs, "vz": vs, "n": d.get("n", 1.0)}.get(kname, 1.0)
            ok = abs(g - exp) <= 1e-6 * sc * (1.0 / math.sin(i) if kname in ("ix", "iy") else 1.0) * (1 + abs(exp) if kname in ("ix", "iy") else 1.0)
        if not (ok and math.isfinite(g)):
            bad.append((idx, kname, g, exp))
    return bad


def infos_relations(inf, mu, rbody, truth, a, e, hyper):
    """[(name, observed, value by the defining relation, scale)] for every quantity of the Infos object `inf`, the relations
    being evaluated on the cartesian state `truth` with the `mu` / equatorial radius of the central body; a quantity that
    raises ValueError where it is defined has observed = 'raises', an undefined one that does not raise has 'no-raise'"""
    import numpy as np

    def g(nm):
        try:
            v = getattr(inf, nm)
        except ValueError:
            return "raises"
        except Exception:
            return "error"      # any other exception of the library is an outcome of this case, not of the harness
        return v.total_seconds() if hasattr(v, "total_seconds") else v
    rs, vn = float(np.linalg.norm(truth[:3])), float(np.linalg.norm(truth[3:]))
    h = float(np.linalg.norm(np.cross(truth[:3], truth[3:])))
    rv = float(np.dot(truth[:3], truth[3:]))
    energy = vn * vn / 2 - mu / rs
    nmean = math.sqrt(mu / abs(a) ** 3)
    cf, sf = g("cos_fpa"), g("sin_fpa")
    checks = [("v", g("v"), vn, vn), ("energy", g("energy"), energy, abs(energy)), ("r", g("r"), rs, rs),
              ("pericenter", g("pericenter"), a * (1 - e), abs(a)), ("rp", g("rp"), a * (1 - e), abs(a)),
              ("vp", g("vp"), h / (a * (1 - e)), vn), ("n", g("n"), nmean, nmean),
              ("cos_fpa", cf, h / (rs * vn), 1.0), ("sin_fpa", sf, rv / (rs * vn), 1.0),
              ("fpa", g("fpa"), math.atan2(rv, h), 1.0),
              ("cos2+sin2", (cf if isinstance(cf, str) else sf) if isinstance(cf, str) or isinstance(sf, str) else cf ** 2 + sf ** 2, 1.0, 1.0),
              ("zp", g("zp"), a * (1 - e) - rbody, abs(a))]
    if hyper:
        checks += [("vinf", g("vinf"), math.sqrt(2 * energy), vn), ("dinf", g("dinf"), h / math.sqrt(2 * energy), abs(a) * e),
                   ("type", float(inf.type == "hyperbolic"), 1.0, 1.0)]
        for nm in ("period", "apocenter", "va"):
            v = g(nm)
            if v != "raises":
                checks.append((nm, "error" if v == "error" else "no-raise", None, None))
    else:
        per = TWO_PI * math.sqrt(a ** 3 / mu)
        checks += [("period", g("period"), per, per),
                   ("apocenter", g("apocenter"), a * (1 + e), a), ("ra", g("ra"), a * (1 + e), a), ("va", g("va"), h / (a * (1 + e)), vn),
                   ("za", g("za"), a * (1 + e) - rbody, a), ("type", float(inf.type == "elliptic"), 1.0, 1.0)]
    return checks


def infos_ok(nm, got, exp, sc):
    if isinstance(got, str):
        return False
    return math.isfinite(float(got)) and abs(float(got) - exp) <= 1e-6 * sc + (1e-6 if nm == "period" else 0.0)


def by_name_checks(out, cart, fr, date, d, src_six, truth, hyper, a, e, i, rs, vs, inp, conic):
    """every documented name of a form (DOC_FORM_NAMES, one of its spellings — chosen from the input, so that a replay makes the
    same choice), on the three ways a caller hands a name to the library: `copy(form=name)`, `sv.form = name` and
    `StateVector(six numbers, date, name, frame)`.  The label must be the form of that name, the six numbers the textbook
    elements of THAT form, and the six elements of that form (`src_six`) given under that name must stand for the same position and velocity."""
    import numpy as np
    from beyond.orbits import StateVector
    for idx, (name, canon) in enumerate(DOC_FORM_NAMES.items()):
        if not defined_for(canon, hyper):
            continue
        sp = spellings(name)[(idx + int(abs(a))) % 3] if name != canon or idx % 2 else name
        kind = "short" if name != canon else "full"
        six_doc = [float(v) for v in src_six[canon]]      # the orbit written in that form by formulas local to this harness (source_coords)
        for how in ("copy", "setter", "constructor"):
            out.count(key=("name", sp, how, a, e), kind="by-name-" + how, name=kind, spelling="lower" if sp == name else "other-case")
            ninp = dict(inp, name=sp, how=how, documented_form=canon, cartesian=[float(x) for x in truth])
            fam = f"by-name-{name}-{how}-{conic}"
            try:
                with watchdog(2.0), np.errstate(all="ignore"):
                    if how == "copy":
                        sv = cart.copy(form=sp)
                    elif how == "setter":
                        sv = cart.copy()
                        sv.form = sp
                    else:
                        sv = StateVector(six_doc, date, sp, fr)
                    c = arr(sv.copy(form="cartesian"))
            except Hang:
                out.fail(fam + "-no-return", f"asking for the form by its documented name {sp!r} ({how}) does not return within 2 s", ninp)
                note_hang()
                continue
            except Exception as ex:
                out.fail(fam + "-raises", f"the documented form name {sp!r} ({how}) is refused: {type(ex).__name__}", ninp, observed=repr(ex)[:120], expected=canon)
                continue
            if sv.form.name != canon:
                out.fail(fam + "-other-form", f"the form obtained under the documented name {sp!r} ({how}) is not {canon}", ninp, observed=sv.form.name, expected=canon)
                continue
            if how != "constructor" and canon != "cartesian":
                bad = definition_mismatches(canon, arr(sv), d, hyper, a, e, i, rs, vs)
                for j, kname, g, exp in bad[:1]:
                    out.fail(fam + f"-definition-{kname}", f"{sp!r} ({how}): number {j} is not the textbook value of {kname}, the element the form of that name has there",
                             ninp, observed=g, expected=float(exp))
                if bad:
                    continue
            if not (np.all(np.isfinite(c)) and np.linalg.norm(c[:3] - truth[:3]) <= 1e-6 * rs and np.linalg.norm(c[3:] - truth[3:]) <= 1e-6 * vs):
                out.fail(fam + "-position-velocity", f"{sp!r} ({how}): the object does not stand for the position and velocity the six textbook elements of {canon} describe",
                         ninp, observed=[float(x) for x in c], expected=[float(x) for x in truth])
                continue
            # the elements are readable under the documented element names (and their aliases) of that form
            six = arr(sv)
            for j, pn in enumerate(DOC_PARAMS[canon]):
                for nm in [pn] + [al for al, t in DOC_ALT.items() if t == pn]:
                    try:
                        g1, g2 = float(getattr(sv, nm)), float(sv[nm])
                    except (AttributeError, KeyError) as ex:
                        out.fail(fam + f"-element-{nm}-raises", f"{sp!r} ({how}): the element {nm!r} of {canon} cannot be read by name", ninp, observed=repr(ex)[:120])
                        break
                    if not (g1 == six[j] and g2 == six[j]):
                        out.fail(fam + f"-element-{nm}", f"{sp!r} ({how}): reading the element {nm!r} by name does not give number {j}", ninp, observed=[g1, g2], expected=float(six[j]))
                        break


def name_table_checks(out, only=None):
    """`get_form` on every spelling of every documented name (must be the Form constant of that name, with the documented element
    names) and on spellings that are no documented name (must raise UnknownFormError)"""
    from beyond.orbits import forms
    from beyond.errors import UnknownFormError
    for name, canon in DOC_FORM_NAMES.items():
        for sp in spellings(name):
            if only is not None and sp != only:
                continue
            out.count(key=("get_form", sp), kind="get_form", name="short" if name != canon else "full")
            try:
                got = forms.get_form(sp)
            except Exception as ex:
                out.fail(f"get-form-{name}-raises", f"get_form({sp!r}): the documented name is refused ({type(ex).__name__})", {"name": sp}, observed=repr(ex)[:120], expected=canon)
                continue
            if got is not getattr(forms, FORM_CONST[canon], None) or got.name != canon:
                out.fail(f"get-form-{name}-other-form", f"get_form({sp!r}) is not the form of that name", {"name": sp}, observed=getattr(got, "name", repr(got)), expected=canon)
            elif list(got.param_names) != DOC_PARAMS[canon]:
                out.fail(f"get-form-{name}-element-names", f"get_form({sp!r}).param_names are not the documented element names", {"name": sp},
                         observed=list(got.param_names), expected=DOC_PARAMS[canon])
    for sp in UNDOCUMENTED_NAMES:
        if only is not None and sp != only:
            continue
        out.count(key=("get_form", sp), kind="get_form", name="undocumented")
        try:
            got = forms.get_form(sp)
        except UnknownFormError:
            continue
        except Exception as ex:
            out.fail("get-form-undocumented-other-error", f"get_form({sp!r}) (no documented name) raises {type(ex).__name__} instead of UnknownFormError", {"name": sp}, observed=repr(ex)[:120])
            continue
        out.fail("get-form-undocumented-accepted", f"get_form({sp!r}) returns a form although {sp!r} is no documented name of a form", {"name": sp},
                 observed=getattr(got, "name", repr(got)), expected="UnknownFormError")
    if only is None:
        out.count(key="alt", kind="element-aliases")
        alt = dict(forms.Form.alt)
        wrong = [[al, alt.get(al), t] for al, t in DOC_ALT.items() if alt.get(al) != t]
        # an alias the documentation does not know is harmless unless it hides an element name or points to no element
        wrong += [[al, t, None] for al, t in alt.items() if al not in DOC_ALT and (al in DOC_ALL_PARAMS or t not in DOC_ALL_PARAMS)]
        if wrong:
            out.fail("element-aliases", "Form.alt: [alias, target in the library, documented target] differ", {"table": "Form.alt"}, observed=wrong, expected=[])


def orbit_checks(out, fr, k, hyper, a, e, i, Om, om, M, EH):
    """all oracle predicates for one orbit given by mean elements (shared by the sweep and by replay)"""
    import numpy as np
    from beyond.orbits import StateVector
    from beyond.dates import Date
    date = Date(2020, 1, 1)
    mu = fr.center.body.mu
    nu = nu_from_anomaly(hyper, e, EH)
    truth = truth_cartesian(mu, a, e, i, Om, om, nu)
    rs, vs = np.linalg.norm(truth[:3]), np.linalg.norm(truth[3:])
    inp = {"body": fr.center.body.name, "a": a, "e": e, "i": i, "Omega": Om, "omega": om, "M": M, "E_or_H": EH}
    conic = ("hyp" if hyper else "ell") + ("-small-e" if e < 1e-4 * (1 - 1e-9) else "")
    # 0. the mean-anomaly state, converted to cartesian by the code, is the independently constructed state
    s0 = StateVector([a, e, i, Om, om, M], date, "keplerian_mean", fr)
    with np.errstate(all="ignore"):
        c0 = arr(s0.copy(form="cartesian"))
    out.count(key=("m2cart", k, a, e, M), kind="mean->cartesian-vs-textbook", conic=conic, m2e=branch(e, M))
    if not np.all(np.isfinite(c0)):
        fam = "m2e-hyperbolic-start-overflow" if (hyper and abs(start_value(e, M)) > 709.0) else f"non-finite-mean-to-cartesian-{conic}"
        out.fail(fam, "keplerian_mean -> cartesian returns a non-finite state inside the property's domain (M2E start value overflows sinh/cosh)",
                 inp, observed=[float(x) for x in c0], expected=[float(x) for x in truth], start_value=start_value(e, M) if hyper else None)
        # continue from the true-anomaly state so that the remaining checks still run on this orbit
        s0 = StateVector([a, e, i, Om, om, nu], date, "keplerian", fr)
        c0 = arr(s0.copy(form="cartesian"))
    if not (np.linalg.norm(c0[:3] - truth[:3]) <= 1e-6 * rs and np.linalg.norm(c0[3:] - truth[3:]) <= 1e-6 * vs):
        out.fail(f"mean-to-cartesian-{conic}-{branch(e, M)}", "keplerian_mean -> cartesian differs from the textbook perifocal construction",
                 inp, observed=[float(x) for x in c0], expected=[float(x) for x in truth])
        return
    cart = StateVector(truth, date, "cartesian", fr)
    # 1. definition truth: every form's six numbers from the cartesian state
    d = textbook(mu, truth)
    d["z"], d["vz"] = truth[2], truth[5]
    for form in FORMS[1:]:
        if not defined_for(form, hyper):
            continue
        got = convert_guarded(cart, form)
        out.count(key=("def", form, k, a, e, nu), kind="definition-" + form, conic=conic)
        if got is None:
            out.fail(f"no-return-cartesian-{form}-{conic}", f"cartesian -> {form} does not return within 1 s for a state inside the property's domain",
                     dict(inp, cartesian=[float(x) for x in truth]))
            note_hang()
            continue
        got = arr(got)
        for idx, kname, g, exp in definition_mismatches(form, got, d, hyper, a, e, i, rs, vs):
            fam = f"definition-{form}-{kname}-{conic}"
            if not math.isfinite(g):
                fam += "-non-finite"
            elif hyper and kname == "α":
                fam = "mean-circular-hyperbolic-M-mod-2pi"
            out.fail(fam, f"{form}[{idx}] is not the textbook value of {kname} computed from the cartesian state",
                     dict(inp, cartesian=[float(x) for x in truth]), observed=g, expected=float(exp))
    # 1b. the documented NAMES (full names, short names of the keplerian variants, any case): each name gives the elements of THAT form
    class _NoWrap:
        random = staticmethod(lambda: 0.7)
    src_six = source_coords(mu, hyper, a, e, i, Om, om, M, EH, nu, _NoWrap)
    by_name_checks(out, cart, fr, date, d, src_six, truth, hyper, a, e, i, rs, vs, inp, conic)
    # 2. round trips over all ordered pairs
    for src in FORMS:
        if not defined_for(src, hyper):
            continue
        sx = convert_guarded(cart, src)
        if sx is None:
            continue      # reported by the definition check above
        for dst in FORMS:
            if dst == src or not defined_for(dst, hyper):
                continue
            out.count(key=("rt", src, dst, k, a, e, nu), kind=f"roundtrip-{conic}", pair=f"{src[:9]}>{dst[:9]}")
            back = sx
            for step in (dst, src, "cartesian"):
                back = convert_guarded(back, step)
                if back is None:
                    break
            if back is None:
                out.fail(f"no-return-roundtrip-{src}-{dst}-{conic}", f"{src} -> {dst} -> {src} -> cartesian: a conversion does not return within 1 s for a state inside the property's domain",
                         dict(inp, cartesian=[float(x) for x in truth], src=src, dst=dst))
                note_hang()
                continue
            cb = arr(back)
            if not (np.all(np.isfinite(cb)) and np.linalg.norm(cb[:3] - truth[:3]) <= 1e-6 * rs and np.linalg.norm(cb[3:] - truth[3:]) <= 1e-6 * vs):
                fam = f"roundtrip-{src}-{dst}-{conic}" + ("" if np.all(np.isfinite(cb)) else "-non-finite")
                if hyper and not np.all(np.isfinite(cb)) and abs(start_value(e, d["M"])) > 709.0:
                    fam = "m2e-hyperbolic-start-overflow"
                elif hyper and "keplerian_mean_circular" in (src, dst) and np.all(np.isfinite(cb)):
                    fam = "mean-circular-hyperbolic-M-mod-2pi"
                out.fail(fam, f"{src} -> {dst} -> {src} does not return the same position and velocity",
                         dict(inp, cartesian=[float(x) for x in truth], src=src, dst=dst), observed=[float(x) for x in cb], expected=[float(x) for x in truth])
    # 3. Infos: defining relations
    for nm, got, exp, sc in infos_relations(cart.infos, mu, fr.center.body.equatorial_radius, truth, a, e, hyper):
        out.count(key=("infos", nm, k, a, e, nu), kind="infos", conic=conic)
        if got == "no-raise":
            out.fail("infos-" + nm + "-hyperbolic", f"infos.{nm} of a hyperbolic orbit does not raise", inp)
        elif got == "raises":
            out.fail(f"infos-{nm}-{conic}-raises", f"infos.{nm} raises ValueError where it is defined", inp)
        elif got == "error":
            out.fail(f"infos-{nm}-{conic}-error", f"infos.{nm} raises an exception other than ValueError", inp)
        elif not infos_ok(nm, got, exp, sc):
            out.fail(f"infos-{nm}-{conic}", f"infos.{nm} violates its defining relation", dict(inp, cartesian=[float(x) for x in truth]),
                     observed=float(got), expected=float(exp))


def oracle(ctx, widened):
    import numpy as np
    out = Outcome()
    rng = ctx.rng
    big = widened or ctx.thorough
    frs = frames()
    from beyond.orbits import StateVector
    from beyond.orbits.forms import Form
    from beyond.dates import Date
    date = Date(2020, 1, 1)
    N = 400 if big else 40
    NS = 150 if big else 15     # nearly circular orbits, 1e-7 <= e < 1e-4: the clauses whose tolerance is attainable there (see orbit_checks)
    HANGS["n"] = 0
    try:
        for n in range(N + NS):
            k, hyper, a, e, i, Om, om = gen_elements(rng, conic=None if n < N else False)
            if n >= N:
                e = rng.choice([1e-7, 1e-6, 9.9e-6, 1e-5, 5e-5]) if rng.random() < 0.2 else 10 ** rng.uniform(-7, -4)
            M, EH = gen_anomaly(rng, hyper, e)
            try:
                with watchdog(10.0):
                    orbit_checks(out, frs[k], k, hyper, a, e, i, Om, om, M, EH)
            except Hang:
                out.fail("m2e-elliptic-no-return" if not hyper else "m2e-hyperbolic-no-return", "a conversion of this state does not return within 10 s (Kepler loop)",
                         {"body": frs[k].center.body.name, "a": a, "e": e, "i": i, "Omega": Om, "omega": om, "M": M, "E_or_H": EH})
                note_hang()
    except HangBudget:
        out.tally(f"orbit sweep stopped early: {HANGS['n']} library calls did not return (each one recorded as a failing input)")
    # 3b. the table of names itself
    name_table_checks(out)
    # 4. Kepler equation through the public helper, all start branches, incl. the overflow region named by lead 18
    pinned = [(False, 0.826, 25.953, None), (False, 0.9, 100 * math.pi + 0.3, None), (False, 0.97, -31.0, None), (True, 1.2, 720.0, None)]
    cases = pinned + [None] * (2000 if big else 300)
    m2e_hangs = 0
    for c in cases:
        if c is None:
            hyper = rng.random() < 0.5
            e = (1.001 + rng.random() ** 2 * 18.999) if hyper else rng.uniform(1e-4, 0.99)
            M, EH = gen_anomaly(rng, hyper, e)
        else:
            hyper, e, M, EH = c
        got = guarded_m2e(e, M)
        out.count(key=("m2e", e, M), kind="M2E", m2e=branch(e, M), revolutions="|M|>2pi" if abs(M) > TWO_PI else "|M|<=2pi")
        if got is None:
            out.fail("m2e-elliptic-no-return" if not hyper else "m2e-hyperbolic-no-return", "Form.M2E does not return (Newton iteration cycles or wanders)",
                     {"e": e, "M": M, "true_E_or_H": EH}, observed="no return within 2 s", expected=EH)
            m2e_hangs += 1
            if m2e_hangs >= HANGS["budget"]:
                out.tally("M2E sweep stopped early: Form.M2E did not return several times (each one recorded as a failing input)")
                break
            continue
        res = (e * math.sinh(got) - got - M) if hyper else (got - e * math.sin(got) - M)
        if not (math.isfinite(got) and abs(res) <= 1e-6 * max(1.0, abs(M))):
            fam = "m2e-hyperbolic-start-overflow" if (hyper and not math.isfinite(got) and abs(start_value(e, M)) > 709.0) else "m2e-residual-" + branch(e, M)
            out.fail(fam, "Form.M2E does not return a solution of Kepler's equation inside the property's domain",
                     {"e": e, "M": M, "true_E_or_H": EH, "start_value": start_value(e, M) if hyper else None}, observed=got, expected=EH)
    # 5. histories of in-place operations on one object (element / slice / name assignment, in-place arithmetic, form and frame
    #    setters, copy(frame=, form=), infos reads), several central bodies: every observable equals the pure function of the current state
    hf = hist_frames()
    skipped = []
    HANGS["n"] = 0
    try:
        for n in range((500 if big else 70) + 1):
            try:
                with watchdog(8.0):
                    todo = [gen_history(rng, hf, rng.randint(3, 14))] if n else pinned_histories(hf)
                for init, ops in todo:
                    with watchdog(8.0 + len(ops)):
                        run_history(init, ops, hf, out)
            except Hang:
                out.fail("history-no-return", "building or running an operation history does not return (a conversion of the library loops)", {"history": n})
                note_hang()
            except HangBudget:
                raise
            except Exception as ex:      # the reference is built with conversions of fresh objects: a library whose conversions are broken can make that impossible
                skipped.append(repr(ex))
                out.tally("history skipped: the reference could not be built (a conversion of a fresh object failed)")
    except HangBudget:
        out.tally(f"history sweep stopped early: {HANGS['n']} histories did not return")
    if skipped and not out.failures:
        raise RuntimeError(f"{len(skipped)} histories could not be run and nothing else fails: {skipped[0]}")
    out.sample({"checks": "mean->cartesian vs textbook, definition truth of 9 forms, 10x10 round trips, infos relations, M2E residual, "
                          "operation histories on one object vs the cache-free reference semantics"})
    return out


def pinned_histories(hf):
    """hand-made histories that always run: read / modify in place / read again on every kind of write, and a change of centre
    (Earth -> Moon, both the constant-offset centre and the one of beyond.env.solarsystem) in every mu-dependent form"""
    import numpy as np
    from beyond.dates import Date
    by = {f["name"]: f["id"] for f in hf}
    out = []
    six = [7.2e6, 0.05, 0.9, 1.0, 2.0, 0.7]
    rd = {"op": "infos", "how": "one-helper"}
    rd2 = {"op": "infos", "how": "per-access"}
    out.append(({"kind": "StateVector", "six": six, "form": "keplerian", "frame": by["EME2000"], "date": [2020, 1, 1]},
                [rd, {"op": "setn", "name": "a", "v": 4.2164e7, "how": "attr"}, {"op": "setn", "name": "e", "v": 0.3, "how": "item"}, rd2,
                 {"op": "form", "name": "cartesian", "how": "string"}, rd, {"op": "muls", "lo": 3, "hi": 6, "k": 1.1}, rd2,
                 {"op": "frame", "id": by["MOD"], "how": "name"}, rd, {"op": "seti", "i": 0, "v": 9.0e6}, rd]))
    # every documented short name, in each place a caller can give it (setter, copy, constructor), other case, and a spelling that is no name
    out.append(({"kind": "StateVector", "six": six, "form": "keplerian", "form_as": "KEPLERIAN", "frame": by["EME2000"], "date": [2020, 1, 1]},
                [{"op": "form", "name": "circular", "how": "string"}, rd2, {"op": "setn", "name": "aol", "v": 1.25, "how": "attr"},
                 {"op": "form", "name": "mean_circular", "how": "string"}, {"op": "setn", "name": "maol", "v": 2.5, "how": "item"}, rd,
                 {"op": "form", "name": "eccentric", "how": "string"}, {"op": "form", "name": "Mean", "how": "string"},
                 {"op": "copy", "name": "MEAN_CIRCULAR", "how": "kwargs"}, {"op": "form", "name": "mean_circ", "how": "string"},
                 {"op": "copy", "name": "Circular", "id": by["MOD"], "how": "kwargs"}, {"op": "setn", "name": "alpha", "v": 0.5, "how": "attr"}, rd2]))
    for short, full in DOC_SHORT_NAMES.items():
        r0 = Ref(six, Date(2020, 1, 1), "keplerian", hf[by["EME2000"]])
        out.append(({"kind": "Orbit" if len(short) % 2 else "StateVector", "six": r0._view(full), "form": full, "form_as": short, "frame": by["EME2000"], "date": [2020, 1, 1]},
                    [rd, {"op": "form", "name": "cartesian", "how": "string"}, {"op": "copy", "name": short.upper(), "how": "kwargs"}, rd2]))
    # a lunar orbit seen from the Earth, taken back to a Moon-centred frame in each mu-dependent form
    for moon in ("C01h_Moon_EME2000", "Moon"):
        for n, form in enumerate(MU_FORMS):
            date = [2021, 3, 4, 12]
            ref = Ref([6.0e6, 0.5, 1.1, 0.4, 2.2, 4.0], Date(*date), "keplerian", hf[by[moon]])
            r2 = ref._to_frame(hf[by["EME2000"]])
            q = state_quality(r2.mu, r2.x)
            if q is None or (q["e"] > 1 and form == "tle"):
                continue
            r2.form = form
            r2.six = r2._view(form)
            out.append(({"kind": "StateVector" if n % 2 else "Orbit", "six": r2.six, "form": form, "frame": by["EME2000"], "date": date},
                        [{"op": "frame", "id": by[moon], "how": "object"}, rd2] if n % 3 else [rd, {"op": "copy", "id": by[moon], "how": "kwargs"}, rd]))
    return out



# ---------------------------------------------------------------- histories of in-place operations on one object
#
# Reference semantics (independent of the object under test, cache-free): the state is (six numbers, form, frame,
# cartesian state x about the frame's centre).  A write changes the six numbers and x is recomputed from them by a
# conversion on a FRESH object; a form change leaves x alone; a frame change maps x by the affine map between the
# frames (rotation and offset taken from the orientation / centre objects, applied with numpy).  Every observable of
# the real object after every operation must equal the pure function of (x, mu of the current centre).

HIST = {}
MU_FORMS = ("keplerian", "keplerian_eccentric", "keplerian_mean", "keplerian_circular", "keplerian_mean_circular", "equinoctial", "tle")
RBODY = {"Earth": 6.4e6, "Moon": 1.8e6, "Sun": 7e8, "Mars": 3.4e6}
# offsets (m, m/s) of the centres made for this check, relative to the Earth, EME2000 axes
HIST_OFFSETS = {
    "Moon": [3.2e8, -1.9e8, 0.9e8, 450.0, 850.0, 200.0],
    "Sun": [1.2e11, -0.8e11, -0.35e11, 16000.0, 24000.0, 9000.0],
    "Mars": [-0.3e11, -2.4e11, -0.95e11, 34000.0, 10000.0, 2000.0],
}


def hist_frames():
    """frames used by the histories: Earth-centred built-in ones (several orientations, one rotating), frames about
    centres with other bodies (Moon, Sun, Mars) linked to the Earth by a constant offset — two orientations each —,
    and the Moon / Sun frames of beyond.env.solarsystem (moving centres).  List of dicts, index = the id the model uses."""
    if HIST:
        return HIST["frames"]
    import numpy as np
    from beyond.frames import frames as fr, orient, center
    from beyond import constants
    from beyond.env import solarsystem
    out = []
    for n in ("EME2000", "MOD", "TOD", "TEME", "G50", "GCRF", "ITRF"):
        out.append({"frame": fr.get_frame(n), "centre": "Earth", "body": constants.Earth})
    for bn, off in HIST_OFFSETS.items():
        body = getattr(constants, bn)
        c = center.Center("C01h_" + bn, body=body)
        c.add_link(center.Earth, orient.EME2000, np.array(off))
        for on in ("EME2000", "MOD"):
            f = fr.Frame(f"C01h_{bn}_{on}", getattr(orient, on), c, exists_warning=False)
            out.append({"frame": f, "centre": "C01h_" + bn, "body": body})
    import logging
    logging.getLogger("beyond.frames.frames").setLevel(logging.ERROR)
    for bn in ("Moon", "Sun"):
        f = solarsystem.get_frame(bn)
        out.append({"frame": f, "centre": "ss" + bn, "body": getattr(constants, bn)})
    for i, d in enumerate(out):
        d["id"] = i
        d["name"] = d["frame"].name
    HIST["frames"] = out
    return out


def affine_between(old, new, date):
    """(6x6 matrix, offset) of the change of frame old -> new at `date`, from the orientation and centre objects"""
    import numpy as np
    key = (old.name, new.name, str(date))
    c = HIST.setdefault("affine", {})
    if key not in c:
        m = np.array(old.orientation.convert_to(date, new.orientation), dtype=float)
        off = np.array(old.center.convert_to(date, new.center, new.orientation), dtype=float).reshape(6)
        c[key] = (m, off)
    return c[key]


def fresh(six, date, form, frame):
    from beyond.orbits import StateVector
    return StateVector([float(v) for v in six], date, form, frame)


def state_quality(mu, x):
    """None if the cartesian state is outside the property's quantifier (or so close to a singularity of some form
    that 1e-6 is not attainable in doubles), else the dict of its textbook elements"""
    import numpy as np
    if not np.all(np.isfinite(x)):
        return None
    try:
        d = textbook(mu, x)
    except (ValueError, ZeroDivisionError, FloatingPointError):
        return None
    e, i = d["e"], d["i"]
    if not (all(math.isfinite(float(v)) for v in d.values())):
        return None
    sl = 1e-7     # the boundary values themselves (e = 1e-4, 0.99, 1.001, 20; i = 0.01, pi - 0.01) are inside, whatever the rounding
    if not ((1e-4 * (1 - sl) <= e <= 0.99 + sl) or (1.001 - sl <= e <= 20.0 + sl)):
        return None
    if not (0.01 - sl <= i <= math.pi - 0.01 + sl):
        return None
    if d["rho"] < 1e-2 * d["r"]:
        return None
    if e > 1 and (abs(d["E"]) > 6.0 or 1 + e * math.cos(d["ν"]) < 1e-3):
        return None
    if e < 1 and d["a"] <= 0 or e > 1 and d["a"] >= 0:
        return None
    d["z"], d["vz"] = float(x[2]), float(x[5])
    return d


class Ref:
    """the reference semantics of one object"""

    def __init__(self, six, date, form, fe, x=None):
        import numpy as np
        self.six = [float(v) for v in six]
        self.date, self.form, self.fe = date, form, fe
        with np.errstate(all="ignore"):
            self.x = arr(fresh(six, date, form, fe["frame"]).copy(form="cartesian")) if x is None else np.array(x, dtype=float)
        self.mu = fe["body"].mu

    def clone(self):
        return Ref(self.six, self.date, self.form, self.fe, self.x)

    def _view(self, form):
        import numpy as np
        with np.errstate(all="ignore"):
            return [float(v) for v in arr(fresh(self.x, self.date, "cartesian", self.fe["frame"]).copy(form=form))]

    def apply(self, op, frames):
        """the state after `op` and what the operation must report ('D' done, 'A' AttributeError/KeyError, 'U' UnknownFormError)"""
        import numpy as np
        from beyond.orbits import forms
        r = self.clone()
        k = op["op"]
        tag = "D"
        if k in ("seti", "muls", "adds", "sets", "setn"):
            six = list(r.six)
            if k == "seti":
                six[op["i"]] = op["v"]
            elif k == "muls":
                for j in range(op["lo"], op["hi"]):
                    six[j] = six[j] * op["k"]
            elif k == "adds":
                for j in range(op["lo"], op["hi"]):
                    six[j] = six[j] + op["k"]
            elif k == "sets":
                for j, v in enumerate(op["vs"]):
                    six[op["lo"] + j] = v
            else:
                # names resolved by the DOCUMENTED tables, not by the library's own
                name = DOC_ALT.get(op["name"], op["name"])
                pn = DOC_PARAMS[r.form]
                if name in pn:
                    six[pn.index(name)] = op["v"]
                else:
                    return r, ("A" if name in DOC_ALL_PARAMS else "D")
            return Ref(six, r.date, r.form, r.fe), tag
        if k == "form":
            t = doc_form(op["name"])      # the form DOCUMENTED under that name (any case); no such form: UnknownFormError
            if t is None:
                return r, "U"
            if t != r.form:
                r.form = t
                r.six = r._view(t)
            return r, tag
        if k == "frame":
            return r._to_frame(frames[op["id"]]), tag
        if k == "copy":
            if op.get("id") is not None:
                r = r._to_frame(frames[op["id"]])
            if op.get("name") is not None:
                r, tag = r.apply({"op": "form", "name": op["name"]}, frames)
            return r, tag
        if k == "infos":
            return r, "I"
        raise ValueError(k)

    def _to_frame(self, fe):
        r = self.clone()
        if fe["frame"] is r.fe["frame"]:
            return r
        m, off = affine_between(r.fe["frame"], fe["frame"], r.date)
        r.x = m @ r.x + off
        r.fe, r.mu = fe, fe["body"].mu
        r.six = r._view(r.form)
        return r


INFOS_READ = ["r", "energy", "n", "period", "apocenter", "pericenter", "v", "va", "vp", "vinf", "dinf", "cos_fpa", "sin_fpa", "fpa"]   # "r" + INFOS
INFOS_MORE = ["zp", "za", "ra", "rp"]


def read_infos(sv, per_access):
    """the 14 modelled quantities (None where ValueError is raised) — through ONE helper (`inf = sv.infos`) or through a
    new access `sv.infos` per quantity"""
    inf = None if per_access else sv.infos
    vals = []
    for nm in INFOS_READ:
        try:
            v = getattr(sv.infos if per_access else inf, nm)
            vals.append(float(v.total_seconds()) if hasattr(v, "total_seconds") else float(v))
        except ValueError:
            vals.append(None)
    return vals


def real_apply(sv, op, frames):
    """perform `op` on the real object; returns (object to continue with, tag, infos values or None)"""
    import numpy as np
    from beyond.orbits import forms
    from beyond.errors import UnknownFormError
    k = op["op"]
    try:
        with np.errstate(all="ignore"):
            if k == "seti":
                sv[op["i"]] = op["v"]
            elif k == "muls":
                sv[op["lo"]:op["hi"]] *= op["k"]
            elif k == "adds":
                sv[op["lo"]:op["hi"]] += op["k"]
            elif k == "sets":
                sv[op["lo"]:op["lo"] + len(op["vs"])] = op["vs"]
            elif k == "setn":
                if op.get("how") == "item":
                    sv[op["name"]] = op["v"]
                else:
                    setattr(sv, op["name"], op["v"])
            elif k == "form":
                sv.form = getattr(forms, FORM_CONST[doc_form(op["name"])]) if op.get("how") == "object" and doc_form(op["name"]) else op["name"]
            elif k == "frame":
                sv.frame = frames[op["id"]]["name"] if op.get("how") == "name" else frames[op["id"]]["frame"]
            elif k == "copy":
                kw = {}
                if op.get("id") is not None:
                    kw["frame"] = frames[op["id"]]["frame"]
                if op.get("name") is not None:
                    kw["form"] = op["name"]
                if op.get("how") == "same" and len(kw) == 2:
                    from beyond.orbits import StateVector
                    tmpl = StateVector([1.0] * 6, sv.date, getattr(forms, FORM_CONST[doc_form(op["name"])]), kw["frame"])
                    sv = sv.copy(same=tmpl)
                else:
                    sv = sv.copy(**kw)
            elif k == "infos":
                return sv, "I", read_infos(sv, op.get("how") == "per-access")
            else:
                raise ValueError(k)
    except (AttributeError, KeyError):
        return sv, "A", None
    except UnknownFormError:
        return sv, "U", None
    return sv, "D", None


def form_arg(init):
    """the `form` argument of the constructor: the spelling recorded in the history (a documented name, any case), or the Form constant"""
    from beyond.orbits import forms
    fa = init.get("form_as")
    if fa is None:
        return init["form"]
    return getattr(forms, FORM_CONST[init["form"]]) if fa == "object" else fa


def make_object(init, frames):
    """the object a history starts from, built the way `init['kind']` says; returns (object, sibling or None)"""
    import pickle
    from beyond.orbits import StateVector, Orbit
    from beyond.dates import Date
    date = Date(*init["date"])
    fe = frames[init["frame"]]
    frame = fe["name"] if init.get("frame_by_name") else fe["frame"]
    kind = init["kind"]
    sib = None
    if kind == "Orbit":
        sv = Orbit(init["six"], date, form_arg(init), frame, None)
    else:
        sv = StateVector(init["six"], date, form_arg(init), frame)
        if kind == "copy":
            sv = sv.copy()
        elif kind == "pickle":
            sv = pickle.loads(pickle.dumps(sv))
        elif kind == "as_orbit":
            sv = sv.as_orbit(None)
        elif kind == "copy-after-read":
            sib = sv
            read_infos(sib, False)
            sv = sib.copy()
        elif kind == "pickle-after-read":
            sib = sv
            read_infos(sib, True)
            sv = pickle.loads(pickle.dumps(sib))
        elif kind == "arith-after-read":
            # the result of numpy arithmetic is a new object made by __array_finalize__ from the one that was read
            sib = sv
            read_infos(sib, False)
            sv = sib + 0.0
    return sv, sib, date


def op_tokens(op, ref_before, frames):
    """the operation in the line protocol of the Lean driver (`hist …`)"""
    k = op["op"]
    if k == "seti":
        return ["seti", str(op["i"]), f2b(op["v"])]
    if k == "setn":
        return ["setn", op["name"], f2b(op["v"])]
    if k in ("muls", "adds"):
        return [k, str(op["lo"]), str(op["hi"]), f2b(op["k"])]
    if k == "sets":
        return ["sets", str(op["lo"]), str(len(op["vs"]))] + [f2b(v) for v in op["vs"]]
    if k == "form":
        return ["form", op["name"]]

    def fr_toks(i):
        fe = frames[i]
        if fe["frame"] is ref_before.fe["frame"]:
            import numpy as np
            m, off = np.identity(6), np.zeros(6)
        else:
            m, off = affine_between(ref_before.fe["frame"], fe["frame"], ref_before.date)
        return [str(i), f2b(fe["body"].mu)] + [f2b(v) for v in m.reshape(36)] + [f2b(v) for v in off]
    if k == "frame":
        return ["frame"] + fr_toks(op["id"])
    if k == "copy":
        t = ["copy"]
        t += (["1"] + fr_toks(op["id"])) if op.get("id") is not None else ["0"]
        t += ["1", op["name"]] if op.get("name") is not None else ["0"]
        return t
    if k == "infos":
        return ["infos"]
    raise ValueError(k)


ALIASES = None


def _aliases():
    """(aliases of each element name, names of each form) — from the documented tables"""
    global ALIASES
    if ALIASES is None:
        by = {}
        for al, nm in DOC_ALT.items():
            by.setdefault(nm, []).append(al)
        names = {}
        for al, f in DOC_FORM_NAMES.items():
            names.setdefault(f, []).append(al)
        ALIASES = (by, names)
    return ALIASES


def form_name_variant(rng, canonical):
    """one of the documented spellings of a form name (full name, short name of a keplerian variant, any case)"""
    n = rng.choice(_aliases()[1][canonical])
    if n == canonical and len(_aliases()[1][canonical]) > 1 and rng.random() < 0.5:
        n = rng.choice([x for x in _aliases()[1][canonical] if x != canonical])      # the short names: at least as often as the full one
    r = rng.random()
    return n.upper() if r < 0.1 else n.capitalize() if r < 0.2 else n


def gen_start(rng, frames):
    """an object description inside the quantifier: elements about one centre, often such that the state is also inside
    the quantifier about another centre with a different body (so that a change of centre is possible later)"""
    import numpy as np
    for _ in range(200):
        fe = rng.choice(frames)
        bn = fe["body"].name
        date = rng.choice([(2020, 1, 1), (2021, 3, 4, 12), (2018, 7, 20, 6, 30)])
        from beyond.dates import Date
        d = Date(*date)
        hyper = rng.random() < 0.35
        rb = RBODY[bn]
        if hyper:
            e = rng.choice([1.001, 1.2, 1.59, 3.61, 20.0]) if rng.random() < 0.2 else 1.001 + (rng.random() ** 2) * 18.999
            a = -rb * math.exp(rng.uniform(0.0, 4.0))
            H = rng.uniform(-4, 4)
            M, EH = e * math.sinh(H) - H, H
        else:
            e = rng.choice([1e-4, 0.002, 0.5, 0.99]) if rng.random() < 0.2 else rng.uniform(1e-4, 0.99)
            a = rb * math.exp(rng.uniform(0.05, 4.0))
            EH = rng.uniform(-TWO_PI, 2 * TWO_PI)
            M = EH - e * math.sin(EH)
        i = rng.choice([0.01, math.pi / 2, math.pi - 0.01, 1.0, 2.5]) if rng.random() < 0.15 else rng.uniform(0.01, math.pi - 0.01)
        Om, om = rng.uniform(0, TWO_PI), rng.uniform(0, TWO_PI)
        mu = fe["body"].mu
        nu = nu_from_anomaly(hyper, e, EH)
        src = source_coords(mu, hyper, a, e, i, Om, om, M, EH, nu, rng)
        x = np.array(src["cartesian"])
        if state_quality(mu, x) is None:
            continue
        form = rng.choice(sorted(src))
        kind = rng.choice(["StateVector", "StateVector", "Orbit", "copy", "pickle", "as_orbit", "copy-after-read", "pickle-after-read", "arith-after-read"])
        return {"kind": kind, "six": [float(v) for v in src[form]], "form": form, "frame": fe["id"], "date": list(date),
                "frame_by_name": rng.random() < 0.3, "form_as": "object" if rng.random() < 0.2 else form_name_variant(rng, form)}
    raise RuntimeError("no start state found")


def propose_op(rng, ref, frames, reads_pending):
    """a random operation on an object whose reference state is `ref` (no check yet that the result stays inside the quantifier)"""
    from beyond.orbits import forms
    r = rng.random()
    hyper = state_quality(ref.mu, ref.x)["e"] > 1
    pn = DOC_PARAMS[ref.form]
    if r < 0.22:
        return {"op": "infos", "how": rng.choice(["one-helper", "per-access"])}
    if r < 0.42:
        if rng.random() < 0.06:
            # no documented name of a form: UnknownFormError, object unchanged
            return {"op": "form", "name": rng.choice(UNDOCUMENTED_NAMES), "how": "string"}
        t = rng.choice([f for f in FORMS if defined_for(f, hyper)])
        return {"op": "form", "name": form_name_variant(rng, t), "how": rng.choice(["string", "string", "object"])}
    if r < 0.57:
        # prefer a frame about another body
        cand = [f for f in frames if f["body"] is not ref.fe["body"]] if rng.random() < 0.6 else frames
        fe = rng.choice(cand)
        return {"op": "frame", "id": fe["id"], "how": rng.choice(["object", "name"])}
    if r < 0.65:
        op = {"op": "copy", "how": rng.choice(["kwargs", "same"])}
        if rng.random() < 0.6:
            op["id"] = rng.choice(frames)["id"]
        if rng.random() < 0.7:
            op["name"] = form_name_variant(rng, rng.choice([f for f in FORMS if defined_for(f, hyper)]))
        return op
    if r < 0.68:
        # a name of another form (or no element at all): AttributeError / KeyError, state unchanged
        others = sorted(DOC_ALL_PARAMS - set(pn)) + ["comment"]
        return {"op": "setn", "name": rng.choice(others), "v": rng.uniform(-1, 1), "how": rng.choice(["attr", "item"])}
    # in-place writes
    ang = set(ANGLE_IDX[ref.form])
    if hyper and ref.form in ("keplerian_eccentric", "keplerian_mean", "keplerian_mean_circular"):
        ang -= {5}
    w = rng.random()
    if ref.form == "cartesian" and w < 0.5:
        lo, hi = rng.choice([(0, 3), (3, 6), (0, 6), (3, 4), (2, 3)])
        return {"op": "muls", "lo": lo, "hi": hi, "k": rng.uniform(0.8, 1.2)}
    if w < 0.25:
        # a whole new orbit about the same centre, written through a slice
        for _ in range(20):
            st = gen_start(rng, [ref.fe])
            f = fresh(st["six"], ref.date, st["form"], ref.fe["frame"])
            h2 = state_quality(ref.mu, arr(f.copy(form="cartesian")))["e"] > 1
            if defined_for(ref.form, h2):
                return {"op": "sets", "lo": 0, "vs": [float(v) for v in arr(f.copy(form=ref.form))]}
    j = rng.randrange(6)
    cur = ref.six[j]
    if j in ang:
        v = rng.uniform(-TWO_PI, 2 * TWO_PI)
        if w < 0.6:
            return {"op": "adds", "lo": j, "hi": j + 1, "k": rng.uniform(-2.0, 2.0)}
    else:
        v = cur * rng.uniform(0.85, 1.15) if cur != 0 else rng.uniform(-1, 1)
        if w < 0.45:
            return {"op": "muls", "lo": j, "hi": j + 1, "k": rng.uniform(0.85, 1.15)}
    if w < 0.8:
        by = _aliases()[0]
        name = rng.choice([pn[j]] + by.get(pn[j], []))
        return {"op": "setn", "name": name, "v": v, "how": rng.choice(["attr", "item"])}
    return {"op": "seti", "i": j, "v": v}


def gen_history(rng, frames, n_ops):
    """(init, [op …]): a start object and a history of operations every state of which lies inside the quantifier"""
    init = gen_start(rng, frames)
    from beyond.dates import Date
    ref = Ref(init["six"], Date(*init["date"]), init["form"], frames[init["frame"]])
    ops = []
    for _ in range(n_ops):
        for _try in range(12):
            op = propose_op(rng, ref, frames, None)
            try:
                r2, tag = ref.apply(op, frames)
            except Exception:
                continue
            q = state_quality(r2.mu, r2.x)
            if q is None or (q["e"] > 1 and r2.form == "tle"):
                continue
            if op["op"] == "copy" and op.get("id") is not None:
                # copy() changes the frame first, in the form the object has: that intermediate state must be inside the quantifier too
                mid = ref._to_frame(frames[op["id"]])
                qm = state_quality(mid.mu, mid.x)
                if qm is None or (qm["e"] > 1 and mid.form == "tle"):
                    continue
            if op["op"] in ("seti", "muls", "adds", "sets", "setn") and r2.form != "cartesian":
                # the numbers written must themselves be elements inside the quantifier (0 <= e, 0 < i < pi, r > 0, |phi| < pi/2 …):
                # they are the canonical elements of the state they describe
                import numpy as np
                if definition_mismatches(r2.form, r2.six, q, q["e"] > 1, q["a"], q["e"], q["i"], float(np.linalg.norm(r2.x[:3])), float(np.linalg.norm(r2.x[3:]))):
                    continue
            ops.append(op)
            ref = r2
            break
    if not ops or ops[-1]["op"] != "infos":
        ops.append({"op": "infos", "how": "per-access"})
    return init, ops


def history_family(op, ref_before, ref_after, wrote_since_read):
    """where in the space of operations a failure sits"""
    k = op["op"]
    if k in ("seti", "muls", "adds", "sets", "setn"):
        return f"write-{k}-{ref_before.form}"
    if k == "form":
        return f"form-{ref_before.form}-to-{ref_after.form}"
    if k in ("frame", "copy"):
        same = "same-body" if ref_before.fe["body"] is ref_after.fe["body"] else "other-body"
        if ref_before.fe["frame"] is ref_after.fe["frame"]:
            same = "same-frame"
        return f"{k}-{same}-{'mu-form' if ref_after.form in MU_FORMS else 'geometric-form'}"
    return "infos-" + ("after-write" if wrote_since_read else "no-write")


def run_history(init, ops, frames, out=None, want_tokens=False):
    """drive a real object through `ops`; after every operation compare every observable with the reference semantics
    (`out`: oracle outcome to report into).  Returns the list of per-step records for the correspondence."""
    import numpy as np
    try:
        sv, sib, date = make_object(init, frames)
    except Exception as ex:
        # the constructor refuses a documented way of building the object (e.g. a documented name of the form)
        if out is not None:
            out.count(key=("hist-construct", repr(init)), kind="history-construct")
            out.fail(f"history-construct-{init['form']}-raises", f"the object the history starts from cannot be built: {type(ex).__name__}",
                     {"init": init, "ops": ops, "step": -1}, observed=repr(ex)[:120], expected="an object in form " + init["form"])
            return []
        return {"construct_raises": repr(ex)[:120]}
    ref = Ref(init["six"], date, init["form"], frames[init["frame"]])
    sib_six = None if sib is None else arr(sib).copy()
    steps = []
    changed_since_read = init["kind"].endswith("after-read")   # the helper of the sibling was read before the copy was taken
    hist_input = {"init": init, "ops": ops}
    n_fail0 = 0 if out is None else len(out.failures)
    if out is not None:
        # the object as constructed (form given by a documented name in some spelling, or as the Form constant): it is in the form
        # of that name and stands for the state the six numbers describe in THAT form
        q = state_quality(ref.mu, ref.x)
        out.count(key=("hist-construct", repr(init)), kind="history-construct", form_given="as-" + ("object" if init.get("form_as") == "object" else
                  "full-name" if init.get("form_as", init["form"]).lower() == init["form"] else "short-name"))
        if history_checks(out, sv, arr(sv).copy(), "D", "D", None, ref, q, f"history-construct-{init['form']}",
                          dict(hist_input, step=-1, body=ref.fe["body"].name, frame=ref.fe["name"], form=ref.form), {"op": "construct"}):
            return []
    for n, op in enumerate(ops):
        before = ref
        toks = op_tokens(op, before, frames) if want_tokens else None
        try:
            with watchdog(10.0):
                ref, tag = before.apply(op, frames)
                sv, rtag, vals = real_apply(sv, op, frames)
        except Hang:
            if out is not None:
                out.fail("history-no-return", "an operation of this history does not return within 10 s", dict(hist_input, step=n))
            break
        if tag == "D":
            changed_since_read = True      # any operation other than a read may have changed what a memo was taken for
        six = arr(sv).copy()
        q = state_quality(ref.mu, ref.x)
        fam0 = "history-" + history_family(op, before, ref, changed_since_read)
        steps.append({"toks": toks, "tag": rtag, "six": [float(v) for v in six], "infos": vals, "form": ref.form, "mu": ref.mu,
                      "q": q, "x": ref.x, "fam": fam0, "step": n})
        if out is not None:
            conic = "hyp" if q["e"] > 1 else "ell"
            out.count(key=("hist", n, repr(op), init["six"][0]), kind="history-" + op["op"], conic=conic,
                      **({"centre": ref.fe["body"].name} if op["op"] in ("frame", "copy", "infos") else {}),
                      **({"change": fam0.split("-", 2)[2]} if op["op"] in ("frame", "copy") else {}),
                      **({"infos": "after-change" if changed_since_read else "unchanged"} if op["op"] == "infos" else {}))
            inp = dict(hist_input, step=n, body=ref.fe["body"].name, frame=ref.fe["name"], form=ref.form)
            if history_checks(out, sv, six, rtag, tag, vals, ref, q, fam0, inp, op):
                break       # the object is wrong from here on: later steps would only repeat the finding
        if op["op"] == "infos":
            changed_since_read = False
    if out is not None and steps and len(steps) == len(ops) and len(out.failures) == n_fail0:
        # a change of frame that cannot be done (centre not linked to the others): it must raise and leave the object as it was
        # (same frame, same form, the same position and velocity) — the `finally` path of the frame setter
        q = steps[-1]["q"]
        target = [f for f in unlinked_frames() if f.center.body is not ref.fe["body"]][len(ops) % 2]
        raised = False
        try:
            sv.frame = target
        except Exception:
            raised = True
        out.count(key=("frame-raises", init["six"][0], len(ops)), kind="history-frame-raises")
        inp = dict(hist_input, step=len(ops) - 1, then=f"sv.frame = {target.name} (unlinked centre)", body=ref.fe["body"].name, frame=ref.fe["name"], form=ref.form)
        if not raised:
            out.fail("history-frame-unlinked-no-raise", "a change to a frame whose centre is not linked to the current one does not raise", inp)
        else:
            history_checks(out, sv, arr(sv).copy(), "D", "D", None, ref, q, f"history-frame-raises-{'mu-form' if ref.form in MU_FORMS else 'geometric-form'}", inp, {"op": "frame-raises"})
    if out is not None and sib is not None:
        # the object the copy was taken from has not been touched
        out.count(key=("sibling", init["six"][0], len(ops)), kind="history-sibling")
        r0 = Ref(init["six"], date, init["form"], frames[init["frame"]])
        if not np.array_equal(arr(sib), sib_six) or sib.form.name != init["form"]:
            out.fail("history-sibling-changed", "operations on a copy changed the object it was copied from", hist_input,
                     observed=[float(v) for v in arr(sib)], expected=[float(v) for v in sib_six])
        else:
            q0 = state_quality(r0.mu, r0.x)
            for nm, got, exp, sc in infos_relations(sib.infos, r0.mu, r0.fe["body"].equatorial_radius, r0.x, q0["a"], q0["e"], q0["e"] > 1):
                if isinstance(got, str) or not infos_ok(nm, got, exp, sc):
                    out.fail(f"history-sibling-infos-{nm}", f"infos.{nm} of the untouched original violates its defining relation after operations on its copy",
                             hist_input, observed=None if isinstance(got, str) else float(got), expected=exp)
    return steps


def history_checks(out, sv, six, rtag, tag, vals, ref, q, fam0, inp, op):
    """the property's three clauses on the state the object holds NOW (reference: `ref`)"""
    import numpy as np
    hyper = q["e"] > 1
    rs, vs = float(np.linalg.norm(ref.x[:3])), float(np.linalg.norm(ref.x[3:]))
    if rtag != tag and not (tag == "I" and rtag == "I"):
        out.fail(fam0 + "-outcome", f"the operation ended as {rtag!r}, expected {tag!r} (D done, A AttributeError/KeyError, U UnknownFormError)", inp,
                 observed=rtag, expected=tag)
        return True
    if sv.form.name != ref.form or sv.frame.name != ref.fe["name"] or sv.frame.center.body.name != ref.fe["body"].name:
        out.fail(fam0 + "-label", "form / frame of the object after the operation", inp, observed=[sv.form.name, sv.frame.name], expected=[ref.form, ref.fe["name"]])
        return True
    if not np.all(np.isfinite(six)):
        out.fail(fam0 + "-non-finite", "the six numbers are not finite after the operation", inp, observed=[float(v) for v in six], expected=ref.six)
        return True
    # clause 2: the six numbers are the textbook elements of the state about the CURRENT centre (its mu)
    if ref.form == "cartesian":
        bad = [(j, "xyz"[j % 3] if j < 3 else "v" + "xyz"[j - 3], float(six[j]), float(ref.x[j])) for j in range(6)
               if abs(six[j] - ref.x[j]) > 1e-6 * (rs if j < 3 else vs)]
    else:
        bad = definition_mismatches(ref.form, six, q, hyper, q["a"], q["e"], q["i"], rs, vs)
    for idx, kname, g, exp in bad[:1]:
        out.fail(f"{fam0}-definition-{kname}", f"after the operation, {ref.form}[{idx}] is not the textbook value of {kname} for the state the object holds "
                 f"(cartesian state and mu of the centre of its current frame, {ref.fe['body'].name})", dict(inp, cartesian=[float(v) for v in ref.x]),
                 observed=g, expected=float(exp))
        return True
    # clause 1: the position and velocity the object stands for, directly and through another form
    with np.errstate(all="ignore"):
        c1 = arr(sv.copy(form="cartesian"))
        via = FORMS[(inp["step"] * 7 + len(ref.form)) % len(FORMS)]
        c2 = arr(sv.copy(form=via).copy(form="cartesian")) if defined_for(via, hyper) else c1
    for what, c in (("cartesian", c1), (via, c2)):
        if not (np.all(np.isfinite(c)) and np.linalg.norm(c[:3] - ref.x[:3]) <= 1e-6 * rs and np.linalg.norm(c[3:] - ref.x[3:]) <= 1e-6 * vs):
            out.fail(f"{fam0}-position-velocity", f"after the operation, the object converted to cartesian (through {what}) is not the position and velocity it must hold",
                     dict(inp, via=what), observed=[float(v) for v in c], expected=[float(v) for v in ref.x])
            return True
    # clause 3: derived quantities, defining relations on the current state, with mu and radius of the current body
    if op["op"] == "infos":
        by = dict(zip(INFOS_READ, vals))
        rel = infos_relations(sv.infos, ref.mu, ref.fe["body"].equatorial_radius, ref.x, q["a"], q["e"], hyper)
        for nm, got, exp, sc in rel:
            if nm in by and by[nm] is not None and not isinstance(got, str):
                got = by[nm]     # the value read as the operation itself
            if isinstance(got, str):
                out.fail(f"{fam0}-{nm}-{got}", f"infos.{nm}: {'no ValueError although the orbit the object holds now is hyperbolic' if got == 'no-raise' else 'an exception other than ValueError' if got == 'error' else 'ValueError although it is defined for the orbit the object holds now'}", inp)
                return True
            if not infos_ok(nm, got, exp, sc):
                out.fail(f"{fam0}-{nm}", f"infos.{nm} does not obey its defining relation for the state the object holds now "
                         f"(central body {ref.fe['body'].name})", dict(inp, cartesian=[float(v) for v in ref.x]), observed=float(got), expected=float(exp))
                return True
        # … and equal to what a freshly constructed object with the same cartesian values, frame and date reports
        fr_vals = read_infos(fresh(ref.x, ref.date, "cartesian", ref.fe["frame"]), False)
        for nm, a_, b_ in zip(INFOS_READ, vals, fr_vals):
            if (a_ is None) != (b_ is None) or (a_ is not None and not (abs(a_ - b_) <= 1e-6 * max(abs(a_), abs(b_), 1e-300) + (1e-6 if nm in ("period", "fpa", "sin_fpa", "cos_fpa") else 0.0))):
                out.fail(f"{fam0}-{nm}-vs-fresh-object", f"infos.{nm} differs from what a freshly constructed object with the same cartesian values, frame and date reports",
                         inp, observed=a_, expected=b_)
                return True
    return False

# ---------------------------------------------------------------- extract: formulas and tables regenerated from /repo

SHORT = {"cartesian": "Cart", "keplerian": "Kepl", "keplerian_eccentric": "Ecc", "keplerian_mean": "Mean", "keplerian_circular": "Circ",
         "keplerian_mean_circular": "Mcirc", "tle": "Tle", "spherical": "Sph", "equinoctial": "Equi", "cylindrical": "Cyl"}
CARGS = ["c0", "c1", "c2", "c3", "c4", "c5"]
MU_CONSTS = {"body.µ": "mu", "body.μ": "mu", "body.mu": "mu", "body": "body_unused"}

M2E_EDGE_SRC = "a, e, i, Ω, ω, M = coord\nE = cls.M2E(e, M)\nreturn np.array([a, e, i, Ω, ω, E], dtype=float)\n"


def edge_lean_name(pyname):
    a, b = pyname[1:].split("_to_")
    return SHORT[a][0].lower() + SHORT[a][1:] + "To" + SHORT[b], a, b


def rename_ast(nodes, mapping):
    class Rn(ast.NodeTransformer):
        def visit_Name(self, n):
            return ast.copy_location(ast.Name(id=mapping.get(n.id, n.id), ctx=n.ctx), n)

        def visit_arg(self, n):
            return ast.copy_location(ast.arg(arg=mapping.get(n.arg, n.arg), annotation=None), n)

        def visit_FunctionDef(self, n):
            self.generic_visit(n)
            n.name = mapping.get(n.name, n.name)
            return n
    import copy
    return [Rn().visit(copy.deepcopy(n)) for n in nodes]


def m2e_pieces(tree):
    """Form.M2E: everything before the Newton update function (reduction of M, start value selection, clamp) and the
    update itself are translated, as is the final `return` expression; the loop
    (`X1 = next(X); while abs(X1 - X) >= tol: X = X1; X1 = next(X)`) is checked to have exactly this shape and is written
    with a fuel argument in lean/templates/Forms.tpl"""
    fn = py2lean.find_function(tree, "Form.M2E")
    body = [s for s in fn.body if not (isinstance(s, ast.Expr) and isinstance(s.value, ast.Constant))]
    if not (len(body) == 2 and isinstance(body[0], ast.Assign) and body[0].targets[0].id == "tol" and isinstance(body[1], ast.If)):
        raise py2lean.Untranslatable("M2E: unexpected top-level shape")
    tol = py2lean.translate_expr(body[0].value)
    top = body[1]
    test = py2lean.translate_expr(top.test)
    out = {}
    expected = ast.dump(ast.parse("X1 = next_X(X, e, M)\nwhile abs(X1 - X) >= tol:\n    X = X1\n    X1 = next_X(X, e, M)\n"))
    for tag, blk, var, nxt in (("E", top.body, "E", "next_E"), ("H", top.orelse, "H", "next_H")):
        k = next((n for n, st in enumerate(blk) if isinstance(st, ast.FunctionDef)), None)
        if k is None or blk[k].name != nxt or len(blk) != k + 4 or not isinstance(blk[-1], ast.Return):
            raise py2lean.Untranslatable(f"M2E: unexpected shape of the {tag} branch")
        pre = blk[:k]
        ret = blk[-1].value
        free = {n.id for n in ast.walk(ret) if isinstance(n, ast.Name)} - {var + "1"}
        if len(free) > 1 or not free <= set(py2lean.Tr().assigned(pre)):
            raise py2lean.Untranslatable(f"M2E: return expression of the {tag} branch uses {sorted(free)}")
        extra = next(iter(free), None)
        for key, name in (("start", var), ("red", "M"), ("extra", extra)):
            if name is None:
                out[key + tag] = "(0 : R)"
                continue
            tr = py2lean.TrFn()
            tr.defined |= {"e", "M"}
            out[key + tag] = tr.stmts(list(pre) + [ast.Return(value=ast.Name(id=name, ctx=ast.Load()))])
        out["finish" + tag] = py2lean.translate_expr(rename_ast([ret], {var + "1": "X1", **({extra: "extra"} if extra else {})})[0])
        nf = blk[k]
        if [a.arg for a in nf.args.args] != [var, "e", "M"] or len(nf.body) != 1 or not isinstance(nf.body[0], ast.Return):
            raise py2lean.Untranslatable("M2E: unexpected Newton update function")
        out["next" + tag] = py2lean.translate_expr(rename_ast([nf.body[0].value], {var: "X"})[0])
        sh = ast.dump(ast.Module(body=rename_ast(blk[k + 1:-1], {var: "X", var + "1": "X1", nxt: "next_X"}), type_ignores=[]))
        if sh != expected:
            raise py2lean.Untranslatable("M2E: the iteration loop no longer has the modelled shape")
    out["tol"], out["test"] = tol, test
    return out


INFOS = [("energy", "infosEnergy"), ("n", "infosN"), ("period", "infosPeriod"), ("apocenter", "infosApocenter"), ("pericenter", "infosPericenter"),
         ("v", "infosV"), ("va", "infosVa"), ("vp", "infosVp"), ("vinf", "infosVinf"), ("dinf", "infosDinf"), ("cos_fpa", "infosCosFpa"),
         ("sin_fpa", "infosSinFpa"), ("fpa", "infosFpa")]
INFOS_ARGS = "mu r a e nu"


def infos_defs(tree):
    consts = {"self.mu": "mu", "self.r": "r", "self.kep.a": "a", "self.kep.e": "e", "self.kep.nu": "nu", "self.kep.ν": "nu"}
    lines = []
    guards = {}
    for py, ln in INFOS:
        fn = py2lean.find_function(tree, "Infos." + py)
        body = [s for s in fn.body if not (isinstance(s, ast.Expr) and isinstance(s.value, ast.Constant))]
        guard = None
        if len(body) == 2 and isinstance(body[0], ast.If) and isinstance(body[0].body[0], ast.Raise):
            guard = ast.unparse(body[0].test)
            body = body[1:]
        if len(body) != 1 or not isinstance(body[0], ast.Return):
            raise py2lean.Untranslatable(f"Infos.{py}: not a single return")
        v = body[0].value
        if isinstance(v, ast.Call) and py2lean.Tr().dotted(v.func) == "timedelta":
            if len(v.keywords) != 1 or v.keywords[0].arg != "seconds" or v.args:
                raise py2lean.Untranslatable("Infos.period: timedelta call")
            v = v.keywords[0].value
        text = py2lean.translate_expr(v, consts=consts)
        lines.append(f"/-- `Infos.{py}`" + (f" (raises ValueError if `{guard}`)" if guard else "") + f" -/\ndef {ln} ({INFOS_ARGS} : R) : R :=\n  {text}\n")
        guards[py] = guard
        consts["self." + py] = f"({ln} {INFOS_ARGS})"
        if py == "apocenter":
            consts["self.ra"] = consts["self.apocenter"]
        if py == "pericenter":
            consts["self.rp"] = consts["self.pericenter"]
    # ra / rp are plain aliases
    for alias, target in (("ra", "apocenter"), ("rp", "pericenter")):
        fn = py2lean.find_function(tree, "Infos." + alias)
        ret = [s for s in fn.body if isinstance(s, ast.Return)][0]
        if ast.unparse(ret.value) != "self." + target:
            raise py2lean.Untranslatable(f"Infos.{alias} is no longer an alias of {target}")
    return "\n".join(lines), guards


def lean_str_list(xs):
    return "[" + ", ".join('"' + x + '"' for x in xs) + "]"


def forms_graph_from_source():
    """the links between the forms in the order the source makes them (`A + B + …` at import time, recorded in a fresh
    interpreter by harness/extract_graphs.py, as C20 does): (node names in order of first appearance, links as index pairs)"""
    import json
    import subprocess
    import sys
    p = subprocess.run([sys.executable, os.path.join(core.VERIF, "harness", "extract_graphs.py")],
                       capture_output=True, text=True, timeout=300, env=dict(os.environ, VERIF_REPO=core.REPO))
    if p.returncode != 0:
        raise py2lean.Untranslatable("forms graph: " + p.stderr[-300:])
    links = json.loads(p.stdout.strip().split("\n")[-1])["links"]
    comp = {"cartesian"}
    grown = True
    while grown:
        grown = False
        for a, b in links:
            if (a in comp) != (b in comp):
                comp |= {a, b}
                grown = True
    names, hist = [], []
    for a, b in links:
        if a in comp:
            for x in (a, b):
                if x not in names:
                    names.append(x)
            hist.append((names.index(a), names.index(b)))
    return names, hist


def regen_forms_graph(ctx):
    """rewrite the three `forms…` definitions of Generated/Graphs.lean (the file C20 generates) from the current source, so that
    C20.forms_routing_exact / C01.forms_walk_unique / routes_mirror are re-checked against the graph this run sees.
    A graph that is no longer a tree is reported (the theorems then fail to build, the routing model keeps its fuel)."""
    names, hist = forms_graph_from_source()
    path = os.path.join(core.LEAN, "BeyondVerif", "Generated", "Graphs.lean")
    txt = open(path).read()
    new = {"formsNames : List String": "[" + ", ".join(f'"{n}"' for n in names) + "]", "formsN : Nat": str(len(names)),
           "formsHist : List (Nat × Nat)": "[" + ", ".join(f"({a}, {b})" for a, b in hist) + "]"}
    for k, v in new.items():
        txt, n = re.subn(r"def " + re.escape(k) + r" := [^\n]*", lambda m: f"def {k} := {v}", txt)
        if n != 1:
            raise py2lean.Untranslatable("Generated/Graphs.lean: no definition " + k)
    ch = core.write_if_changed(path, txt)
    und = {frozenset(e) for e in hist}
    if len(und) != len(names) - 1 or len(und) != len(hist):
        ctx.broken.append(f"extract: the forms graph is not a tree any more ({len(names)} forms, {len(hist)} links): between some forms there is more than one walk, "
                          "forms_walk_unique (routing = the unique tree path) no longer holds")
    return ["Generated/Graphs.lean"] if ch else []


def extract(ctx):
    graph_changed = regen_forms_graph(ctx)
    try:
        return graph_changed + _extract(ctx)
    except Exception:
        # the generated formula files stay those of the last successful extraction: make sure the driver is not used against them
        ctx.edges = None
        raise


def _extract(ctx):
    src = open(FORMS_PY).read()
    tree = ast.parse(src)
    cls = py2lean.find_function(tree, "Form")
    parts = []
    edges = []
    for f in cls.body:
        if isinstance(f, ast.FunctionDef) and f.name.startswith("_") and "_to_" in f.name:
            ln, a, b = edge_lean_name(f.name)
            if f.name == "_keplerian_mean_to_keplerian_eccentric":
                stm = [s for s in f.body if not (isinstance(s, ast.Expr) and isinstance(s.value, ast.Constant))]
                if [ast.dump(s) for s in stm] != [ast.dump(s) for s in ast.parse(M2E_EDGE_SRC).body]:
                    raise py2lean.Untranslatable("_keplerian_mean_to_keplerian_eccentric no longer has the modelled shape (a,e,i,Ω,ω,M2E(e,M))")
                edges.append((ln, a, b, False))
                continue
            parts.append(f"/-- `Form.{f.name}` (forms.py line {f.lineno}) -/\n" +
                         py2lean.translate_fn(FORMS_PY, "Form." + f.name, ln, vec_params={"coord": CARGS}, consts=MU_CONSTS, extra_args=["mu"], tree=tree, ret_type="List R"))
            edges.append((ln, a, b, True))
    m = m2e_pieces(tree)
    parts.append(f"/-- `tol` of `Form.M2E` -/\ndef m2eTol : R := {m['tol']}\n")
    def two(doc, name, args, a, b):
        return (f"/-- {doc} -/\ndef {name} ({args} : R) : R :=\n  if " + m["test"] + " then\n" + py2lean.indent(a, 4) + "\n  else\n" + py2lean.indent(b, 4) + "\n")
    parts.append(two("the mean anomaly the Newton iteration of `Form.M2E` works on (ellipse: reduced to [-pi, pi))", "m2eReduced", "e M", m["redE"], m["redH"]))
    parts.append(two("what `Form.M2E` adds back to the result of the loop (ellipse: the whole revolutions taken out of M)", "m2eExtra", "e M", m["extraE"], m["extraH"]))
    parts.append(two("start value of the Newton iteration in `Form.M2E`, as a function of the ORIGINAL arguments (all branches, incl. the clamp)", "m2eStart", "e M", m["startE"], m["startH"]))
    parts.append(two("the `return` expression of `Form.M2E`", "m2eFinish", "e X1 extra", m["finishE"], m["finishH"]))
    parts.append("/-- `next_E` / `next_H` of `Form.M2E` -/\ndef m2eNext (X e M : R) : R :=\n  if " + m["test"] + " then " + m["nextE"] + "\n  else " + m["nextH"] + "\n")
    parts.append("/-- the `while` test of `Form.M2E` -/\ndef m2eContinue {α : Type} (X1 X : R) (yes no : α) : α :=\n  if (absR (X1 - X)) ≥ m2eTol then yes else no\n")
    svtree = ast.parse(open(SV_PY).read())
    itext, guards = infos_defs(svtree)
    parts.append(itext)
    ctx.infos_guards = guards
    body = "\n".join(parts)
    ch = py2lean.instantiate(core.LEAN, "Forms", body, "beyond/orbits/forms.py, beyond/orbits/statevector.py")
    # tables: live objects (param names, aliases, cache) + the edge methods found in the AST
    import importlib
    forms = importlib.import_module("beyond.orbits.forms")
    names = [n for n in _graph_names()]
    t = ["/- GENERATED by harness/props/C01.py from beyond/orbits/forms.py — do not edit. -/", "namespace BeyondVerif.Generated"]
    t.append("/-- `Form.param_names`, in the node order of `formsNames` (Generated/Graphs.lean) -/")
    t.append("def formsParamNames : List (String × List String) := [" + ", ".join(f'("{n}", {lean_str_list(forms._cache[n].param_names)})' for n in names) + "]")
    t.append("/-- `Form.alt` -/")
    t.append("def formsAlt : List (String × String) := [" + ", ".join(f'("{k}", "{v}")' for k, v in forms.Form.alt.items()) + "]")
    t.append("/-- `forms._cache`: accepted form names -> canonical name -/")
    t.append("def formsCache : List (String × String) := [" + ", ".join(f'("{k}", "{v.name}")' for k, v in forms._cache.items()) + "]")
    t.append("/-- the `_a_to_b` conversion methods defined on `Form` (AST), as pairs of indices into `formsNames` -/")
    t.append("def formsEdgeMethods : List (Nat × Nat) := [" + ", ".join(f"({names.index(a)}, {names.index(b)})" for _, a, b, _ in edges) + "]")
    t.append("end BeyondVerif.Generated")
    if core.write_if_changed(os.path.join(core.LEAN, "BeyondVerif", "Generated", "FormTables.lean"), "\n".join(t) + "\n"):
        ch.append("Generated/FormTables.lean")
    ctx.edges = edges
    ctx.sv_tables = sv_tables(svtree, tree, ast.parse(open(FRAMES_PY).read()))
    if write_sv_tables(ctx.sv_tables):
        ch.append("Generated/SVTables.lean")
    ch += instantiate.main()
    return ch



# ---------------------------------------------------------------- StateVector as a state machine: tables read from the AST

FRAMES_PY = os.path.join(core.REPO, "beyond", "frames", "frames.py")

SHAPES = {
    # (file key, qualified name): source text the model of lean/templates/SVMachine.tpl was written against
    ("sv", "Infos.__init__"): "self.orb = orb\n",
    ("sv", "Infos.kep"): "if not hasattr(self, '_kep'):\n    self._kep = self.orb.copy(form='keplerian')\nreturn self._kep\n",
    ("sv", "Infos.sphe"): "if not hasattr(self, '_sphe'):\n    self._sphe = self.orb.copy(form='spherical')\nreturn self._sphe\n",
    ("sv", "Infos.mu"): "return self.orb.frame.center.body.mu\n",
    ("sv", "Infos.r"): "return self.sphe.r\n",
    ("forms", "Form.__call__"): ("if isinstance(new_form, Form):\n    new_form = new_form.name\ncoord = orbit.copy()\nif new_form != orbit.form.name:\n"
                                 "    for a, b in self.steps(new_form):\n        name = f'_{a.name.lower()}_to_{b.name.lower()}'\n"
                                 "        coord = getattr(self, name)(coord, orbit.frame.center.body)\nreturn coord\n"),
    # `canonForm` of the machine: the table `_cache` (regenerated into Generated/FormTables.lean) looked up under the lower-cased name
    ("forms", "get_form"): "if form.lower() not in _cache:\n    raise UnknownFormError(form)\nreturn _cache[form.lower()]\n",
    ("frames", "Frame.transform"): ("new_orb = orbit.copy(form='cartesian')\noffset = self.center.convert_to(orbit.date, new_frame.center, new_frame.orientation)\n"
                                    "m = self.orientation.convert_to(orbit.date, new_frame.orientation)\nnew_orb[:] = m @ new_orb + offset\n"
                                    "new_orb._frame = new_frame\nnew_orb.form = orbit.form\nreturn new_orb\n"),
}


def _nodoc(body):
    return [s for s in body if not (isinstance(s, ast.Expr) and isinstance(s.value, ast.Constant))]


def _dump(stmts):
    return [ast.dump(s) for s in stmts]


def _same(stmts, text):
    return _dump(stmts) == _dump(ast.parse(text).body)


def _find_prop(tree, cls, name, kind):
    """the getter (`kind='getter'`: decorated `@property`) or setter (`@<name>.setter`) of a property of class `cls`"""
    c = py2lean.find_function(tree, cls)
    for f in c.body:
        if isinstance(f, ast.FunctionDef) and f.name == name:
            decs = [ast.unparse(d) for d in f.decorator_list]
            if (kind == "getter" and "property" in decs) or (kind == "setter" and f"{name}.setter" in decs):
                return f
    raise py2lean.Untranslatable(f"{cls}.{name} ({kind}) not found")


def _flatten(stmts):
    """statements in the order they execute when nothing raises: a `try … finally` contributes its body, then its
    finally block (handlers / else are not modelled)"""
    out = []
    for s in stmts:
        if isinstance(s, ast.Try):
            if s.handlers or s.orelse:
                raise py2lean.Untranslatable("setter: try with handlers / else is not modelled")
            out += _flatten(s.body) + _flatten(s.finalbody)
        else:
            out.append(s)
    return out


def sv_tables(svtree, formstree, framestree):
    """what the state machine of lean/templates/SVMachine.tpl interprets, read from the current source:
    the order of the effects inside the `form` setter, the `frame` setter and `copy`, and the two keys of the `infos`
    property; everything else the machine relies on is checked to have exactly the modelled shape"""
    trees = {"sv": svtree, "forms": formstree, "frames": framestree}
    for (k, qn), text in SHAPES.items():
        fn = py2lean.find_function(trees[k], qn)
        if not _same(_nodoc(fn.body), text):
            raise py2lean.Untranslatable(f"{qn} no longer has the modelled shape")
    # --- infos property
    fn = _find_prop(svtree, "StateVector", "infos", "getter")
    body = _nodoc(fn.body)
    if not (len(body) == 2 and isinstance(body[0], ast.If) and not body[0].orelse and len(body[0].body) == 1 and isinstance(body[1], ast.Return)):
        raise py2lean.Untranslatable("StateVector.infos: unexpected shape")
    test = ast.unparse(body[0].test)
    m = re.fullmatch(r"not hasattr\(self, '([^']+)'\)", test)
    if m:
        guard = m.group(1)
        forms = importlib_forms()
        if guard in forms._cache_param_names or forms.Form.alt.get(guard, guard) in forms._cache_param_names:
            raise py2lean.Untranslatable("StateVector.infos: the guard tests the name of an orbital element")
    else:
        m = re.fullmatch(r"'([^']+)' not in self\._data(?:\.keys\(\))?", test)
        if not m:
            raise py2lean.Untranslatable(f"StateVector.infos: guard `{test}` is not modelled")
        guard = m.group(1)
    st = ast.unparse(body[0].body[0])
    m = re.fullmatch(r"self\._data\['([^']+)'\] = Infos\(self\)", st)
    if not m:
        raise py2lean.Untranslatable(f"StateVector.infos: `{st}` is not modelled")
    store = m.group(1)
    if ast.unparse(body[1].value) != f"self._data['{store}']":
        raise py2lean.Untranslatable("StateVector.infos: does not return the stored helper")
    # --- form setter
    fn = _find_prop(svtree, "StateVector", "form", "setter")
    body = _nodoc(fn.body)
    arg = fn.args.args[1].arg
    if not (body and _same(body[:1], f"if isinstance({arg}, str):\n    {arg} = get_form({arg})\n")):
        raise py2lean.Untranslatable("form setter: unexpected head")
    form_steps = []
    for s in _flatten(body[1:]):
        t = ast.unparse(s)
        if t == f"self.view(np.ndarray)[:] = self._data['form'](self, {arg})":
            form_steps.append("convert")
        elif t == f"self._data['form'] = {arg}":
            form_steps.append("commit")
        else:
            raise py2lean.Untranslatable(f"form setter: `{t}` is not modelled")
    if sorted(form_steps) != ["commit", "convert"]:
        raise py2lean.Untranslatable(f"form setter: effects {form_steps}")
    # --- frame setter
    fn = _find_prop(svtree, "StateVector", "frame", "setter")
    body = _nodoc(fn.body)
    arg = fn.args.args[1].arg
    # skeleton: locals (old_form, old_frame, optionally the coordinates on entry), the guarded block whose effects are read below,
    # and the covariance tail.  The tail only runs when `self.cov is not None`: the machine of SVMachine.tpl is an object WITHOUT
    # covariance (its state has no such field, the histories never attach one), so the tail — including the branch that puts
    # coordinates and frame back when the covariance cannot follow — is unreachable there and is not modelled; its guard and
    # the statements of its known shapes are checked so that an unknown tail is refused.
    heads = [f"old_form = self.form\nold_frame = self.frame\nif isinstance({arg}, str):\n    {arg} = get_frame({arg})\n",
             f"old_form = self.form\nold_frame = self.frame\nif isinstance({arg}, str):\n    {arg} = get_frame({arg})\nold_coord = np.array(self)\n"]
    tails = [f"if self.cov is not None and self.cov.frame == old_frame:\n    self.cov.frame = {arg}\n",
             f"if self.cov is not None and self.cov.frame == old_frame:\n    try:\n        self.cov.frame = {arg}\n    except Exception:\n"
             f"        self.view(np.ndarray)[:] = old_coord\n        self._data['frame'] = old_frame\n        raise\n"]
    k = next((n for n, st in enumerate(body) if isinstance(st, ast.If) and ast.unparse(st.test) == f"{arg} != self.frame"), None)
    if not (k is not None and len(body) == k + 2 and not body[k].orelse and any(_same(body[:k], h) for h in heads)
            and any(_same(body[k + 1:], t) for t in tails)):
        raise py2lean.Untranslatable("frame setter: unexpected skeleton")
    if _same(body[k + 1:], tails[1]) and not _same(body[:k], heads[1]):
        raise py2lean.Untranslatable("frame setter: the tail restores coordinates that were not saved on entry")
    body = body[:3] + [body[k]]
    frame_steps = []
    pending = None
    for s in _flatten(body[3].body):
        t = ast.unparse(s)
        m = re.fullmatch(rf"(\w+) = self\.frame\.transform\(self, {arg}\)", t)
        if t == "self.form = 'cartesian'":
            frame_steps.append("toCart")
        elif m:
            pending = m.group(1)
            frame_steps.append("transform")
        elif pending and t == f"self.view(np.ndarray)[:] = {pending}":
            frame_steps.append("store")
        elif t == f"self.view(np.ndarray)[:] = self.frame.transform(self, {arg})":
            frame_steps += ["transform", "store"]
        elif t == f"self._data['frame'] = {arg}":
            frame_steps.append("commit")
        elif t == "self.form = old_form":
            frame_steps.append("restore")
        else:
            raise py2lean.Untranslatable(f"frame setter: `{t}` is not modelled")
    if sorted(frame_steps) != sorted(["toCart", "transform", "store", "commit", "restore"]):
        raise py2lean.Untranslatable(f"frame setter: effects {frame_steps}")
    # --- copy: the two conversions at its end
    fn = py2lean.find_function(svtree, "StateVector.copy")
    copy_steps = []
    for s in _nodoc(fn.body):
        t = ast.unparse(s)
        if t == "if frame and frame != self.frame:\n    new_obj.frame = frame":
            copy_steps.append("frame")
        elif t == "if form and form != self.form:\n    new_obj.form = form":
            copy_steps.append("form")
    if sorted(copy_steps) != ["form", "frame"]:
        raise py2lean.Untranslatable(f"copy: conversions {copy_steps}")
    return {"guard": guard, "store": store, "form": form_steps, "frame": frame_steps, "copy": copy_steps}


def importlib_forms():
    import importlib
    return importlib.import_module("beyond.orbits.forms")


def write_sv_tables(t):
    L = ["/- GENERATED by harness/props/C01.py from beyond/orbits/statevector.py — do not edit. -/", "namespace BeyondVerif.Generated",
         "/-- the name under which the `infos` property looks for an existing `Infos` helper (`hasattr(self, KEY)` / `KEY in self._data`) -/",
         f'def infosGuardKey : String := "{t["guard"]}"',
         "/-- the key of `_data` under which the `infos` property stores the helper it creates -/",
         f'def infosStoreKey : String := "{t["store"]}"',
         "/-- effects of the `form` setter in source order: convert = `self.view(np.ndarray)[:] = self._data[\"form\"](self, new_form)`, commit = `self._data[\"form\"] = new_form` -/",
         "def formSetterSteps : List String := " + lean_str_list(t["form"]),
         "/-- effects of the `frame` setter (inside `if new_frame != self.frame`) in execution order: toCart = `self.form = \"cartesian\"`, transform = `self.frame.transform(self, new_frame)`, "
         "store = `self.view(np.ndarray)[:] = …`, commit = `self._data[\"frame\"] = new_frame`, restore = `self.form = old_form` -/",
         "def frameSetterSteps : List String := " + lean_str_list(t["frame"]),
         "/-- the conversions at the end of `copy`, in source order -/",
         "def copySteps : List String := " + lean_str_list(t["copy"]),
         "end BeyondVerif.Generated"]
    return core.write_if_changed(os.path.join(core.LEAN, "BeyondVerif", "Generated", "SVTables.lean"), "\n".join(L) + "\n")


def _graph_names():
    """node order of the forms graph as recorded in Generated/Graphs.lean (written by C20's extract)"""
    import re
    txt = open(os.path.join(core.LEAN, "BeyondVerif", "Generated", "Graphs.lean")).read()
    m = re.search(r"def formsNames : List String := \[(.*?)\]", txt)
    return [x.strip().strip('"') for x in m.group(1).split(",")]


# ---------------------------------------------------------------- correspondence: compiled Lean model vs the real edge methods

ANGLE_IDX = {"keplerian": (3, 4, 5), "keplerian_eccentric": (3, 4, 5), "keplerian_mean": (3, 4, 5), "keplerian_circular": (4, 5),
             "keplerian_mean_circular": (4, 5), "equinoctial": (5,), "tle": (1, 3, 4), "spherical": (1,), "cylindrical": (1,), "cartesian": ()}


def source_coords(mu, hyper, a, e, i, Om, om, M, EH, nu, rng):
    """the same orbit written in each of the ten forms by formulas local to this harness"""
    c = truth_cartesian(mu, a, e, i, Om, om, nu)
    x, y, z, vx, vy, vz = c
    r = math.sqrt(x * x + y * y + z * z)
    rho2 = x * x + y * y
    rho = math.sqrt(rho2)
    wrap = (lambda t: t) if rng.random() < 0.5 else (lambda t: t % TWO_PI)
    d = {
        "cartesian": list(c),
        "keplerian": [a, e, i, Om, om, nu if rng.random() < 0.5 else nu % TWO_PI],
        "keplerian_eccentric": [a, e, i, Om, om, EH],
        "keplerian_mean": [a, e, i, Om, om, M],
        "keplerian_circular": [a, e * math.cos(om), e * math.sin(om), i, Om, wrap(om + nu)],
        "keplerian_mean_circular": [a, e * math.cos(om), e * math.sin(om), i, Om, wrap(om + M) if not hyper else om + M],
        "equinoctial": [a, e * math.cos(Om + om), e * math.sin(Om + om), math.tan(i / 2) * math.cos(Om), math.tan(i / 2) * math.sin(Om), wrap(Om + om + nu)],
        "spherical": [r, math.atan2(y, x), math.asin(z / r), (x * vx + y * vy + z * vz) / r, (x * vy - y * vx) / rho2,
                      (vz * rho2 - z * (x * vx + y * vy)) / (r * r * rho)],
        "cylindrical": [rho, math.atan2(y, x), z, (x * vx + y * vy) / rho, (x * vy - y * vx) / rho2, vz],
    }
    if not hyper:
        d["tle"] = [i, Om, e, om, M, math.sqrt(mu / a ** 3)]
    return d


def out_scales(form, mu, a, c):
    r = math.sqrt(c[0] ** 2 + c[1] ** 2 + c[2] ** 2)
    v = math.sqrt(c[3] ** 2 + c[4] ** 2 + c[5] ** 2)
    if form == "cartesian":
        return [r, r, r, v, v, v]
    if form == "spherical":
        return [r, 1, 1, v, v / r, v / r]
    if form == "cylindrical":
        return [r, 1, r, v, v / r, v]
    if form == "tle":
        return [1, 1, 1, 1, 1, math.sqrt(mu / abs(a) ** 3)]
    return [abs(a), 1, 1, 1, 1, 1]


def tree_path(names, hist, s, t):
    adj = {n: [] for n in range(len(names))}
    for a, b in hist:
        adj[a].append(b); adj[b].append(a)
    prev = {s: None}
    todo = [s]
    while todo:
        u = todo.pop(0)
        for w in adj[u]:
            if w not in prev:
                prev[w] = u; todo.append(w)
    p = [t]
    while p[-1] != s:
        p.append(prev[p[-1]])
    return p[::-1]


def _graph_hist():
    import re
    txt = open(os.path.join(core.LEAN, "BeyondVerif", "Generated", "Graphs.lean")).read()
    m = re.search(r"def formsHist : List \(Nat × Nat\) := \[(.*?)\]\n", txt)
    return [tuple(int(v) for v in p.split(",")) for p in re.findall(r"\((\d+, \d+)\)", m.group(1))]


class FakeBody:
    def __init__(self, mu):
        self.mu = mu
        setattr(self, "µ", mu)
        setattr(self, "μ", mu)


def cmp_vec(out, fam, what, inp, real, model, form, scales, hyper, cond=1.0):
    for idx in range(6):
        a, b = float(real[idx]), float(model[idx])
        if not (math.isfinite(a) and math.isfinite(b)):
            ok = (not math.isfinite(a)) and (not math.isfinite(b))
        elif idx in ANGLE_IDX[form] and not (hyper and idx == 5 and form in ("keplerian_eccentric", "keplerian_mean", "keplerian_mean_circular")):
            ok = angdiff(a, b) <= 1e-9 * cond
        else:
            ok = abs(a - b) <= 1e-9 * cond * max(abs(a), abs(b), scales[idx] if idx < 3 or form in ("cartesian", "spherical", "cylindrical", "tle") else 1.0)
        if not ok:
            out.fail(fam, f"{what}: component {idx} differs between the real code and the Lean model", inp, observed=[float(v) for v in real], expected=list(model))
            return False
    return True



def hist_discrepancy(real, model, form, mu, q, x, hyper):
    """largest difference between the six numbers of the real object and of the Lean model, in units of the natural scale
    of each component (angles on the circle)"""
    sc = out_scales(form, mu, q["a"], x)
    worst = 0.0
    for idx in range(6):
        a, b = float(real[idx]), float(model[idx])
        if not (math.isfinite(a) and math.isfinite(b)):
            if math.isfinite(a) or math.isfinite(b):
                return float("inf")
            continue
        if idx in ANGLE_IDX[form] and not (hyper and idx == 5 and form in ("keplerian_eccentric", "keplerian_mean", "keplerian_mean_circular")):
            d = angdiff(a, b)
        else:
            d = abs(a - b) / max(abs(a), abs(b), sc[idx] if idx < 3 or form in ("cartesian", "spherical", "cylindrical", "tle") else 1.0)
        worst = max(worst, d)
    return worst


def state_cond(q):
    """how much one rounding error of a conversion is amplified at this state (1/e for the perigee-related angles, 1/(1-e) near
    the parabola, 1/sin i for the node-related angles, cosh^2 H for the hyperbolic anomaly)"""
    e = q["e"]
    c = max(1.0, 1e-3 / e) * (1 / (1 - e) if e < 1 else max(1.0, 0.1 / (e - 1))) * max(1.0, 0.1 / math.sin(q["i"])) * max(1.0, 0.05 * q["r"] / q["rho"])
    if e > 1:
        c *= max(1.0, 1e-3 * math.cosh(q["E"]) ** 2)
    return c


def hist_correspondence(ctx, out, reqs, meta):
    """operation histories: the real object vs the state machine of Model/SVMachine (one request line per history)"""
    rng = ctx.rng
    hf = hist_frames()
    todo = [gen_history(rng, hf, rng.randint(3, 12)) for _ in range(ctx.n(150, 3000))] + pinned_histories(hf)
    for init, ops in todo:
        steps = run_history(init, ops, hf, None, want_tokens=True)
        if isinstance(steps, dict):
            out.count(key=("hist-construct", repr(init)), kind="hist-construct")
            out.fail("hist-construct-raises", "the real object cannot be built where the model has an initial state (form given as " + repr(init.get("form_as")) + ")",
                     {"init": init, "ops": ops}, observed=steps["construct_raises"], expected="D")
            continue
        fe = hf[init["frame"]]
        reqs.append(" ".join(["hist", init["form"], str(fe["id"]), f2b(fe["body"].mu)] + [f2b(v) for v in init["six"]] + [t for st in steps for t in st["toks"]]))
        meta.append(("hist", steps, None, None, None, 1.0, {"init": init, "ops": ops}))
        for st, op in zip(steps, ops):
            out.count(key=(reqs[-1][:60], st["step"]), kind="hist-" + op["op"], **({"hist_change": st["fam"].split("-", 2)[2]} if op["op"] in ("frame", "copy") else {}))


def hist_compare(out, steps, rep, inp):
    segs = [x.strip() for x in rep.split("|")]
    if len(segs) != len(steps) or segs[-1] in ("fuel", "bad-op"):
        out.fail("hist", f"the model does not run the whole history ({segs[-1][:20]})", inp, observed=[st["tag"] for st in steps], expected=[x[:1] for x in segs])
        return
    budget = 0.0
    rmax = 0.0
    for st, seg in zip(steps, segs):
        toks = seg.split()
        q, x = st["q"], st["x"]
        hyper = q["e"] > 1
        rmax = max(rmax, q["r"])
        budget += state_cond(q) * rmax / q["r"]
        if toks[0] != st["tag"]:
            out.fail(st["fam"].replace("history-", "hist-") + "-outcome", "the operation ends differently on the real object and in the model (D done, A AttributeError, U UnknownFormError, I infos)",
                     dict(inp, step=st["step"]), observed=st["tag"], expected=toks[0])
            return
        model = [b2f(t) for t in toks[1:7]]
        d = hist_discrepancy(st["six"], model, st["form"], st["mu"], q, x, hyper)
        out.notes_max = max(getattr(out, "notes_max", 0.0), d / budget)
        if not d <= 2e-10 * budget:
            out.fail(st["fam"].replace("history-", "hist-"), "the six numbers of the real object after this operation differ from those of the state machine model",
                     dict(inp, step=st["step"]), observed=st["six"], expected=model)
            return
        if st["tag"] == "I":
            mi = [b2f(t) for t in toks[7:]]
            for nm, a_, b_ in zip(INFOS_READ, st["infos"], mi):
                if a_ is None:
                    continue
                tol = 2e-10 * budget * (max(abs(a_), abs(b_)) + (1.0 if nm in ("fpa", "sin_fpa", "cos_fpa") else 0.0)) + (1e-6 if nm == "period" else 0.0)   # timedelta: microseconds
                if not ((not math.isfinite(a_) and not math.isfinite(b_)) or abs(a_ - b_) <= tol):
                    out.fail(st["fam"].replace("history-", "hist-") + "-" + nm, f"infos.{nm} read from the real object at this point of the history differs from the state machine model",
                             dict(inp, step=st["step"]), observed=a_, expected=b_)
                    return


def correspondence(ctx):
    import numpy as np
    out = Outcome()
    rng = ctx.rng
    from beyond.orbits.forms import Form
    from beyond.orbits import StateVector
    from beyond.dates import Date
    edges = getattr(ctx, "edges", None)
    if edges is None:
        raise RuntimeError("extract did not run")
    frs = frames()
    names = _graph_names()
    hist = _graph_hist()
    date = Date(2020, 1, 1)
    reqs, meta = [], []
    n_orbits = ctx.n(2500, 40000)
    for it in range(n_orbits):
        k, hyper, a, e, i, Om, om = gen_elements(rng, conic=(it % 2 == 1))
        mu = frs[k].center.body.mu
        M, EH = gen_anomaly(rng, hyper, e)
        nu = nu_from_anomaly(hyper, e, EH)
        src = source_coords(mu, hyper, a, e, i, Om, om, M, EH, nu, rng)
        conic = "hyp" if hyper else "ell"
        body = FakeBody(mu)
        for ln, fa, fb, translated in edges:
            if fa not in src:
                continue
            pyname = f"_{fa}_to_{fb}"
            c = src[fa]
            try:
                with watchdog(2.0), np.errstate(all="ignore"):
                    real = getattr(Form, pyname)(np.array(c, dtype=float), body)
            except Hang:
                real = [float("nan")] * 6
            reqs.append(" ".join(["form", pyname[1:], f2b(mu)] + [f2b(v) for v in c]))
            cond = 1.0
            if hyper and fb == "keplerian_eccentric" and fa == "keplerian":
                cond = max(1.0, 1e-3 * math.cosh(EH) ** 2)   # arctanh(t), t -> 1: one ulp of t moves H by 1e-16 cosh^2 H
            meta.append(("edge-" + pyname[1:], [float(v) for v in real], fb, out_scales(fb, mu, a, src["cartesian"]), hyper, cond,
                         {"edge": pyname, "mu": mu, "coord": c}))
            qd = ""
            if fa == "cartesian" and fb in ("spherical", "cylindrical"):
                qd = "Q%d" % (int(c[0] < 0) + 2 * int(c[1] < 0))
            out.count(key=reqs[-1], kind=pyname[1:] + "-" + conic, **({"m2e": branch(e, M)} if fa == "keplerian_mean" and fb == "keplerian_eccentric" else {}),
                      **({"atan2_quadrant": qd} if qd else {}))
        # API level: StateVector.copy(form=) along the unique tree path for a random pair
        if it % 4 == 0:
            fa, fb = rng.sample([f for f in FORMS if f in src], 2)
            path = tree_path(names, hist, names.index(fa), names.index(fb))
            meths = [f"{names[u]}_to_{names[w]}" for u, w in zip(path, path[1:])]
            sv = StateVector(src[fa], date, fa, frs[k])
            real_steps = [f"{x.name}_to_{y.name}" for x, y in sv.form.steps(fb)]
            out.count(key=("route", fa, fb), kind="route")
            if real_steps != meths:
                out.fail("route-" + fa + "-" + fb, "Form.steps differs from the unique path of the regenerated forms tree", {"src": fa, "dst": fb}, observed=real_steps, expected=meths)
                continue
            try:
                with watchdog(2.0), np.errstate(all="ignore"):
                    real = arr(sv.copy(form=fb))
            except Hang:
                real = [float("nan")] * 6
            reqs.append(" ".join(["walk", f2b(mu)] + [f2b(v) for v in src[fa]] + meths))
            cond = max(1.0, 1e-3 * math.cosh(EH) ** 2) if hyper else 1.0
            if len(meths) > 1:
                cond *= 50.0 * max(1.0, 1e-3 / e) * (1 / (1 - e) if e < 1 else 1.0)
            meta.append(("copy-" + fa + "-" + fb, [float(v) for v in real], fb, out_scales(fb, mu, a, src["cartesian"]), hyper, cond,
                         {"copy": [fa, fb], "body": frs[k].center.body.name, "coord": src[fa]}))
            out.count(key=reqs[-1], kind="copy-" + conic, hops=len(meths))
    # M2E alone, all branches
    for _ in range(ctx.n(3000, 100000)):
        hyper = rng.random() < 0.5
        e = (1.001 + rng.random() ** 2 * 18.999) if hyper else rng.uniform(1e-4, 0.99)
        M, EH = gen_anomaly(rng, hyper, e)
        real = guarded_m2e(e, M)
        real = float("nan") if real is None else real
        reqs.append(" ".join(["m2e", f2b(e), f2b(M)]))
        meta.append(("m2e", real, None, None, hyper, 1.0, {"e": e, "M": M}))
        out.count(key=reqs[-1], kind="m2e", m2e=branch(e, M), finite=math.isfinite(real))
    # Infos
    for _ in range(ctx.n(300, 5000)):
        k, hyper, a, e, i, Om, om = gen_elements(rng)
        mu = frs[k].center.body.mu
        M, EH = gen_anomaly(rng, hyper, e)
        nu = nu_from_anomaly(hyper, e, EH)
        sv = StateVector(truth_cartesian(mu, a, e, i, Om, om, nu), date, "cartesian", frs[k])
        inf = sv.infos
        vals = []
        for py, _ in INFOS:
            try:
                v = getattr(inf, py)
                vals.append(float(v.total_seconds()) if hasattr(v, "total_seconds") else float(v))
            except ValueError:
                vals.append(None)
        kep, r = inf.kep, float(inf.r)
        reqs.append(" ".join(["infos", f2b(mu), f2b(r), f2b(kep.a), f2b(kep.e), f2b(kep.nu)]))
        meta.append(("infos", vals, None, None, hyper, 1.0, {"body": frs[k].center.body.name, "r": r, "a": float(kep.a), "e": float(kep.e), "nu": float(kep.nu)}))
        out.count(key=reqs[-1], kind="infos-" + ("hyp" if hyper else "ell"))
    hist_correspondence(ctx, out, reqs, meta)
    replies = core.Driver().run(reqs)
    for req, (kind, real, form, scales, hyper, cond, inp), rep in zip(reqs, meta, replies):
        if kind == "hist":
            hist_compare(out, real, rep, inp)
            continue
        if kind == "m2e":
            if rep == "fuel":
                if math.isfinite(real):
                    out.fail("m2e-fuel", "the model's Kepler loop needs more than 10^4 iterations where the code returns", inp, observed=real, expected="fuel")
                else:
                    out.tally("m2e: code returns non-finite, model loop does not terminate (NaN never passes the exit test in Lean's Float either)")
                continue
            m = b2f(rep)
            if not ((not math.isfinite(real) and not math.isfinite(m)) or abs(real - m) <= 1e-9 * max(1.0, abs(real))):
                out.fail("m2e", "Form.M2E differs from the Lean model", inp, observed=real, expected=m)
            continue
        if rep in ("bad-op", "fuel"):
            if rep == "fuel" and not all(math.isfinite(v) for v in real if v is not None):
                out.tally("walk/edge: code returns non-finite, model loop runs out of fuel")
                continue
            out.fail(kind, "model rejected the request: " + rep, inp, observed=real, expected=rep)
            continue
        model = [b2f(s) for s in rep.split()]
        if kind == "infos":
            for (py, _), a_, b_ in zip(INFOS, real, model):
                if a_ is None:
                    continue
                if not ((not math.isfinite(a_) and not math.isfinite(b_)) or abs(a_ - b_) <= 1e-9 * max(abs(a_), abs(b_)) + (1e-6 if py == "period" else 0)):
                    out.fail("infos-" + py, f"infos.{py} differs from the Lean model", inp, observed=a_, expected=b_)
            continue
        cmp_vec(out, kind, kind, inp, real, model, form, scales, hyper, cond)
        out.sample({"request": req[:100] + "…", "impl": real, "model": model}, limit=3)
    return out


def replay(f):
    """re-run the recorded failing input on the real API"""
    import numpy as np
    out = Outcome()
    fail = f.get("failure", f)
    inp = fail.get("input", {})
    from beyond.orbits.forms import Form
    if "e" in inp and "M" in inp and "a" not in inp:
        got = guarded_m2e(inp["e"], inp["M"])
        if got is None:
            out.count(key="replay")
            out.fail(fail["family"], fail["what"], inp, observed="no return within 2 s", expected=fail.get("expected"))
            return out
        res = inp["e"] * math.sinh(got) - got - inp["M"] if inp["e"] >= 1 else got - inp["e"] * math.sin(got) - inp["M"]
        out.count(key="replay")
        if not (math.isfinite(got) and abs(res) <= 1e-6 * max(1.0, abs(inp["M"]))):
            out.fail(fail["family"], fail["what"], inp, observed=got, expected=fail.get("expected"))
        return out
    if set(inp) == {"name"}:
        name_table_checks(out, only=inp["name"])
        out.failures = [x for x in out.failures if x["family"] == fail["family"]]
        return out
    if "init" in inp and "ops" in inp:
        run_history(inp["init"], inp["ops"], hist_frames(), out)
        out.failures = [x for x in out.failures if x["family"] == fail["family"]][:1]
        return out
    if "a" in inp and "Omega" in inp:
        frs = frames()
        k = [b.name for b in bodies()].index(inp["body"])
        orbit_checks(out, frs[k], k, inp["e"] >= 1, inp["a"], inp["e"], inp["i"], inp["Omega"], inp["omega"], inp["M"], inp["E_or_H"])
        out.failures = [x for x in out.failures if x["family"] == fail["family"]]
        return out
    ctx = core.Ctx(ID, "quick", 0)
    return oracle(ctx, False)
