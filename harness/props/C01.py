"""C01 — orbital element forms are lossless, definition-true views of one state."""
import ast
import math
import os

from harness import core, py2lean, instantiate
from harness.core import Outcome, f2b, b2f

ID = "C01"
LEAN_TARGETS = ["BeyondVerif.Props.C01", "BeyondVerif.Witness.C01"]
THEOREMS = []
LEVEL_TEXT = ""
LEVEL_NOTE = ""
TECHNIQUE = "Lean 4 proof over edge formulas translated from the Python AST (py2lean) on every run; differential correspondence per edge; API oracle"
TRUSTED = []
ASSUMPTIONS = []
NOT_COVERED = []
OPEN = []
RULE = ""

FORMS_PY = os.path.join(core.REPO, "beyond", "orbits", "forms.py")
SV_PY = os.path.join(core.REPO, "beyond", "orbits", "statevector.py")

FORMS = ["cartesian", "spherical", "cylindrical", "keplerian", "keplerian_eccentric", "keplerian_mean",
         "keplerian_circular", "keplerian_mean_circular", "equinoctial", "tle"]
TWO_PI = 2 * math.pi

# ---------------------------------------------------------------- generators (shared by K and S)

MUS = None


def bodies():
    from beyond import constants
    return [constants.Earth, constants.Moon, constants.Sun]


def frames():
    """one inertial frame per central body (never transformed, only carrying `center.body`)"""
    from beyond.frames import frames as fr, orient, center
    out = []
    for b in bodies():
        name = "C01_" + b.name
        if name not in fr.dynamic:
            fr.Frame(name, orient.EME2000, center.Center(name, body=b), exists_warning=False)
        out.append(fr.dynamic[name])
    return out


def gen_elements(rng, conic=None):
    """(mu-index, hyperbolic?, a, e, i, Omega, omega, anomaly-kind, anomaly) inside the property's quantifier"""
    k = rng.randrange(3)
    hyper = (rng.random() < 0.4) if conic is None else conic
    rbody = [6.4e6, 1.8e6, 7e8][k]
    if hyper:
        e = rng.choice([1.001, 1.01, 1.2, 1.59, 1.61, 3.59, 3.61, 20.0]) if rng.random() < 0.25 else 1.001 + (rng.random() ** 2) * 18.999
        a = -rbody * math.exp(rng.uniform(0.0, 4.0))
    else:
        e = rng.choice([1e-4, 0.002, 0.5, 0.99]) if rng.random() < 0.2 else rng.uniform(1e-4, 0.99)
        a = rbody * math.exp(rng.uniform(0.05, 4.0))
    i = rng.choice([0.01, math.pi / 2, math.pi - 0.01, 1.0, 2.5]) if rng.random() < 0.2 else rng.uniform(0.01, math.pi - 0.01)
    Om = rng.uniform(0, TWO_PI)
    om = rng.uniform(0, TWO_PI)
    return k, hyper, a, e, i, Om, om


def gen_anomaly(rng, hyper, e):
    """mean anomaly drawn so that every start branch of M2E is visited; returns (M, E-or-H)"""
    if hyper:
        H = rng.uniform(-8, 8) if rng.random() < 0.7 else rng.uniform(-1.5, 1.5)
        return e * math.sinh(H) - H, H
    r = rng.random()
    if r < 0.5:
        E = rng.uniform(0, TWO_PI)
    elif r < 0.75:
        E = rng.uniform(-TWO_PI, 0)          # M < 0
    else:
        E = rng.uniform(TWO_PI, 2 * TWO_PI)  # M > 2 pi
    return E - e * math.sin(E), E


def nu_from_anomaly(hyper, e, EH):
    if hyper:
        return 2 * math.atan(math.sqrt((e + 1) / (e - 1)) * math.tanh(EH / 2))
    return 2 * math.atan2(math.sqrt(1 + e) * math.sin(EH / 2), math.sqrt(1 - e) * math.cos(EH / 2))


def truth_cartesian(mu, a, e, i, Om, om, nu):
    """independent textbook construction: perifocal state rotated by R3(-Om) R1(-i) R3(-om)"""
    import numpy as np
    p = a * (1 - e * e)
    r = p / (1 + e * math.cos(nu))
    rp = np.array([r * math.cos(nu), r * math.sin(nu), 0.0])
    vp = math.sqrt(mu / p) * np.array([-math.sin(nu), e + math.cos(nu), 0.0])

    def R3(t):
        return np.array([[math.cos(t), -math.sin(t), 0], [math.sin(t), math.cos(t), 0], [0, 0, 1]])

    def R1(t):
        return np.array([[1, 0, 0], [0, math.cos(t), -math.sin(t)], [0, math.sin(t), math.cos(t)]])
    Q = R3(Om) @ R1(i) @ R3(om)
    return np.concatenate([Q @ rp, Q @ vp])


def start_value(e, M):
    """the start value the current M2E uses for a hyperbolic orbit (forms.py) — only used to name the failure family"""
    if e < 1.6:
        return M - e if (-math.pi < M < 0 or M > math.pi) else M + e
    if e < 3.6 and abs(M) > math.pi:
        return M - math.copysign(e, M)
    return M / (e - 1)


def branch(e, M):
    if e < 1:
        return "ell-minus" if (-math.pi < M < 0 or M > math.pi) else "ell-plus"
    if e < 1.6:
        return "hyp-lt1.6-minus" if (-math.pi < M < 0 or M > math.pi) else "hyp-lt1.6-plus"
    if e < 3.6 and abs(M) > math.pi:
        return "hyp-lt3.6-sign"
    return "hyp-ratio"


def defined_for(form, hyper):
    return not (hyper and form == "tle")


def angdiff(a, b):
    d = (a - b) % TWO_PI
    return min(d, TWO_PI - d)


def arr(sv):
    import numpy as np
    return np.array(sv.base if hasattr(sv, "base") and sv.base is not None else sv, dtype=float).reshape(6)


# ---------------------------------------------------------------- oracle on the real API

def textbook(mu, c):
    """every element of every form, computed from the cartesian state by the textbook definitions (numpy, independent of beyond)"""
    import numpy as np
    r, v = c[:3], c[3:]
    rn, vn = np.linalg.norm(r), np.linalg.norm(v)
    h = np.cross(r, v)
    hn = np.linalg.norm(h)
    hh = h / hn
    ev = np.cross(v, h) / mu - r / rn
    e = np.linalg.norm(ev)
    a = 1 / (2 / rn - vn * vn / mu)
    i = math.acos(hh[2])
    nvec = np.array([-h[1], h[0], 0.0])
    nh = nvec / np.linalg.norm(nvec)
    Om = math.atan2(nvec[1], nvec[0]) % TWO_PI
    om = math.atan2(np.dot(np.cross(nh, ev), hh), np.dot(nh, ev)) % TWO_PI
    nu = math.atan2(np.dot(np.cross(ev, r), hh), np.dot(ev, r)) % TWO_PI
    u = math.atan2(np.dot(np.cross(nh, r), hh), np.dot(nh, r)) % TWO_PI
    d = {"a": a, "e": e, "i": i, "Ω": Om, "ω": om, "ν": nu, "u": u}
    if e < 1:
        E = 2 * math.atan2(math.sqrt(1 - e) * math.sin(nu / 2), math.sqrt(1 + e) * math.cos(nu / 2))
        M = E - e * math.sin(E)
        d["n"] = math.sqrt(mu / a ** 3)
    else:
        nus = (nu + math.pi) % TWO_PI - math.pi
        E = 2 * math.atanh(math.sqrt((e - 1) / (e + 1)) * math.tan(nus / 2))
        M = e * math.sinh(E) - E
    d["E"], d["M"] = E, M
    d["ex_c"], d["ey_c"] = float(np.dot(ev, nh)), float(np.dot(ev, np.cross(hh, nh)))
    d["α"] = om + M
    d["ex_q"], d["ey_q"] = e * math.cos(Om + om), e * math.sin(Om + om)
    d["ix"], d["iy"] = math.tan(i / 2) * math.cos(Om), math.tan(i / 2) * math.sin(Om)
    d["l"] = Om + om + nu
    # spherical / cylindrical: angles by definition, rates by central differences along the straight line r + v t
    x, y, z = r
    d["r"], d["θ"], d["φ"] = rn, math.atan2(y, x), math.asin(z / rn)
    d["rho"] = math.hypot(x, y)
    dt = 1e-4 * rn / vn

    def ang(t):
        q = r + v * t
        return np.array([np.linalg.norm(q), math.atan2(q[1], q[0]), math.asin(q[2] / np.linalg.norm(q)), math.hypot(q[0], q[1])])
    dd = (ang(dt) - ang(-dt))
    dd[1] = (dd[1] + math.pi) % TWO_PI - math.pi
    dd /= 2 * dt
    d["r_dot"], d["θ_dot"], d["φ_dot"], d["rho_dot"] = dd
    return d


ANG = {"Ω", "ω", "ν", "u", "E", "M", "α", "l", "θ"}


def expected_form(form, d, hyper):
    """list of (param name, textbook value, is-angle, scale) for the six numbers of `form`"""
    if form == "keplerian":
        ks = ["a", "e", "i", "Ω", "ω", "ν"]
    elif form == "keplerian_eccentric":
        ks = ["a", "e", "i", "Ω", "ω", "E"]
    elif form == "keplerian_mean":
        ks = ["a", "e", "i", "Ω", "ω", "M"]
    elif form == "keplerian_circular":
        ks = ["a", "ex_c", "ey_c", "i", "Ω", "u"]
    elif form == "keplerian_mean_circular":
        ks = ["a", "ex_c", "ey_c", "i", "Ω", "α"]
    elif form == "equinoctial":
        ks = ["a", "ex_q", "ey_q", "ix", "iy", "l"]
    elif form == "tle":
        ks = ["i", "Ω", "e", "ω", "M", "n"]
    elif form == "spherical":
        ks = ["r", "θ", "φ", "r_dot", "θ_dot", "φ_dot"]
    elif form == "cylindrical":
        ks = ["rho", "θ", "z", "rho_dot", "θ_dot", "vz"]
    else:
        return []
    return ks


def oracle(ctx, widened):
    import numpy as np
    out = Outcome()
    rng = ctx.rng
    big = widened or ctx.thorough
    frs = frames()
    from beyond.orbits import StateVector
    from beyond.orbits.forms import Form
    from beyond.dates import Date
    date = Date(2020, 1, 1)
    N = 400 if big else 40
    for _ in range(N):
        k, hyper, a, e, i, Om, om = gen_elements(rng)
        fr = frs[k]
        mu = fr.center.body.mu
        M, EH = gen_anomaly(rng, hyper, e)
        nu = nu_from_anomaly(hyper, e, EH)
        truth = truth_cartesian(mu, a, e, i, Om, om, nu)
        rs, vs = np.linalg.norm(truth[:3]), np.linalg.norm(truth[3:])
        inp = {"body": fr.center.body.name, "a": a, "e": e, "i": i, "Omega": Om, "omega": om, "M": M, "E_or_H": EH}
        conic = "hyp" if hyper else "ell"
        # 0. the mean-anomaly state, converted to cartesian by the code, is the independently constructed state
        s0 = StateVector([a, e, i, Om, om, M], date, "keplerian_mean", fr)
        with np.errstate(all="ignore"):
            c0 = arr(s0.copy(form="cartesian"))
        out.count(key=("m2cart", k, a, e, M), kind="mean->cartesian-vs-textbook", conic=conic, m2e=branch(e, M))
        if not np.all(np.isfinite(c0)):
            fam = "m2e-hyperbolic-start-overflow" if (hyper and abs(start_value(e, M)) > 709.0) else f"non-finite-mean-to-cartesian-{conic}"
            out.fail(fam, "keplerian_mean -> cartesian returns a non-finite state inside the property's domain (M2E start value overflows sinh/cosh)",
                     inp, observed=[float(x) for x in c0], expected=[float(x) for x in truth], start_value=start_value(e, M) if hyper else None)
            # continue from the true-anomaly state so that the remaining checks still run on this orbit
            s0 = StateVector([a, e, i, Om, om, nu], date, "keplerian", fr)
            c0 = arr(s0.copy(form="cartesian"))
        if not (np.linalg.norm(c0[:3] - truth[:3]) <= 1e-6 * rs and np.linalg.norm(c0[3:] - truth[3:]) <= 1e-6 * vs):
            out.fail(f"mean-to-cartesian-{conic}-{branch(e, M)}", "keplerian_mean -> cartesian differs from the textbook perifocal construction",
                     inp, observed=[float(x) for x in c0], expected=[float(x) for x in truth])
            continue
        cart = StateVector(truth, date, "cartesian", fr)
        # 1. definition truth: every form's six numbers from the cartesian state
        d = textbook(mu, truth)
        d["z"], d["vz"] = truth[2], truth[5]
        for form in FORMS[1:]:
            if not defined_for(form, hyper):
                continue
            with np.errstate(all="ignore"):
                got = arr(cart.copy(form=form))
            ks = expected_form(form, d, hyper)
            out.count(key=("def", form, k, a, e, nu), kind="definition-" + form, conic=conic)
            for idx, kname in enumerate(ks):
                exp = d[kname]
                g = float(got[idx])
                base = kname.split("_")[0]
                if kname in ANG:
                    if kname in ("E", "M") and hyper:
                        ok = abs(g - exp) <= 1e-6 * max(1.0, abs(exp))
                    else:
                        ok = angdiff(g, exp) <= 2e-6 / (e if kname in ("ω", "ν", "E", "M") and e < 1e-2 else 1.0) / (math.sin(i) if kname in ("Ω", "ω", "u", "α") and math.sin(i) < 0.1 else 1.0)
                elif kname.endswith("_dot"):
                    sc = {"r_dot": vs, "rho_dot": vs, "θ_dot": vs / d["rho"], "φ_dot": vs / d["rho"]}[kname]
                    ok = abs(g - exp) <= 2e-5 * sc
                else:
                    sc = {"a": abs(a), "r": rs, "rho": rs, "z": rs, "vz": vs, "n": d.get("n", 1.0)}.get(kname, 1.0)
                    ok = abs(g - exp) <= 1e-6 * sc * (1.0 / math.sin(i) if kname in ("ix", "iy") else 1.0) * (1 + abs(exp) if kname in ("ix", "iy") else 1.0)
                if not (ok and math.isfinite(g)):
                    out.fail(f"definition-{form}-{kname}-{conic}", f"{form}[{idx}] is not the textbook value of {kname} computed from the cartesian state",
                             dict(inp, cartesian=[float(x) for x in truth]), observed=g, expected=float(exp))
        # 2. round trips over all ordered pairs
        for src in FORMS:
            if not defined_for(src, hyper):
                continue
            with np.errstate(all="ignore"):
                sx = cart.copy(form=src)
            for dst in FORMS:
                if dst == src or not defined_for(dst, hyper):
                    continue
                with np.errstate(all="ignore"):
                    back = sx.copy(form=dst).copy(form=src)
                    cb = arr(back.copy(form="cartesian"))
                out.count(key=("rt", src, dst, k, a, e, nu), kind=f"roundtrip-{conic}", pair=f"{src[:9]}>{dst[:9]}")
                if not (np.all(np.isfinite(cb)) and np.linalg.norm(cb[:3] - truth[:3]) <= 1e-6 * rs and np.linalg.norm(cb[3:] - truth[3:]) <= 1e-6 * vs):
                    fam = f"roundtrip-{src}-{dst}-{conic}"
                    if hyper and not np.all(np.isfinite(cb)) and abs(start_value(e, d["M"])) > 709.0:
                        fam = "m2e-hyperbolic-start-overflow"
                    elif hyper and "keplerian_mean_circular" in (src, dst):
                        fam = "mean-circular-hyperbolic-M-mod-2pi"
                    out.fail(fam, f"{src} -> {dst} -> {src} does not return the same position and velocity",
                             dict(inp, cartesian=[float(x) for x in truth], src=src, dst=dst), observed=[float(x) for x in cb], expected=[float(x) for x in truth])
        # 3. Infos: defining relations
        inf = cart.infos
        vn = vs
        h = np.linalg.norm(np.cross(truth[:3], truth[3:]))
        energy = vn * vn / 2 - mu / rs
        checks = [("v", inf.v, vn, vn), ("energy", inf.energy, energy, abs(energy)), ("r", inf.r, rs, rs),
                  ("pericenter", inf.pericenter, a * (1 - e), abs(a)), ("rp", inf.rp, a * (1 - e), abs(a)),
                  ("vp", inf.vp, h / (a * (1 - e)), vn), ("n", inf.n, math.sqrt(mu / abs(a) ** 3), math.sqrt(mu / abs(a) ** 3)),
                  ("cos_fpa", inf.cos_fpa, h / (rs * vn), 1.0), ("sin_fpa", inf.sin_fpa, float(np.dot(truth[:3], truth[3:])) / (rs * vn), 1.0),
                  ("fpa", inf.fpa, math.atan2(float(np.dot(truth[:3], truth[3:])), h), 1.0),
                  ("cos2+sin2", inf.cos_fpa ** 2 + inf.sin_fpa ** 2, 1.0, 1.0),
                  ("zp", inf.zp, a * (1 - e) - fr.center.body.equatorial_radius, abs(a))]
        if hyper:
            checks += [("vinf", inf.vinf, math.sqrt(2 * energy), vn), ("dinf", inf.dinf, h / math.sqrt(2 * energy), abs(a) * e),
                       ("type", float(inf.type == "hyperbolic"), 1.0, 1.0)]
            for nm in ("period", "apocenter", "va"):
                try:
                    getattr(inf, nm)
                    out.fail("infos-" + nm + "-hyperbolic", f"infos.{nm} of a hyperbolic orbit does not raise", inp)
                except ValueError:
                    pass
        else:
            checks += [("period", inf.period.total_seconds(), TWO_PI * math.sqrt(a ** 3 / mu), TWO_PI * math.sqrt(a ** 3 / mu)),
                       ("apocenter", inf.apocenter, a * (1 + e), a), ("ra", inf.ra, a * (1 + e), a), ("va", inf.va, h / (a * (1 + e)), vn),
                       ("za", inf.za, a * (1 + e) - fr.center.body.equatorial_radius, a), ("type", float(inf.type == "elliptic"), 1.0, 1.0)]
        for nm, got, exp, sc in checks:
            out.count(key=("infos", nm, k, a, e, nu), kind="infos", conic=conic)
            if not (math.isfinite(float(got)) and abs(float(got) - exp) <= 1e-6 * sc + (1e-6 if nm == "period" else 0.0)):
                out.fail(f"infos-{nm}-{conic}", f"infos.{nm} violates its defining relation", dict(inp, cartesian=[float(x) for x in truth]),
                         observed=float(got), expected=float(exp))
    # 4. Kepler equation through the public helper, all start branches, incl. the overflow region named by lead 18
    for _ in range(2000 if big else 300):
        hyper = rng.random() < 0.5
        e = (1.001 + rng.random() ** 2 * 18.999) if hyper else rng.uniform(1e-4, 0.99)
        M, EH = gen_anomaly(rng, hyper, e)
        with np.errstate(all="ignore"):
            got = float(Form.M2E(e, M))
        out.count(key=("m2e", e, M), kind="M2E", m2e=branch(e, M))
        res = (e * math.sinh(got) - got - M) if hyper else (got - e * math.sin(got) - M)
        if not (math.isfinite(got) and abs(res) <= 1e-6 * max(1.0, abs(M))):
            fam = "m2e-hyperbolic-start-overflow" if (hyper and not math.isfinite(got) and abs(start_value(e, M)) > 709.0) else "m2e-residual-" + branch(e, M)
            out.fail(fam, "Form.M2E does not return a solution of Kepler's equation inside the property's domain",
                     {"e": e, "M": M, "true_E_or_H": EH, "start_value": start_value(e, M) if hyper else None}, observed=got, expected=EH)
    out.sample({"checks": "mean->cartesian vs textbook, definition truth of 9 forms, 10x10 round trips, infos relations, M2E residual"})
    return out
